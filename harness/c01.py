"""C01 — results do not depend on the coordinate system operands are stored in"""
from harness._compute import search_with, sym_correspondence

PROPERTY = "C01"
LEAN_TARGETS = ['VectorModel.Refine.LorentzSigned', 'VectorModel.Refine.LorentzSigned2', 'VectorModel.Props.Regular', 'VectorModel.Props.C01', 'VectorModel.Props.C01Method', 'VectorModel.Props.MethodExpr', 'VectorModel.Props.MethodExpr2', 'VectorModel.Refine.Planar', 'VectorModel.Refine.SpatialZ', 'VectorModel.Refine.SpatialAcc', 'VectorModel.Refine.SpatialBin', 'VectorModel.Refine.SpatialRot', 'VectorModel.Refine.LorentzAcc', 'VectorModel.Refine.LorentzBin', 'VectorModel.Refine.Equal']
THEOREM_FILES = ['VectorModel/Spec/SignedTau.lean', 'VectorModel/Refine/LorentzSigned.lean', 'VectorModel/Refine/LorentzSigned2.lean', 'VectorModel/Props/Regular.lean', 'VectorModel/Props/C01.lean', 'VectorModel/Props/C01Method.lean', 'VectorModel/Props/MethodExpr.lean', 'VectorModel/Props/MethodExpr2.lean', 'VectorModel/Refine/Planar.lean', 'VectorModel/Refine/SpatialZ.lean', 'VectorModel/Refine/SpatialAcc.lean', 'VectorModel/Refine/SpatialBin.lean', 'VectorModel/Refine/SpatialRot.lean', 'VectorModel/Refine/LorentzAcc.lean', 'VectorModel/Refine/LorentzBin.lean', 'VectorModel/Refine/Equal.lean']
NOT_COVERED = ['singular strata (zero vector, exactly on the z axis with theta/eta storage, t = 0): no real-number meaning in the model (DESIGN.md 3.4)', 'float64 rounding', 'isclose across systems (C12 defines it coordinate-wise in the stored system)', 'equal/not_equal soundness across systems (covered structurally by C12; see DESIGN.md)']
ALWAYS_SEARCH = True          # the law sweep on the real code is cheap: run it in every tier (exploration, not proof)
_law_search = search_with("c01")


def search(ctx, broken):
    """C01 law sweep + (for equal/not_equal, whose cross-system variants have no rounding-robust numeric oracle) the structural
    laws of C12 on exactly convertible operands"""
    from harness import c12
    return _law_search(ctx, broken) + [dict(f, key="equal:" + f["key"]) for f in c12.search(ctx, broken)]
FINDINGS_TARGETS = ["VectorModel.Findings.C01"]


def correspondence(ctx):
    """C01 through the glue of the array backends: the same vectors stored in every coordinate system give the same scalars and
    vector results with the same Cartesian components on NumPy and Awkward arrays (float64), compared with Cartesian storage"""
    from harness import backends
    from harness import common as C
    bad, st = backends.storage_independence_lattice(ctx)
    seen, fails = set(), []
    for a, b, k in bad:
        if k not in seen:
            seen.add(k)
            fails.append({"key": k, "what": f"{a}: {b}"[:400], "code": (
                "import sys; sys.path.insert(0, %r); sys.path.insert(0, %r)\nfrom harness import backends as Bk\n"
                "class X: seed=%d; tier=%r\nbad, _ = Bk.storage_independence_lattice(X)\nhit=[b for b in bad if b[2]==%r]\n"
                "assert not hit, hit[0][0] + ' :: ' + hit[0][1]\n" % (C.VERIF, C.VERIF + "/tools", ctx.seed, ctx.tier, k))})
    st["traces_validated_against_impl"] = st["storage_independence_calls"]
    return {"ok": not bad, "disagreements": [f"{a} :: {b}"[:300] for a, b, _ in bad[:10]], "failing_inputs": fails[:5], "stats": st,
            "samples": [{"lattice": "storage independence on NumPy / Awkward arrays", "calls": st["storage_independence_calls"]}]}
