"""C10 — rotations are proper rotations and their spellings agree"""
from harness._compute import search_with, sym_correspondence

PROPERTY = "C10"
LEAN_TARGETS = ['VectorModel.Props.C10']
THEOREM_FILES = ['VectorModel/Props/C10.lean']
NOT_COVERED = ['float64 rounding']
ALWAYS_SEARCH = True          # the law sweep on the real code is cheap: run it in every tier (exploration, not proof)
search = search_with("c10")
correspondence = sym_correspondence(['rotateX', 'rotateY', 'rotateZ', 'rotate_axis', 'rotate_euler', 'rotate_nautical', 'rotate_quaternion'], 'c10')
