"""C05 (last sentence) / C03 — the NumPy-ufunc ROUTING tables of the four backends against their Lean model.

`numpy.add(v, w)`, `numpy.multiply(3, v)`, `numpy.absolute(v)`, `v ** 2`, `numpy.sqrt(v)`, `v @ w`, `v == w` … are routed to vector
methods by four hand-written tables (`VectorObject.__array_ufunc__`, `VectorNumpy.__array_ufunc__`, `VectorSympy.__array_ufunc__`, the
`behavior[numpy.X, …] = lambda …` registrations of the Awkward backend) and the Python operators on top of them.  The Lean model
`VectorModel/Glue/Ufunc.lean` transcribes the tables branch by branch; `Driver/Ufunc.lean` answers, per request, the ROUTE (which method of
which input with which arguments in which order, how many `out=` vectors are filled, or how the request is refused).

This harness walks the WHOLE lattice — every ufunc (14 supported + `numpy.sin` + `numpy.maximum`) x every operand-kind list of length
1-2 over {object, NumPy array, Awkward array, Awkward record, SymPy object, Python number, NumPy scalar, plain ndarray} x dimensions x
flavors, `out=` variants, the Python operator forms (`v + w`, `3 * v`, `v / 2`, `-v`, `+v`, `abs(v)`, `v ** 2`, `v @ w`, `v == w`,
`v != w`, `v += w` …), direct `__array_ufunc__` calls (wrong arity, deferral) and the Awkward registry itself (key set + every registered
function called directly).  Real side: a subprocess with `vector.register_awkward()` performs the call; the model's route is EVALUATED on
the real library (`call mul self=1 args=in0` -> `operands[1].scale(operands[0])`) and the two results are compared: class (backend,
dimension, flavor), coordinate system, values (rtol 1e-12) — or the exception class.  One driver invocation per run.

    cd /verif && /venv/bin/python -m harness.ufunc 1 quick
"""
from __future__ import annotations

import json
import os
import subprocess
import sys

VERIF = os.path.dirname(os.path.dirname(os.path.abspath(__file__)))

PROPERTY = "C05"
LEAN_TARGETS = ["VectorModel.Glue.Ufunc", "VectorModel.Props.C05Ufunc"]
THEOREM_FILES = ["VectorModel/Props/C05Ufunc.lean"]
NEEDS_TRANSLATOR = False
NOT_COVERED = ["ufunc methods other than `__call__` (`numpy.add.reduce` …: the tables ignore the `method` argument), keyword arguments other than "
               "`out=` (`where=`, `dtype=`, `casting=` are silently ignored by the tables), n-d / jagged operands (element-wise semantics are the "
               "methods': harness/backends.py, harness/layout.py), the values the called methods compute (C03/C11 harnesses)"]

UNARY = ["absolute", "negative", "positive", "square", "sqrt", "cbrt", "sin"]
BINARY = ["add", "subtract", "multiply", "true_divide", "power", "matmul", "equal", "not_equal", "maximum"]
UNARY_OPS = ["abs", "neg", "pos"]
BINARY_OPS = ["add", "sub", "mul", "truediv", "pow", "matmul", "eq", "ne"]
INPLACE_OPS = ["iadd", "isub", "imul", "itruediv"]
OP_TEXT = {"add": "x + y", "sub": "x - y", "mul": "x * y", "truediv": "x / y", "pow": "x ** y", "matmul": "x @ y", "eq": "x == y", "ne": "x != y",
           "abs": "abs(x)", "neg": "-x", "pos": "+x", "iadd": "x += y", "isub": "x -= y", "imul": "x *= y", "itruediv": "x /= y"}
OP_FMT = {"add": "{} + {}", "sub": "{} - {}", "mul": "{} * {}", "truediv": "{} / {}", "pow": "{} ** {}", "matmul": "{} @ {}", "eq": "{} == {}",
          "ne": "{} != {}", "abs": "abs({})", "neg": "-{}", "pos": "+{}", "iadd": "x += {1}  (x = {0})", "isub": "x -= {1}  (x = {0})",
          "imul": "x *= {1}  (x = {0})", "itruediv": "x /= {1}  (x = {0})"}
VEC_BACKENDS = ["ob", "np", "ak", "ar", "sy"]          # object, NumPy array, Awkward array, Awkward record, SymPy object
SCALARS = ["s", "f", "a"]                              # Python float, NumPy scalar, plain ndarray
NSIG = {2: 2, 3: 6, 4: 12}

# findings of the current tree that show up in this lattice (keys of /verif/known_findings.json) ...
KNOWN_KEYS = ["awkward-matmul", "ak-record-eq-operator", "operator-flavor-awkward-numpy", "numpy.isclose:object", "numpy.isclose:awkward"]
# ... and the one this harness found (same root cause as `ak-record-eq-operator`: Awkward's ufunc dispatch on a single RECORD asserts
# that the overload returns a record): scalar-valued ufuncs / operators other than == != on an Awkward record
NEW_FINDINGS = {
    "ak-record-scalar-ufunc": {
        "property": "C05",
        "what": "abs(rec), rec ** k, numpy.absolute / square / sqrt / cbrt / power on a single Awkward RECORD raise AssertionError (behaviors "
                "registered), while rec.rho / rec.mag / rec.tau … return the value: the operator does not stand for its method (same root cause as "
                "ak-record-eq-operator)",
        "code": "import vector\nvector.register_awkward()\nrec=vector.zip({'x':[3.0,2.0],'y':[4.0,3.0]})[0]\nm=rec.rho\ntry:\n    a=abs(rec)\n"
                "except AssertionError:\n    raise AssertionError('abs(record) raises AssertionError although record.rho = %r' % m)\nassert a==m\n"},
}


# ================================================================================================ kinds
def is_vec(k):
    return len(k) == 4


def driver_kind(k):
    if is_vec(k):
        return ("ak" if k[:2] == "ar" else k[:2]) + k[2:]
    return "a" if k == "a" else "s"


def describe_kind(k):
    if is_vec(k):
        be = {"ob": "object", "np": "NumPy array", "ak": "Awkward array", "ar": "Awkward record", "sy": "SymPy object"}[k[:2]]
        return f"{'Momentum' if k[3] == 'm' else 'Vector'}{k[2]}D {be}"
    return {"s": "Python float", "f": "numpy.float64", "a": "plain ndarray", "s2": "the int 2", "f2": "numpy.float64(2.0)", "nd": "plain ndarray"}[k]


def vec_kinds(backends=VEC_BACKENDS, dims=(2, 3, 4)):
    return [b + str(d) + f for b in backends for d in dims for f in "gm"]


# ================================================================================================ requests
class Req(dict):
    """form: ufunc | op | table | key | function;  name;  kinds (harness tokens);  outs (harness tokens);  sigs / rots: which stored
    coordinate system and which Cartesian point each operand gets"""

    def line(self):
        ks = " ".join(driver_kind(k) for k in self["kinds"])
        if self["form"] == "ufunc":
            o = "out=" + ",".join(driver_kind(k) for k in self["outs"]) if self["outs"] else "0"
            return f"{self['name']} {o} {ks}".rstrip()
        if self["form"] == "op":
            return f"op {self['name']} {ks}"
        if self["form"] == "table":
            return f"table {self['be']} {self['name']} 0 {ks}".rstrip()
        return "akkeys"

    def python(self):
        ops = ", ".join("<" + describe_kind(k) + ">" for k in self["kinds"])
        if self["form"] == "ufunc":
            o = ", out=<" + ", ".join(describe_kind(k) for k in self["outs"]) + ">" if self["outs"] else ""
            return f"numpy.{self['name']}({ops}{o})"
        if self["form"] == "op":
            ks = ["<" + describe_kind(k) + ">" for k in self["kinds"]]
            return OP_FMT[self["name"]].format(*ks)
        if self["form"] == "table":
            return f"<{describe_kind(self['self'])}>.__array_ufunc__(numpy.{self['name']}, '__call__', {ops})"
        return str(self.get("name"))


def requests(ctx):
    from harness import common as C
    r = C.rng(ctx.seed, "ufunc")
    quick = ctx.tier == "quick"
    reqs = []

    def add(form, name, kinds, outs=(), **kw):
        q = Req(form=form, name=name, kinds=list(kinds), outs=list(outs), **kw)
        q["sigs"] = [r.randrange(NSIG[int(k[2])]) if is_vec(k) else 0 for k in q["kinds"]]
        q["rots"] = [r.randrange(3) for _ in q["kinds"]]
        reqs.append(q)

    V = vec_kinds()
    core = vec_kinds(["ob", "np", "ak", "ar"])
    sy = vec_kinds(["sy"])
    # ---- operand lists of length 1
    singles = [[k] for k in V]
    # ---- operand lists of length 2
    pairs = []
    same = [(a, b) for a in core for b in core if a[2] == b[2]]
    mixed = [(a, b) for a in core for b in core if a[2] != b[2]]
    pairs += same
    pairs += r.sample(mixed, 24) if quick else mixed
    pairs += [(a, s) for a in V for s in SCALARS] + [(s, a) for a in V for s in SCALARS]
    sysame = [(a, b) for a in sy for b in sy if a[2] == b[2]]
    symix = [(a, b) for a in sy for b in sy if a[2] != b[2]] + [(a, b) for a in sy for b in core] + [(b, a) for a in sy for b in core]
    pairs += sysame
    pairs += r.sample(symix, 16) if quick else symix
    for u in UNARY:
        for ks in singles:
            add("ufunc", u, ks)
    for u in BINARY:
        for ks in pairs:
            add("ufunc", u, ks)
        for ks in r.sample(singles, 4):                       # wrong arity: NumPy itself refuses
            add("ufunc", u, ks)
    # exponent exactly 2 (the `== 2` special case of the Awkward registration and of `__pow__`)
    for a in V:
        for two in ("s2", "f2"):
            add("ufunc", "power", [a, two])
            add("op", "pow", [a, two])
    # ---- Python operator forms
    for o in UNARY_OPS:
        for ks in singles:
            if is_vec(ks[0]):
                add("op", o, ks)
    oppairs = pairs if not quick else [p for p in pairs if r.random() < 0.6 or "a" in p or "s" in p]
    for o in BINARY_OPS:
        for ks in oppairs:
            add("op", o, ks)
    ippairs = pairs if not quick else [p for p in pairs if r.random() < 0.35]
    for o in INPLACE_OPS:
        for ks in ippairs:
            add("op", o, ks)
    # ---- out= : every ufunc with outputs of the handler's backend, of another backend, and a plain ndarray
    outk = {"ob": ["ob", "np"], "np": ["np", "ob", "nd"], "sy": ["sy"], "ak": ["ak", "np"], "ar": ["ak"]}
    for u in UNARY + BINARY:
        lists = (singles if u in UNARY else [p for p in same + sysame] + [(a, s) for a in V for s in SCALARS] + [(s, a) for a in V for s in SCALARS])
        lists = [ks for ks in lists if any(is_vec(k) for k in ks)]
        if quick:
            lists = [ks for ks in lists if any(k[:2] == "np" for k in ks if is_vec(k)) or r.random() < 0.12]
        for ks in lists:
            first = [k for k in ks if is_vec(k)]
            hb = max((k[:2] for k in first), key=lambda b: {"ob": 0, "np": 1, "sy": 2, "ak": 3, "ar": 3}[b])
            for j, ob in enumerate(outk[hb]):
                if j > 0 and quick and r.random() < 0.6:
                    continue
                d = first[0][2:]
                add("ufunc", u, ks, outs=["nd" if ob == "nd" else ob + d])
    for u in ("add", "multiply"):                             # no vector among the inputs, a vector as `out=`
        for o in ("np2g", "ob2g"):
            add("ufunc", u, ["s", "s"], outs=[o])
    # ---- direct `__array_ufunc__` calls: wrong arity, lower-priority table asked about a higher-priority operand
    for be, slf in (("ob", "ob3g"), ("np", "np3m"), ("sy", "sy3g")):
        hi = {"ob": ["np3g", "ak3m"], "np": ["ak3g"], "sy": ["ak3g"]}[be]
        lists = [[], [slf], [slf, slf], [slf, slf, slf], [slf, "s"], ["s", slf], [slf, "s", "s"], ["a", slf], [slf, "a"]]
        lists += [[slf, h] for h in hi] + [[h, slf] for h in hi]
        for u in UNARY + BINARY:
            for ks in lists:
                add("table", u, ks, be=be, self=slf)
    # ---- the Awkward registry itself
    reqs.append(Req(form="key", name="akkeys", kinds=[], outs=[], sigs=[], rots=[]))
    return reqs


# ================================================================================================ the real side (worker subprocess)
P = {0: [(1.5, -2.0, 0.75), (0.3, 0.7, -1.2), (-1.1, 2.2, 0.4)], 1: [(0.8, 1.9, -0.6), (-2.1, 0.4, 1.3), (0.6, -0.9, 2.0)]}
TF = {0: [1.8, 1.3, 0.6], 1: [0.5, 2.2, 1.4]}               # t = factor * |p|: one spacelike point per position
SCAL = {"s": [2.5, -0.75], "f": [-1.25, 3.5], "a": [[0.5, 2.0, -1.5], [1.5, -0.25, 3.0]]}
METHOD = {"add": "add", "sub": "subtract", "mul": "scale", "matmul": "dot", "eq": "equal", "ne": "not_equal"}
ERRCLS = {"typeError": "TypeError", "notImplemented": "TypeError", "valueError": "ValueError", "indexError": "IndexError",
          "assertionError": "AssertionError"}


def parse_route(s):
    s = s.strip()
    if s.startswith("iftwo ") or s.startswith("ifpytwo "):
        head, rest = s.split(" ? ", 1)
        depth, i = 0, 0
        for i, ch in enumerate(rest):
            depth += ch == "("
            depth -= ch == ")"
            if depth == 0:
                break
        return (head.split()[0], int(head.split()[1][2:]), parse_route(rest[1:i]), parse_route(rest[i + 1:].split(" : ", 1)[1][1:-1]))
    t = s.split()
    kv = dict(x.split("=", 1) for x in t if "=" in x)
    if t[0] == "call":
        return ("call", t[1], int(kv["self"]), [] if kv["args"] == "-" else kv["args"].split(","), int(kv.get("fills", 0)))
    if t[0] == "identity":
        return ("identity", int(kv["self"]))
    if t[0] == "value":
        return ("value", t[1], int(kv["self"]))
    if t[0] == "pow":
        return ("pow", t[1], int(kv["self"]), kv["exp"])
    return (t[0],)


class Worker:
    def __init__(self):
        import warnings
        warnings.simplefilter("ignore")
        import awkward as ak
        import numpy
        import sympy
        import vector
        vector.register_awkward()
        numpy.seterr(all="ignore")
        from harness import common as C
        self.ak, self.numpy, self.sympy, self.vector, self.C = ak, numpy, sympy, vector, C
        self.cache = {}

    # ------------------------------------------------------------------ operands
    def build(self, kind, pos, sig_i, rot, fresh=False):
        numpy, C, vector = self.numpy, self.C, self.vector
        if kind == "s2":
            return 2
        if kind == "f2":
            return numpy.float64(2.0)
        if kind == "s":
            return SCAL["s"][pos % 2]
        if kind == "f":
            return numpy.float64(SCAL["f"][pos % 2])
        if kind in ("a", "nd"):
            return numpy.array(SCAL["a"][pos % 2])
        key = (kind, pos, sig_i, rot)
        if not fresh and key in self.cache:
            return self.cache[key]
        be, dim, fl = kind[:2], int(kind[2]), kind[3]
        sig = C.SIGS[dim][sig_i % len(C.SIGS[dim])]
        pts = [P[pos % 2][(j + rot) % 3] for j in range(3)]
        fac = [TF[pos % 2][(j + rot) % 3] for j in range(3)]
        carts = []
        for p, f in zip(pts, fac):
            c = list(p[:min(dim, 3)])
            if dim == 4:
                c.append(f * sum(x * x for x in c) ** 0.5)
            carts.append(c)
        rows = [C.cart_to_stored(sig, c) for c in carts]
        if be == "ob":
            v = C.obj_vec(fl, sig, rows[0])
        elif be == "np":
            v = C.np_array(fl, sig, rows)
        elif be == "ak":
            v = C.ak_array(fl, sig, rows)
        elif be == "ar":
            v = C.ak_array(fl, sig, rows)[0]
        else:
            names = C.field_names(fl, sig)
            cls = getattr(vector, ("Momentum" if fl == "m" else "Vector") + f"Sympy{dim}D")
            v = cls(**{n: self.sympy.Symbol(f"{n}{pos}", real=True) for n in names})
        if not fresh:
            self.cache[key] = v
        return v

    # ------------------------------------------------------------------ reading results
    def backend_of(self, x):
        V = self.vector.backends
        if isinstance(x, V.object.VectorObject):
            return "ob"
        if isinstance(x, V.numpy.VectorNumpy):
            return "np"
        if isinstance(x, V.sympy.VectorSympy):
            return "sy"
        if isinstance(x, V.awkward.VectorAwkward):
            return "ak"
        return None

    def system_of(self, x):
        be = self.backend_of(x)
        if be in ("ob", "sy"):
            return tuple(type(getattr(x, g)).__name__ for g in ("azimuthal", "longitudinal", "temporal") if hasattr(x, g))
        if be == "np":
            return tuple(x.dtype.names)
        if be == "ak":
            return tuple(self.ak.fields(x))
        return None

    def values_of(self, x):
        """canonical nested structure of numbers / sympy expressions / booleans"""
        ak, numpy = self.ak, self.numpy
        be = self.backend_of(x)
        if be in ("ob", "sy"):
            return [self.values_of(c) for c in self.C.stored(x)]
        if be == "np":
            return [numpy.asarray(x[n]).tolist() for n in x.dtype.names]
        if be == "ak":
            return [ak.to_list(x[n]) for n in ak.fields(x)]
        if isinstance(x, (ak.Array, ak.Record)):
            return ak.to_list(x)
        if isinstance(x, numpy.ndarray):
            return x.tolist()
        if isinstance(x, numpy.generic):
            return x.item()
        return x

    def close(self, a, b):
        sympy = self.sympy
        if isinstance(a, (list, tuple)) or isinstance(b, (list, tuple)):
            return (isinstance(a, (list, tuple)) and isinstance(b, (list, tuple)) and len(a) == len(b)
                    and all(self.close(x, y) for x, y in zip(a, b)))
        if isinstance(a, dict) or isinstance(b, dict):
            return isinstance(a, dict) and isinstance(b, dict) and a.keys() == b.keys() and all(self.close(a[k], b[k]) for k in a)
        if isinstance(a, sympy.Basic) or isinstance(b, sympy.Basic):
            try:
                return bool(a == b) or sympy.simplify(a - b) == 0
            except Exception:  # noqa: BLE001
                return False
        if isinstance(a, (bool, self.numpy.bool_)) or isinstance(b, (bool, self.numpy.bool_)):
            return isinstance(a, (bool, self.numpy.bool_)) and isinstance(b, (bool, self.numpy.bool_)) and bool(a) == bool(b)
        if a is None or b is None:
            return a is None and b is None
        if isinstance(a, complex) or isinstance(b, complex):      # Python's float ** fraction of a negative number (object backend)
            a, b = complex(a), complex(b)
            return self.close(a.real, b.real) and self.close(a.imag, b.imag)
        try:
            a, b = float(a), float(b)
        except Exception:  # noqa: BLE001
            return False
        if a != a or b != b:
            return a != a and b != b
        if a in (float("inf"), float("-inf")) or b in (float("inf"), float("-inf")):
            return a == b
        return abs(a - b) <= 1e-12 * max(abs(a), abs(b)) + 1e-300

    def shape_class(self, x):
        """class of a result: vector class name, or the category of a non-vector value"""
        ak, numpy = self.ak, self.numpy
        if self.backend_of(x):
            return type(x).__name__
        if isinstance(x, ak.Array):
            return "ak.Array"
        if isinstance(x, ak.Record):
            return "ak.Record"
        if isinstance(x, numpy.ndarray):
            return "ndarray" if x.ndim else "number"
        if x is None:
            return "None"
        if x is NotImplemented:
            return "NotImplemented"
        if isinstance(x, (bool, numpy.bool_)):
            return "bool"
        if isinstance(x, self.sympy.Basic):
            return "bool" if x in (self.sympy.true, self.sympy.false) else "expression"
        return "number"

    def differ(self, got, want):
        """None when `got` is the same result as `want`, else (kind, text)"""
        cg, cw = self.shape_class(got), self.shape_class(want)
        if cg != cw:
            return "class", f"{cg} instead of {cw}"
        sg, sw = self.system_of(got), self.system_of(want)
        if sg != sw:
            return "system", f"coordinates {sg} instead of {sw}"
        try:
            vg, vw = self.values_of(got), self.values_of(want)
        except Exception as e:  # noqa: BLE001
            return "unreadable", f"{type(e).__name__}: {e}"[:120]
        if not self.close(vg, vw):
            return "values", f"{str(vg)[:120]} instead of {str(vw)[:120]}"
        return None

    # ------------------------------------------------------------------ the model's route on the real library
    def eval_route(self, rt, ops):
        t = rt[0]
        if t == "call":
            _, op, i, args, _fills = rt
            a = []
            for s in args:
                if s == "neg1":
                    a.append(-1)
                elif s.startswith("inv"):
                    a.append(1 / ops[int(s[3:])])
                else:
                    a.append(ops[int(s[2:])])
            return getattr(ops[i], METHOD[op])(*a)
        if t == "identity":
            return ops[rt[1]]
        if t == "value":
            return getattr(ops[rt[2]], rt[1])
        if t == "pow":
            e = rt[3]
            e = 0.25 if e == "0.25" else 0.16666666666666666 if e == "1/6" else ops[int(e[2:])]
            return getattr(ops[rt[2]], rt[1]) ** e
        if t == "iftwo":
            return self.eval_route(rt[2], ops) if ops[rt[1]] == 2 else self.eval_route(rt[3], ops)
        if t == "ifpytwo":                                   # ndarray.__pow__'s fast path: a Python int / float equal to 2
            return self.eval_route(rt[2], ops) if type(ops[rt[1]]) in (int, float) and ops[rt[1]] == 2 else self.eval_route(rt[3], ops)
        if t == "plain":
            raise _Expected("plain")
        if t == "none":
            return None
        raise _Expected(ERRCLS[t])

    def expected(self, rt, ops):
        """('ok', value) | ('err', exception class name)"""
        try:
            return "ok", self.eval_route(rt, ops)
        except _Expected as e:
            return "err", e.cls
        except Exception as e:  # noqa: BLE001        (the METHOD refuses: mixed dimensions, libraries that do not mix …)
            return "err", type(e).__name__

    def fills_of(self, rt):
        return rt[4] if rt[0] == "call" else 0

    def filled(self, out, result):
        """the values `out` holds after being overwritten with `result` (`_replace_data` / field-by-field assignment)"""
        if self.backend_of(out) in ("ob", "sy"):
            if self.backend_of(result) != self.backend_of(out):
                raise TypeError("can only assign a single vector")
            return [self.values_of(getattr(result, n)) for n in self.stored_names(out)]
        return [self.numpy.asarray(result[n]).tolist() for n in out.dtype.names]

    # ------------------------------------------------------------------ one request
    def real_call(self, q, ops, outs):
        numpy = self.numpy
        f, name = q["form"], q["name"]
        if f == "ufunc":
            u = getattr(numpy, name)
            if outs:
                return u(*ops, out=outs[0] if len(outs) == 1 else tuple(outs))
            return u(*ops)
        if f == "table":
            slf = ops[q["kinds"].index(q["self"])] if q["self"] in q["kinds"] else self.build(q["self"], 0, 0, 0)
            return type(slf).__array_ufunc__(slf, getattr(numpy, name), "__call__", *ops)
        x = ops[0]
        y = ops[1] if len(ops) > 1 else None
        if name == "abs":
            return abs(x)
        if name == "neg":
            return -x
        if name == "pos":
            return +x
        if name == "add":
            return x + y
        if name == "sub":
            return x - y
        if name == "mul":
            return x * y
        if name == "truediv":
            return x / y
        if name == "pow":
            return x ** y
        if name == "matmul":
            return x @ y
        if name == "eq":
            return x == y
        if name == "ne":
            return x != y
        if name == "iadd":
            x += y
        elif name == "isub":
            x -= y
        elif name == "imul":
            x *= y
        elif name == "itruediv":
            x /= y
        return x

    def handler(self, kinds):
        pr = {"ob": 0, "np": 1, "sy": 2, "ak": 3, "ar": 3}
        vs = [k[:2] for k in kinds if is_vec(k)]
        return max(vs, key=lambda b: pr[b]) if vs else None

    def classify(self, q, rt, real, want, ops):
        """key of the finding a disagreement with the DOCUMENTED rule belongs to, or None"""
        kinds, name = q["kinds"], q["name"]
        hb = self.handler(kinds)
        accepted = rt[0] in ("call", "identity", "value", "pow", "iftwo", "ifpytwo")
        if hb in ("ak", "ar") and accepted:
            if name == "matmul" and real == ("err", "NotImplementedError"):
                return "awkward-matmul"
            only_records = not any(k[:2] in ("ak", "np") for k in kinds if is_vec(k))
            if real == ("err", "AssertionError") and only_records and want[0] == "ok" and not self.backend_of(want[1]):
                if name in ("equal", "not_equal", "eq", "ne"):
                    return "ak-record-eq-operator"
                if name in ("absolute", "square", "sqrt", "cbrt", "power", "abs", "pow"):
                    return "ak-record-scalar-ufunc"
            if any(k[:2] == "np" for k in kinds if is_vec(k)) and real[0] == "ok" and want[0] == "ok":
                # the literal table: the NumPy operand is first cast with `vector.Array(v)` (generic record name: its momentum flavor is
                # dropped; a record x NumPy array comparison is carried out on Awkward arrays)
                cast = [self.vector.Array(o) if self.backend_of(o) == "np" else o for o in ops]
                lit = self.expected(rt, cast)
                if lit[0] == "ok" and self.differ(real[1], lit[1]) is None:
                    d = self.differ(real[1], want[1])
                    if d and d[0] == "class" and type(real[1]).__name__.replace("Vector", "Momentum") == type(want[1]).__name__:
                        return "operator-flavor-awkward-numpy"
                    if d and d[0] == "class" and {self.shape_class(real[1]), self.shape_class(want[1])} == {"ak.Array", "ndarray"} and \
                            self.close(self.values_of(real[1]), self.values_of(want[1])):
                        return "ok:container"                 # same values, Awkward array instead of ndarray: not a documented property
        if hb in ("ak", "ar") and not accepted and name == "matmul" and real == ("err", "NotImplementedError"):
            return "ok:awkward-matmul-gate"                   # refused either way; Awkward's own matmul gate fires before the lookup
        return None

    def run_one(self, q, model):
        """-> dict(status = ok | known | bad, key, detail, agreed_error)"""
        if model == "bad-request":
            return {"status": "bad", "key": "driver:bad-request", "detail": "the driver does not understand the request"}
        if q["form"] == "key":
            return self.run_keys(model)
        rt = parse_route(model)
        kinds = q["kinds"]
        inplace = q["form"] == "op" and q["name"] in INPLACE_OPS
        ops = [self.build(k, j, q["sigs"][j], q["rots"][j], fresh=inplace and j == 0) for j, k in enumerate(kinds)]
        # the documented rule: the operator / ufunc gives what the method it stands for gives
        want = self.expected(rt, ops)
        fills = self.fills_of(rt)
        # outputs: a zeroed copy of the expected result where that is a vector of the requested backend, else of an operand's class
        outs = []
        for ok_ in q["outs"]:
            if ok_ == "nd":
                outs.append(self.numpy.zeros(3))
                continue
            src = want[1] if want[0] == "ok" and self.backend_of(want[1]) == ok_[:2] else self.build(ok_, 1, 0, 0, fresh=True)
            outs.append(self.blank(src))
        targets = outs if outs else ([ops[0]] if inplace and ops and self.backend_of(ops[0]) else [])
        x0 = targets[0] if inplace and targets else None
        x0_cls = (type(x0).__name__, self.system_of(x0)) if x0 is not None else None
        # what the filled outputs must hold (`_replace_data` / field-by-field assignment), worked out BEFORE the call
        exp_fill = []
        if want[0] == "ok":
            for j, o in enumerate(targets):
                if j < fills:
                    try:
                        exp_fill.append(self.filled(o, want[1]))
                    except Exception as e:  # noqa: BLE001      (e.g. the result has no field of the output's name)
                        want = ("err", type(e).__name__)
                        break
        before = self.snapshot(targets)
        try:
            got = self.real_call(q, ops, outs)
            real = ("ok", got)
        except Exception as e:  # noqa: BLE001
            real = ("err", type(e).__name__, str(e)[:100].replace("\n", " "))
        realc, wantc = real[:2], want
        if q["form"] == "table":
            if real[0] == "ok" and real[1] is NotImplemented:
                realc = ("ni",)
            if rt[0] == "notImplemented":
                wantc = ("ni",)
        res = {"status": "ok", "agreed_error": False}
        problem = None
        if wantc[0] == "err" or realc[0] == "err":
            if wantc[0] == "err" and realc[0] == "err" and wantc[1] == realc[1]:
                res["agreed_error"] = True
            else:
                problem = ("error", f"the library {self.show(real)}, the route `{model}` evaluated on the library {self.show(want)}")
        elif wantc[0] == "ni" or realc[0] == "ni":
            if wantc != realc:
                problem = ("defer", f"the library {self.show(real)}, the model says `{model}`")
        else:
            if x0 is not None and fills >= 1 and self.backend_of(x0) in ("ob", "sy"):
                # `_replace_data(self, result)`: the SAME object, class and coordinate system kept, every coordinate read from the result
                if got is not x0:
                    problem = ("inplace", "the in-place operator does not return the object it was applied to")
                elif (type(got).__name__, self.system_of(got)) != x0_cls:
                    problem = ("inplace", "the class or the coordinate system of the object changed")
            else:
                d = self.differ(got, want[1])
                if d:
                    problem = (d[0], f"the library returns {d[1]} (route `{model}` evaluated on the library)")
            if problem is None:
                for j, o in enumerate(targets):
                    if j < fills:
                        if not self.close(self.values_of_fields(o), exp_fill[j]):
                            problem = ("out", f"the output does not hold the result after the call: {str(self.values_of_fields(o))[:80]} instead of "
                                              f"{str(exp_fill[j])[:80]} (route `{model}`)")
                    elif self.snapshot([o]) != [before[j]]:
                        problem = ("out", f"the output was modified although the route `{model}` fills nothing")
        if problem:
            key = self.classify(q, rt, realc, want, ops)
            if key and key.startswith("ok:"):
                return {"status": "ok", "agreed_error": key == "ok:awkward-matmul-gate", "note": key[3:]}
            if key:
                return {"status": "known", "key": key}
            return {"status": "bad", "key": f"{q['form']}:{q['name']}:{self.pair(kinds)}{':out' if q['outs'] else ''}:{problem[0]}", "detail": problem[1]}
        return res

    def values_of_fields(self, o):
        be = self.backend_of(o)
        if be in ("ob", "sy"):
            return [self.values_of(c) for c in self.C.stored(o)]
        return [self.numpy.asarray(o[n]).tolist() for n in o.dtype.names]

    def pair(self, kinds):
        return "-".join(k[:2] if is_vec(k) else k for k in kinds) or "none"

    def show(self, r):
        if r[0] == "err":
            return f"raises {r[1]}" + (f" ({r[2]})" if len(r) > 2 and r[2] else "")
        v = r[1]
        if v is NotImplemented:
            return "returns NotImplemented"
        try:
            return f"returns {type(v).__name__} {str(self.values_of(v))[:100]}"
        except Exception:  # noqa: BLE001
            return f"returns {type(v).__name__}"

    def blank(self, v):
        """a vector of the class and coordinate system of `v` holding zeros"""
        be = self.backend_of(v)
        if be == "np":
            o = v.copy()
            for n in o.dtype.names:
                o[n] = 0.0
            return o
        if be == "ob":
            fl = "m" if isinstance(v, self.vector.Momentum) else "g"
            return self.C.obj_vec(fl, self.C.sig_of(v), [0.0] * len(self.C.stored(v)))
        if be == "sy":
            z = self.sympy.Integer(0)
            kw = {}
            if hasattr(v, "azimuthal"):
                kw["azimuthal"] = type(v.azimuthal)(z, z)
            if hasattr(v, "longitudinal"):
                kw["longitudinal"] = type(v.longitudinal)(z)
            if hasattr(v, "temporal"):
                kw["temporal"] = type(v.temporal)(z)
            return type(v)(**kw)
        return v

    def snapshot(self, outs):
        snap = []
        for o in outs:
            be = self.backend_of(o)
            if be in ("ob", "sy", "np"):
                snap.append(repr(self.values_of_fields(o)))
            elif isinstance(o, self.numpy.ndarray):
                snap.append(repr(o.tolist()))
            else:
                snap.append("-")
        return snap

    # ------------------------------------------------------------------ the Awkward registry
    def run_keys(self, model):
        import numbers
        numpy, vector = self.numpy, self.vector
        beh = vector.backends.awkward.behavior
        want = {}
        for item in model.split(";"):
            k, rt = item.split("=>", 1)
            want[k] = rt
        have = {}
        for k, fn in beh.items():
            if isinstance(k, tuple) and isinstance(k[0], numpy.ufunc):
                els = []
                for e in k[1:]:
                    els.append(e if isinstance(e, str) else "Real" if e is numbers.Real else getattr(e, "__name__", repr(e)))
                have[{"divide": "true_divide"}.get(k[0].__name__, k[0].__name__) + ":" + ",".join(els)] = (k, fn)
        out = {"status": "ok", "agreed_error": False, "keys_model": len(want), "keys_library": len(have), "key_probes": 0, "extra": []}
        missing = sorted(set(want) - set(have))
        extra = sorted(set(have) - set(want))
        if missing:
            out["extra"].append({"status": "bad", "key": "akkeys:missing:" + missing[0].split(":")[0],
                                 "detail": f"{len(missing)} key(s) of the model's registry are not registered in vector.backends.awkward.behavior, "
                                           f"first: behavior[numpy.{missing[0].replace(':', ', ')}]"})
        if extra:
            out["extra"].append({"status": "bad", "key": "akkeys:extra:" + extra[0].split(":")[0],
                                 "detail": f"{len(extra)} registered key(s) are not in the model's registry, first: behavior[numpy.{extra[0].replace(':', ', ')}]"})
        # every registered function called directly on operands of its key
        seen = set()
        for ks in sorted(set(want) & set(have)):
            rt = parse_route(want[ks])
            _, fn = have[ks]
            ops = []
            for j, e in enumerate(ks.split(":")[1].split(",")):
                if e == "Real":
                    ops.append(SCAL["s"][j % 2])
                elif e.startswith("VectorObject"):
                    ops.append(self.build("ob" + e[-2] + "g", j, 1, 0))
                else:
                    ops.append(self.build("ak" + e[-2] + ("m" if e.startswith("Momentum") else "g"), j, 1, 0))
            w = self.expected(rt, ops)
            try:
                g = ("ok", fn(*ops))
            except Exception as e:  # noqa: BLE001
                g = ("err", type(e).__name__, str(e)[:80])
            out["key_probes"] += 1
            bad = None
            if w[0] == "err" or g[0] == "err":
                if w[:2] != g[:2]:
                    bad = f"{self.show(g)}, the model's entry `{want[ks]}` {self.show(w)}"
            else:
                d = self.differ(g[1], w[1])
                if d:
                    bad = f"returns {d[1]} (model's entry `{want[ks]}`)"
            if bad:
                kk = "akkeys:function:" + ks.split(":")[0]
                if kk not in seen:
                    seen.add(kk)
                    out["extra"].append({"status": "bad", "key": kk, "detail": f"behavior[numpy.{ks.replace(':', ', ')}] called directly {bad}"})
        return out

    # ------------------------------------------------------------------ `__array_function__` forms (not ufuncs): numpy.isclose
    def run_functions(self):
        numpy = self.numpy
        out = []
        for kind in ("ob2g", "np2g", "ak2g", "np3m", "ak4m", "ob4m"):
            v, w = self.build(kind, 0, 0, 0), self.build(kind, 1, 0, 0)
            try:
                want = ("ok", v.isclose(w))
            except Exception as e:  # noqa: BLE001
                want = ("err", type(e).__name__)
            try:
                got = ("ok", numpy.isclose(v, w))
            except Exception as e:  # noqa: BLE001
                got = ("err", type(e).__name__, str(e)[:80])
            same = want[0] == got[0] and (want[0] == "err" or self.differ(got[1], want[1]) is None)
            if same:
                out.append({"status": "ok", "agreed_error": False})
            elif kind[:2] == "ob":
                out.append({"status": "known", "key": "numpy.isclose:object"})
            elif kind[:2] == "ak":
                out.append({"status": "known", "key": "numpy.isclose:awkward"})
            else:
                out.append({"status": "bad", "key": "function:isclose:" + kind[:2], "detail": f"numpy.isclose(v, w) {self.show(got)}, v.isclose(w) {self.show(want)}"})
        return out


class _Expected(Exception):
    def __init__(self, cls):
        super().__init__(cls)
        self.cls = cls


def worker_main():
    """stdin: JSON {reqs, answers}; stdout: one line `JSON<verdicts>`"""
    sys.path.insert(0, os.path.join(VERIF, "tools"))
    w = Worker()
    d = json.loads(sys.stdin.read())
    out = []
    for q, model in zip(d["reqs"], d["answers"]):
        q = Req(q)
        try:
            out.append(w.run_one(q, model))
        except Exception as e:  # noqa: BLE001
            import traceback
            out.append({"status": "bad", "key": "harness-error:" + q["form"], "detail": f"{type(e).__name__}: {e} :: {traceback.format_exc()[-300:]}"})
    fn = w.run_functions() if d.get("functions") else []
    import vector
    sys.stdout.write("JSON" + json.dumps({"verdicts": out, "functions": fn, "vector": os.path.dirname(vector.__file__)}) + "\n")


def _stored_names(self, v):
    names = []
    for g in ("azimuthal", "longitudinal", "temporal"):
        if hasattr(v, g):
            cn = type(getattr(v, g)).__name__
            names += {"XY": ["x", "y"], "RhoPhi": ["rho", "phi"], "Z": ["z"], "Theta": ["theta"], "Eta": ["eta"], "T": ["t"], "Tau": ["tau"]}[
                next(s for s in ("RhoPhi", "XY", "Theta", "Eta", "Tau", "Z", "T") if cn.endswith(s))]
    return names


Worker.stored_names = _stored_names


# ================================================================================================ driver + comparison
def run(ctx, nproc=2):
    from harness import leanio
    reqs = requests(ctx)
    lines = [q.line() for q in reqs]
    answers = leanio.run_driver("Ufunc", lines, build=["VectorModel.Glue.Ufunc"])
    code = "import sys; sys.path.insert(0, %r); from harness import ufunc; ufunc.worker_main()" % VERIF
    chunks = [list(range(i, len(reqs), nproc)) for i in range(nproc)]
    procs = []
    for ci, idx in enumerate(chunks):
        p = subprocess.Popen([sys.executable, "-c", code], stdin=subprocess.PIPE, stdout=subprocess.PIPE, stderr=subprocess.PIPE, text=True)
        p.stdin.write(json.dumps({"reqs": [dict(reqs[i]) for i in idx], "answers": [answers[i] for i in idx], "functions": ci == 0}))
        p.stdin.close()
        procs.append(p)
    verdicts = [None] * len(reqs)
    functions, where = [], None
    for idx, p in zip(chunks, procs):
        out = p.stdout.read()
        err = p.stderr.read()
        p.wait()
        line = [l for l in out.splitlines() if l.startswith("JSON")]
        if not line:
            raise RuntimeError("ufunc worker failed: " + err[-800:])
        d = json.loads(line[0][4:])
        for i, v in zip(idx, d["verdicts"]):
            verdicts[i] = v
        functions += d["functions"]
        where = d["vector"]
    stats = {"requests": len(reqs), "by_form": {}, "accepted_routes": 0, "refusals_agreed": 0, "method_errors_agreed": 0, "deferrals": 0,
             "out_requests": 0, "operator_forms": 0, "inplace_forms": 0, "known": {}, "new_findings": {}, "notes": {}, "vector": where, "driver_invocations": 1}
    fails = {}
    for q, model, v in zip(reqs, answers, verdicts):
        stats["by_form"][q["form"]] = stats["by_form"].get(q["form"], 0) + 1
        stats["out_requests"] += bool(q["outs"])
        stats["operator_forms"] += q["form"] == "op"
        stats["inplace_forms"] += q["form"] == "op" and q["name"] in INPLACE_OPS
        head = model.split()[0] if model else ""
        if head in ("call", "identity", "value", "pow", "iftwo", "ifpytwo"):
            stats["accepted_routes"] += 1
            stats["method_errors_agreed"] += bool(v.get("agreed_error"))
        elif head == "notImplemented":
            stats["deferrals"] += 1
        else:
            stats["refusals_agreed"] += bool(v.get("agreed_error"))
        if v.get("note"):
            stats["notes"][v["note"]] = stats["notes"].get(v["note"], 0) + 1
        for extra in v.get("extra", []):
            fails.setdefault(extra["key"], []).append((0, 0, q, model, extra["detail"]))
        if q["form"] == "key":
            stats["awkward_keys_model"], stats["awkward_keys_library"], stats["awkward_key_probes"] = v.get("keys_model"), v.get("keys_library"), v.get("key_probes")
        _tally(stats, fails, v, q, model)
    for v in functions:
        stats["by_form"]["function"] = stats["by_form"].get("function", 0) + 1
        _tally(stats, fails, v, Req(form="function", name="numpy.isclose(v, w)", kinds=[], outs=[]), "v.isclose(w)")
    problems = []
    for key in sorted(fails):
        lst = sorted(fails[key], key=lambda t: t[:2])
        _, _, q, model, detail = lst[0]                           # the minimal failing call of this kind
        problems.append((key, f"{q.python()}: {detail}; driver request `{q.line()}` -> `{model[:120]}`; {len(lst)} request(s) of this kind disagree"))
    return problems, stats


def _tally(stats, fails, v, q, model):
    if v["status"] == "known":
        k = v["key"]
        if k in NEW_FINDINGS and k not in _known_keys():
            stats["new_findings"][k] = stats["new_findings"].get(k, 0) + 1
        stats["known"][k] = stats["known"].get(k, 0) + 1
    elif v["status"] == "bad":
        fails.setdefault(v["key"], []).append((len(q["kinds"]), sum(int(k[2]) for k in q["kinds"] if is_vec(k)), q, model, v.get("detail", "")))


_KNOWN = None


def _known_keys():
    global _KNOWN
    if _KNOWN is None:
        try:
            with open(os.path.join(VERIF, "known_findings.json")) as f:
                _KNOWN = {x["key"] for x in json.load(f)["findings"]}
        except Exception:  # noqa: BLE001
            _KNOWN = set()
    return _KNOWN


if __name__ == "__main__":
    import time

    class _Ctx:
        seed = int(sys.argv[1]) if len(sys.argv) > 1 else 1
        tier = sys.argv[2] if len(sys.argv) > 2 else "quick"
    t0 = time.time()
    p, s = run(_Ctx)
    for k, d in p:
        print(k, "::", d)
    print(len(p), "problems;", s, "; %.1f s" % (time.time() - t0))
