"""Differential harness for the Awkward LAYOUT model (C18, C03): model prediction vs the real Awkward backend.

The Lean driver `VectorModel/Driver/Layout.lean` answers, for a request line

    <method> <vtype 1> <layout 1> [ <vtype 2> <layout 2> | [kw:<name>] <scalar layout> ] x=<extras 1> [x=<extras 2>]

(layouts: S-expressions over `r` record, `o` vector object, `s` number, `_` missing, `[ ... ]` list), what the model
`Glue/Awkward.lean` (`arrayUnary` / `arrayBinary` / `Layout.zipWith` over `VG.call`) predicts:

    !! <ErrorKind>
    <scalar|truth|vector> <record name|-> <coordinate fields|-> | <carried extra fields|-> | <structure>

This module generates seeded random requests, builds the REAL arrays (`vector.zip` / `vector.Array` + `ak.unflatten` /
`ak.mask` / `ak.to_regular`), runs the real method in a SUBPROCESS with `vector.register_awkward()` (known finding
`ak-record-unregistered`), renders the real result in the same canonical format and compares line by line with the answers
of ONE driver invocation.

`run(ctx) -> (problems, stats)`; `problems` is a list of (key, description), empty on the unchanged library.

Leaf letters of the structure: `r` a record, `s` a number, `b` a truth value.  The real rendering adds the markers
`FIELDS-DIFFER` (the coordinate fields do not share one structure), `EXTRAS-DIFFER` (a carried field has another structure
than the coordinates), `CLASS-MISMATCH(<class>)` (the Python class does not belong to the record name), `FIELD-ORDER(...)`
(coordinates not first); none of them is ever printed by the model.

Known deviations of the library from the model that are CLASSIFIED (counted in `stats["known_deviations"]`), not hidden:
* `option-argument-passthrough` - when a scalar(-array) argument or a secondary vector operand (`boost_p4`, `boost_beta3`,
  `boost`) has missing NUMBERS / RECORDS where the first operand has none, the fields the library passes through with
  `self[name]` (stored longitudinal / temporal coordinates of `rotateZ`, `rotateX`, `scale2D`, ... and every carried extra field)
  stay non-missing while the computed coordinates are missing: the fields of the result do not share one structure (the model:
  the record is missing as a whole).  Such requests carry the flag `dev` and a second request line (the same with the missing
  numbers / records of the argument filled in); the real answer must be the model's, or have the model's header, the model's
  structure on at least one coordinate and on every other field either that or the structure of the second answer.
* `object-tau-boost-by-awkward` (known finding of C05) - an OBJECT stored with `tau` boosted by an Awkward array raises TypeError.

Domain restrictions of the generator (model and library disagree outside; see the final report of the task G_LAYOUT):
lists combined element by element always have EQUAL lengths (the model truncates to the shorter list, the library raises
`ValueError: cannot broadcast`; lists of length 1 are broadcast by the library NumPy-style, not by the model); a REGULAR
(`ak.to_regular`) operand is combined only with an operand of the same depth, a single record / object or a plain number
(regular dimensions broadcast from the RIGHT in Awkward: `2 * 2 * Vector` + `2 * Vector` pairs element j of the flat array
with column j, the model pairs element i with row i; unequal sizes raise); keyword ARRAYS of the dimension-raising conversions
(`to_Vector3D(z=array)`, ...) have the vectors' own structure and neither side has missing values (the library zips the imputed
coordinate in without broadcasting); arrays are built by `vector.zip` / `vector.Array` only (generic field names in the
layout; known finding `awkward-raw-momentum-fields`); an object as FIRST operand only with a second Awkward operand.
"""
from __future__ import annotations

import json
import os
import random
import subprocess
import sys
import time

VERIF = os.path.dirname(os.path.dirname(os.path.abspath(__file__)))

AZ = ("xy", "rhophi")
LON = ("z", "theta", "eta")
TMP = ("t", "tau")
SIGS = {2: [(a,) for a in AZ], 3: [(a, l) for a in AZ for l in LON], 4: [(a, l, t) for a in AZ for l in LON for t in TMP]}
AZNAMES = {"xy": ("x", "y"), "rhophi": ("rho", "phi")}
COORDS = ("x", "y", "rho", "phi", "z", "theta", "eta", "t", "tau")
MOMNAME = {"x": "px", "y": "py", "rho": "pt", "phi": "phi", "z": "pz", "theta": "theta", "eta": "eta", "t": "E", "tau": "mass"}
# extra field names, incl. fragments / extensions of coordinate names
EXTRA_POOL = ["charge", "n", "et", "ma", "weight", "q", "xx", "pt2x", "p_", "id", "ph", "tt"]

UN_VEC = ["unit", "to_xyz", "to_rhophieta", "to_Vector2D", "to_Vector3D", "to_Vector4D", "neg3D",
          "neg2D", "to_xy", "to_rhophi", "to_xythetatau", "to_rhophizt", "to_2D", "to_4D"]
UN_SCALAR = ["x", "rho", "phi", "eta", "mag", "y", "z", "theta", "t", "tau", "rho2", "mag2", "beta"]
UN_MOM = ["pt", "mass", "px", "energy", "Et"]            # momentum spellings: AttributeError on generic vectors
UN_TRUTH = ["is_timelike", "is_lightlike"]
SC_METHODS = ["rotateZ", "rotateZ", "rotateX", "scale", "boostX", "rotateY", "boostZ", "scale2D"]
BIN_EQUAL = ["add", "subtract", "dot", "cross", "deltaR", "deltaphi", "equal", "isclose", "not_equal", "deltaeta", "is_parallel"]
BIN_SECONDARY = ["boost_p4", "boost_beta3", "boost"]
SECONDARY = set(BIN_SECONDARY)
KW_CONV = [("to_Vector3D", ("z", "theta", "eta")), ("to_Vector4D", ("t", "tau", "z", "eta")), ("to_3D", ("z", "eta")), ("to_4D", ("tau", "t")),
           ("to_xyz", ("z",)), ("to_rhophieta", ("eta",)), ("to_xyzt", ("t", "z")), ("to_rhophithetatau", ("tau", "theta"))]


# ------------------------------------------------------------------------------------------------ trees
def sexpr(t, leaf="r"):
    if t is None:
        return "_"
    if isinstance(t, list):
        return "[" + " ".join(sexpr(c, leaf) for c in t) + "]"
    return t if leaf == "r" else leaf


def skeleton(r, d, regular=False, top=True):
    """uniform-depth tree of lists with leaves 'r'"""
    if d == 0:
        return "r"
    if regular:
        ks = {}

        def go(dd, lvl):
            if dd == 0:
                return "r"
            k = ks.setdefault(lvl, r.choice((2, 2, 3)))
            return [go(dd - 1, lvl + 1) for _ in range(k)]
        return go(d, 0)
    k = (0 if r.random() < 0.04 else r.choice((1, 2, 3, 3, 4))) if top else r.choice((0, 1, 1, 2, 2, 3))
    return [skeleton(r, d - 1, False, False) for _ in range(k)]


def cut(t, k):
    """prefix of depth k: every subtree at depth k becomes one record"""
    if k == 0:
        return "r"
    return [cut(c, k - 1) for c in t]


def sprinkle(r, t, p_list, p_rec, top=True):
    if isinstance(t, list):
        if not top and r.random() < p_list:
            return None
        return [sprinkle(r, c, p_list, p_rec, False) for c in t]
    return None if (not top and r.random() < p_rec) else t


def fill_leaves(t, d):
    """the tree of declared depth d with its missing LEAVES (level d) present; missing lists stay missing"""
    if d == 0:
        return "r" if t is None else t
    if t is None:
        return None
    return [fill_leaves(c, d - 1) for c in t]


def depth_of_max(t):
    if isinstance(t, list):
        return 1 + max([depth_of_max(c) for c in t], default=0)
    return 0


def has_none(t):
    if t is None:
        return True
    return isinstance(t, list) and any(has_none(c) for c in t)


def count_leaves(t):
    if isinstance(t, list):
        return sum(count_leaves(c) for c in t)
    return 0 if t is None else 1


def kind_of(d, p_list, p_rec, regular, tree):
    base = {0: "record", 1: "flat", 2: "jagged", 3: "nested"}[d]
    if regular:
        base += "+regular"
    hn = has_none(tree)
    if hn and p_list and p_rec:
        base += "+opt-both"
    elif hn and p_list:
        base += "+opt-list"
    elif hn and p_rec:
        base += "+opt-record"
    if d > 0 and count_leaves(tree) == 0:
        base += "+norecords"
    return base


# ------------------------------------------------------------------------------------------------ request generation
def vtype(fl, sig):
    lon = sig[1] if len(sig) > 1 else "-"
    tmp = sig[2] if len(sig) > 2 else "-"
    return f"{fl}:{sig[0]}:{lon}:{tmp}"


def option_probs(r):
    c = r.random()
    if c < 0.4:
        return 0.0, 0.0
    if c < 0.62:
        return 0.0, 0.3
    if c < 0.8:
        return 0.3, 0.0
    return 0.25, 0.25


def gen_requests(seed, tier):
    r = random.Random(f"{seed}:layout")
    n_target = 1500 if tier == "quick" else 15000
    reqs = []
    allsigs = SIGS[2] + SIGS[3] + SIGS[4]
    i = 0
    while len(reqs) < n_target:
        # every coordinate system in turn, both flavors
        sig1 = allsigs[i % len(allsigs)]
        i += 1
        dim1 = len(sig1) + 1
        fl1 = r.choice("gm")
        ex1 = r.sample(EXTRA_POOL, r.choice((0, 0, 1, 2, 3)))
        d = r.choices((0, 1, 2, 3), weights=(5, 30, 40, 25))[0]
        regular = d >= 2 and r.random() < 0.12
        skel = skeleton(r, d, regular)
        pl, pr = (0.0, r.choice((0.0, 0.3))) if regular else option_probs(r)
        form = r.choices(("unary", "scalar", "binary"), weights=(36, 29, 35))[0]
        req = {"ty1": vtype(fl1, sig1), "ex1": ex1, "dev": False, "build1": r.choice(("zip", "zip", "iter")), "vseed": r.randrange(1 << 30)}
        if form == "unary":
            t1 = sprinkle(r, skel, pl, pr)
            pool = UN_VEC + UN_SCALAR + UN_TRUTH + (UN_MOM if r.random() < 0.5 else [])
            req.update(meth=r.choice(pool), t1=t1, d1=d, reg1=regular, kind=kind_of(d, pl, pr, regular, t1), rel="unary")
        elif form == "scalar":
            t1 = sprinkle(r, skel, pl, pr)
            meth = r.choice(SC_METHODS)
            rel = r.choices(("number", "same", "deeper", "shallower"), weights=(25, 35, 25, 15))[0]
            kwconv = None
            if r.random() < 0.15:
                # dimension-raising conversions with the imputed coordinate given by keyword: a plain number or an array of the
                # vectors' own structure (a DEEPER keyword array is not broadcast by the library: excluded, see the report)
                meth, kws = r.choice(KW_CONV)
                kwconv = r.choice(kws)
                rel = r.choice(("number", "same"))
                if rel == "same":
                    # the library does not broadcast missing values between the vectors and a keyword ARRAY (the imputed coordinate
                    # keeps its own option structure): agreed domain = no missing values on either side
                    t1, pl, pr = skel, 0.0, 0.0
            ds = d
            if rel == "number" or (rel == "shallower" and d < 2):
                rel, st, ds = "number", "s", 0
            elif rel == "same":
                st = cut(skel, d)
            elif rel == "shallower":
                ds = r.randrange(1, d)
                st = cut(skel, ds)
            else:
                # the ARGUMENT is deeper: the vectors (mostly an array, sometimes a single record) are a prefix of its structure
                d = r.choices((0, 1, 2), weights=(15, 55, 30))[0]
                ds = r.randrange(d + 1, 4)
                st = skeleton(r, ds)
                t1 = sprinkle(r, cut(st, d), pl, pr)
                regular = False
            spl, spr = (0.0, 0.0)
            if ds > 0 and r.random() < 0.15 and not kwconv:
                spl, spr = r.choice(((0.0, 0.3), (0.3, 0.0), (0.25, 0.25)))
            if regular:
                spl = 0.0            # ak.to_regular needs every list present
            st = sprinkle(r, st, spl, spr) if ds > 0 else st
            if regular and rel != "number" and rel != "same":
                regular = False
            req.update(meth=meth, t1=t1, d1=d, reg1=regular, st=st, ds=ds, rel="scalar-" + rel, dev="option-argument-passthrough" if has_none(st) else False,
                       kind=kind_of(d, pl, pr, regular, t1), regs=regular and rel == "same",
                       kw=kwconv or ("beta" if meth.startswith("boost") and r.random() < 0.5 else None))
            if req["dev"]:
                req["alt"] = {"st": fill_leaves(st, ds)}
        else:
            meth = r.choice(BIN_EQUAL + BIN_SECONDARY)
            # second operand: mostly a dimension the method accepts
            if meth == "boost_beta3":
                dim2 = 3 if r.random() < 0.9 else r.choice((2, 4))
            elif meth == "boost":
                dim2 = r.choice((3, 4)) if r.random() < 0.9 else 2
            elif meth in ("boost_p4",):
                dim2 = 4 if r.random() < 0.9 else r.choice((2, 3))
            elif meth in ("deltaR", "deltaeta"):
                dim2 = r.choice((3, 4)) if r.random() < 0.85 else 2
            elif meth == "deltaphi":
                dim2 = r.choice((2, 3, 4))
            else:
                dim2 = dim1 if r.random() < 0.88 else r.choice([x for x in (2, 3, 4) if x != dim1])
            sig2 = r.choice(SIGS[dim2])
            fl2 = r.choice("gm")
            ex2 = r.sample(EXTRA_POOL, r.choice((0, 0, 1, 2)))
            rel = r.choices(("same", "diffmask", "object", "record", "shallower", "deeper"), weights=(22, 18, 12, 12, 18, 18))[0]
            pl2, pr2 = option_probs(r)
            d1, d2 = d, d
            if rel == "same":
                t1 = sprinkle(r, skel, pl, pr)
                t2 = t1
            elif rel == "diffmask":
                t1 = sprinkle(r, skel, pl, pr)
                t2 = sprinkle(r, skel, 0.0 if regular else pl2, pr2)
            elif rel == "object":
                t1, t2, d2 = sprinkle(r, skel, pl, pr), "o", 0
            elif rel == "record":
                t1, t2, d2 = sprinkle(r, skel, pl, pr), "r", 0
            elif rel == "shallower" and d >= 2:
                d2 = r.randrange(1, d)
                t1, t2 = sprinkle(r, skel, pl, pr), sprinkle(r, cut(skel, d2), pl2, pr2)
            else:
                # the FIRST operand is shallower (possibly a single record or object)
                rel = "deeper"
                if d == 0:
                    d2 = r.choice((1, 2))
                    skel2 = skeleton(r, d2)
                    t1, t2 = r.choice(("r", "r", "o")), sprinkle(r, skel2, pl2, pr2)
                else:
                    d1 = r.randrange(0, d)
                    t1 = sprinkle(r, cut(skel, d1), pl, pr) if d1 > 0 else r.choice(("r", "r", "o"))
                    t2 = sprinkle(r, skel, pl2, pr2)
            if t1 == "o":
                ex1 = []
            if t2 == "o":
                ex2 = []
            reg1 = regular and rel in ("same", "diffmask", "object", "record")
            reg2 = regular and rel in ("same", "diffmask")
            if regular and not reg1:
                regular = False
            dev = False
            if meth in SECONDARY and has_none(t2):
                dev = "option-argument-passthrough"
            if meth in SECONDARY and t1 == "o" and sig1[-1] == "tau" and t2 != "o":
                dev = "object-tau-boost-by-awkward"
            req.update(meth=meth, t1=t1, d1=d1, reg1=reg1, ty2=vtype(fl2, sig2), t2=t2, d2=d2, reg2=reg2, ex1=ex1, ex2=ex2,
                       rel="vector-" + rel, dev=dev, kind=kind_of(d1, pl, pr, reg1, t1), build2=r.choice(("zip", "zip", "iter")))
            if dev == "option-argument-passthrough":
                req["alt"] = {"t2": fill_leaves(t2, d2)}
        req["line"] = request_line(req)
        if "alt" in req:
            # the same request with the missing NUMBERS / RECORDS (not the missing lists) of the argument / secondary operand filled
            # in: the structure the library leaves on the fields it passes through (known deviation `option-argument-passthrough`;
            # `ak.zip(depth_limit=...)` in `_wrap_result` broadcasts missing lists to every field, but does not look below its depth limit)
            req["alt_line"] = request_line({**req, **req["alt"]})
        reqs.append(req)
    return reqs


def request_line(q):
    parts = [q["meth"], q["ty1"], sexpr(q["t1"])]
    if "t2" in q:
        parts += [q["ty2"], sexpr(q["t2"])]
    elif "st" in q:
        if q.get("kw"):
            parts.append("kw:" + q["kw"])
        parts.append(sexpr(q["st"], "s"))
    parts.append("x=" + ",".join(q["ex1"]))
    if "t2" in q:
        parts.append("x=" + ",".join(q["ex2"]))
    return " ".join(parts)


# ------------------------------------------------------------------------------------------------ the real side (worker)
def _levels(tree, d):
    L = [[tree]]
    for _ in range(d):
        L.append([c for node in L[-1] if node is not None for c in node])
    return L


def _unflatten_all(ak, numpy, arr, L, d, regular):
    for i in range(d - 1, 0, -1):
        nodes = L[i]
        if any(n is None for n in nodes):
            counts = ak.Array([None if n is None else len(n) for n in nodes])
        else:
            counts = numpy.array([len(n) for n in nodes], dtype=numpy.int64)
        arr = ak.unflatten(arr, counts)
    if regular:
        for ax in range(1, d):
            arr = ak.to_regular(arr, axis=ax)
    return arr


def build_vector(mods, ty, tree, d, extras, how, regular, vr):
    """the real operand: an Awkward array / ak.Record / vector object of the declared type and layout"""
    ak, numpy, vector = mods
    fl, az, lon, tmp = ty.split(":")
    names = list(AZNAMES[az]) + ([lon] if lon != "-" else []) + ([tmp] if tmp != "-" else [])
    spelled = [MOMNAME[c] if fl == "m" else c for c in names]

    def val(c):
        if c in ("t",):
            return vr.uniform(6.0, 9.0)
        if c in ("phi", "eta"):
            return vr.uniform(-1.0, 1.0)
        if c == "theta":
            return vr.uniform(0.3, 2.8)
        return vr.uniform(0.05, 0.3)
    if tree == "o":
        return vector.obj(**{s: val(c) for s, c in zip(spelled, names)})
    L = _levels(tree, d)
    leaves = L[d]
    n = len(leaves)
    if how == "iter" and d > 0 and any(x is not None for x in leaves):
        # vector.Array(python lists of dicts): from_iter layout (IndexedOptionArray, ListOffsetArray)
        def py(t):
            if t is None:
                return None
            if isinstance(t, list):
                return [py(c) for c in t]
            rec = {s: val(c) for s, c in zip(spelled, names)}
            rec.update({e: vr.uniform(-3, 3) for e in extras})
            return rec
        arr = vector.Array(py(tree))
        if regular:
            for ax in range(1, d):
                arr = ak.to_regular(arr, axis=ax)
        return arr
    cols = {s: numpy.array([val(c) for _ in range(n)], dtype=numpy.float64) for s, c in zip(spelled, names)}
    for e in extras:
        cols[e] = numpy.array([vr.uniform(-3, 3) for _ in range(n)], dtype=numpy.float64)
    arr = vector.zip(cols)
    if d == 0:
        return arr[0]
    if any(x is None for x in leaves):
        arr = ak.mask(arr, numpy.array([x is not None for x in leaves], dtype=bool))
    return _unflatten_all(ak, numpy, arr, L, d, regular)


def build_scalar(mods, tree, d, regular, vr):
    ak, numpy, vector = mods
    if d == 0:
        return vr.uniform(0.1, 0.6)
    L = _levels(tree, d)
    leaves = L[d]
    arr = ak.Array(numpy.array([vr.uniform(0.1, 0.6) for _ in leaves], dtype=numpy.float64))
    if any(x is None for x in leaves):
        arr = ak.mask(arr, numpy.array([x is not None for x in leaves], dtype=bool))
    return _unflatten_all(ak, numpy, arr, L, d, regular)


def _shape(x, leaf):
    if x is None:
        return "_"
    if isinstance(x, list):
        return "[" + " ".join(_shape(y, leaf) for y in x) + "]"
    return leaf


def _record_name(lay):
    # descend to the record level
    if lay.__class__.__name__ == "Record":
        lay = lay.array              # ak.record.Record -> its RecordArray
    for _ in range(64):
        if getattr(lay, "is_record", False):
            return lay.parameter("__record__")
        if hasattr(lay, "content"):
            lay = lay.content
        else:
            return None
    return None


PER = {}       # per-field structures of the last vector result rendered (worker side)


def render_real(mods, res):
    """the real result in the driver's canonical format"""
    ak, numpy, vector = mods
    if isinstance(res, (ak.Array, ak.Record)):
        fields = ak.fields(res)
        if fields:
            coords = [f for f in fields if f in COORDS]
            extras = [f for f in fields if f not in COORDS]
            name = _record_name(res.layout)
            head = f"vector {name} {','.join(coords) or '-'} | {','.join(extras) or '-'}"
            want_cls = None
            if isinstance(name, str) and name[:-2] in ("Vector", "Momentum"):
                want_cls = name[:-2] + ("Record" if isinstance(res, ak.Record) else "Array") + name[-2:]
            if type(res).__name__ != want_cls:
                head = f"CLASS-MISMATCH({type(res).__name__}) " + head
            if fields != coords + extras:
                head = "FIELD-ORDER(" + ",".join(fields) + ") " + head
            per = {f: _shape(ak.to_list(res[f]), "r") for f in fields}
            PER.clear()
            PER.update({"coords": [per[f] for f in coords], "extras": [per[f] for f in extras]})
            cs = {per[f] for f in coords}
            if len(cs) != 1:
                return head + " | FIELDS-DIFFER " + " ".join(f"{f}:{per[f]}" for f in coords)
            st = cs.pop()
            if any(per[f] != st for f in extras):
                return head + " | EXTRAS-DIFFER " + st + " " + " ".join(f"{f}:{per[f]}" for f in extras)
            return head + " | " + st
        lst = ak.to_list(res)
        flat = ak.to_numpy(ak.drop_none(ak.flatten(res, axis=None))) if isinstance(res, ak.Array) else None
        is_bool = flat is not None and flat.dtype == numpy.bool_
        return ("truth - - | - | " + _shape(lst, "b")) if is_bool else ("scalar - - | - | " + _shape(lst, "s"))
    if isinstance(res, (bool, numpy.bool_)):
        return "truth - - | - | b"
    if isinstance(res, (int, float, numpy.floating, numpy.integer)):
        return "scalar - - | - | s"
    if isinstance(res, numpy.ndarray) and res.shape == ():
        return ("truth" if res.dtype == numpy.bool_ else "scalar") + " - - | - | " + ("b" if res.dtype == numpy.bool_ else "s")
    return f"OTHER {type(res).__name__}"


def real_answer(mods, q):
    ak, numpy, vector = mods
    vr = random.Random(q["vseed"])
    try:
        a = build_vector(mods, q["ty1"], q["t1"], q["d1"], q["ex1"], q["build1"], q.get("reg1", False), vr)
        args, kwargs = [], {}
        if "t2" in q:
            args.append(build_vector(mods, q["ty2"], q["t2"], q["d2"], q["ex2"], q["build2"], q.get("reg2", False), vr))
        elif "st" in q:
            s = build_scalar(mods, q["st"], q["ds"], q.get("regs", False), vr)
            if q.get("kw"):
                kwargs[q["kw"]] = s
            else:
                args.append(s)
    except Exception as e:  # noqa: BLE001
        return f"BUILD-FAILED {type(e).__name__}: {str(e)[:120]}".replace("\n", " ")
    try:
        at = getattr(a, q["meth"])
        res = at(*args, **kwargs) if callable(at) else at
    except Exception as e:  # noqa: BLE001
        return "!! " + type(e).__name__ + " :: " + str(e)[:100].replace("\n", " ")
    try:
        return render_real(mods, res)
    except Exception as e:  # noqa: BLE001
        return f"RENDER-FAILED {type(e).__name__}: {str(e)[:120]}".replace("\n", " ")


def worker_main():
    """stdin: JSON list of requests; stdout: one line `JSON<...>` with the real answers"""
    import warnings
    warnings.simplefilter("ignore")
    sys.path.insert(0, os.path.join(VERIF, "tools"))
    import awkward as ak
    import numpy
    import vector
    vector.register_awkward()
    numpy.seterr(all="ignore")
    mods = (ak, numpy, vector)
    reqs = json.loads(sys.stdin.read())
    out, pers = [], []
    for q in reqs:
        PER.clear()
        out.append(real_answer(mods, q))
        pers.append(dict(PER) if q.get("dev") else None)
    sys.stdout.write("JSON" + json.dumps({"answers": out, "per": pers, "vector": os.path.dirname(vector.__file__), "awkward": ak.__version__}) + "\n")


# ------------------------------------------------------------------------------------------------ comparison
def _start_workers(reqs, nproc):
    chunks = [reqs[i::nproc] for i in range(nproc)]
    procs = []
    code = "import sys; sys.path.insert(0, %r); from harness import layout; layout.worker_main()" % VERIF
    for ch in chunks:
        p = subprocess.Popen([sys.executable, "-c", code], stdin=subprocess.PIPE, stdout=subprocess.PIPE, stderr=subprocess.PIPE, text=True)
        p.stdin.write(json.dumps(ch))
        p.stdin.close()
        procs.append(p)
    return procs


def _collect(procs, n, nproc):
    answers = [None] * n
    pers = [None] * n
    info = {}
    for k, p in enumerate(procs):
        out = p.stdout.read()
        err = p.stderr.read()
        p.wait()
        line = [l for l in out.splitlines() if l.startswith("JSON")]
        if not line:
            raise RuntimeError("layout worker failed: " + err[-600:])
        d = json.loads(line[0][4:])
        info = {"vector": d["vector"], "awkward": d["awkward"]}
        for j, a in enumerate(d["answers"]):
            answers[k + j * nproc] = a
            pers[k + j * nproc] = d["per"][j]
    return answers, pers, info


def agree(q, model, real, alt=None, per=None):
    """-> 'ok' | 'known:<class>' | None (a problem).  `alt`: the model's answer to the request with the missing numbers / records
    of the argument filled in; `per`: the structures of the real result's fields"""
    if model.startswith("!!"):
        if real.startswith("!!") and real.split(" :: ")[0] == model:
            return "ok"
        return None
    if real == model:
        return "ok"
    if q.get("dev") == "option-argument-passthrough" and model.startswith("vector "):
        head, want = model.rsplit(" | ", 1)
        if real.startswith(head + " | FIELDS-DIFFER ") or real.startswith(head + " | EXTRAS-DIFFER "):
            # classified precisely: the computed coordinates have the model's structure, every other field either that or the
            # structure it would have without the argument's missing numbers / records
            if alt is None or per is None or not alt.startswith(head + " | "):
                return None
            passed = alt.rsplit(" | ", 1)[1]
            every = per.get("coords", []) + per.get("extras", [])
            if want in per.get("coords", []) and all(x in (want, passed) for x in every):
                return "known:option-argument-passthrough"
    if q.get("dev") == "object-tau-boost-by-awkward" and real.startswith("!! TypeError :: NumpyArray 'data' must be an array"):
        return "known:object-tau-boost-by-awkward"
    return None


def run(ctx):
    from harness import leanio
    t0 = time.time()
    tier = getattr(ctx, "tier", "quick")
    reqs = gen_requests(ctx.seed, tier)
    lines = [q["line"] for q in reqs]
    alt_idx = {}
    for i, q in enumerate(reqs):
        if "alt_line" in q:
            alt_idx[i] = len(lines)
            lines.append(q["alt_line"])
    nproc = 2 if tier == "quick" else 4
    procs = _start_workers(reqs, nproc)
    try:
        model = leanio.run_driver("Layout", lines, build=["VectorModel.Props.C18Layout"])
    finally:
        real, pers, info = _collect(procs, len(reqs), nproc)
    problems = []
    stats = {"requests": len(reqs), "by_kind": {}, "by_method": {}, "by_relation": {}, "error_requests": 0, "vector_results": 0,
             "scalar_results": 0, "truth_results": 0, "max_depth": 0, "known_deviations": {}, "dev_flagged": 0, "library": info.get("vector"),
             "awkward": info.get("awkward")}
    stats["driver_lines"] = len(lines)
    for i, (q, m, a) in enumerate(zip(reqs, model, real)):
        for key, v in (("by_kind", q["kind"]), ("by_method", q["meth"]), ("by_relation", q["rel"])):
            stats[key][v] = stats[key].get(v, 0) + 1
        stats["max_depth"] = max(stats["max_depth"], q["d1"], q.get("d2", 0), q.get("ds", 0))
        stats["dev_flagged"] += bool(q.get("dev"))
        if m.startswith("!!"):
            stats["error_requests"] += 1
        else:
            k = m.split(" ", 1)[0] + "_results"
            if k in stats:
                stats[k] += 1
        verdict = agree(q, m, a, model[alt_idx[i]] if i in alt_idx else None, pers[i])
        if verdict is None:
            problems.append((f"layout:{q['meth']}:{q['rel']}:{q['kind']}", f"request `{q['line']}`: model `{m}`, library `{a}`"))
        elif verdict != "ok":
            c = verdict.split(":", 1)[1]
            stats["known_deviations"][c] = stats["known_deviations"].get(c, 0) + 1
    stats["seconds"] = round(time.time() - t0, 1)
    return problems, stats


if __name__ == "__main__":
    if "--worker" in sys.argv:
        worker_main()
    else:
        class _X:
            seed = int(sys.argv[1]) if len(sys.argv) > 1 else 1
            tier = sys.argv[2] if len(sys.argv) > 2 else "quick"
        pr, st = run(_X)
        print(json.dumps(st, indent=1))
        for k, d in pr[:40]:
            print(k, "\n   ", d)
        print(len(pr), "problems")
