"""C16 — see harness/arrays.py (c16_run) and DESIGN.md section 4/C16"""
from harness import common as C
from harness import arrays

PROPERTY = "C16"
LEAN_TARGETS = ["VectorModel.Props.C16", "VectorModel.Glue.Heap", "VectorModel.Props.C19Heap"]
THEOREM_FILES = ["VectorModel/Props/C16.lean", "VectorModel/Props/C19Heap.lean"]
NEEDS_TRANSLATOR = False
LEVEL = "other"
EXPLANATION = ("In the pure functional glue model aliasing cannot be expressed, so its theorems (operations are functions of their operands; only `step` has a "
               "state output; frame lemmas) are nearly trivial. For NumPy vector arrays the HEAP model (Glue/Heap.lean: buffers, views as index maps, copies and pickles as "
               "fresh buffers) does express it: c19h_frame / c19h_frame_write / c19h_copy_detached state for every history that non-writing operations leave every buffer "
               "and every other variable unchanged and that a write touches only the addressed rows and field of its target's buffer; that model is tied to the real arrays by "
               "random multi-variable histories compared after every step. For the rest (object, Awkward, all methods) the substance of this check is observational: every operand is snapshotted bit-for-bit "
               "(object: class, system, coordinates; NumPy: class, dtype, shape, raw bytes, writeable flag; Awkward: form, buffers, fields) before and "
               "after each call of the catalogue on every backend pairing, including calls that raise, reductions and operators.")


def correspondence(ctx):
    problems, stats, samples = arrays.c16_run(ctx)
    from harness import heap
    hp, hst = heap.run(ctx)
    problems = problems + [("heap:" + k, d) for k, d in hp]
    stats.update({"heap_" + k: v for k, v in hst.items() if isinstance(v, int)})
    seen, fails = set(), []
    for k, d in problems:
        if k in seen:
            continue
        seen.add(k)
        fails.append({"key": k, "what": d[:400], "code": replay_code(ctx.seed, ctx.tier, k)})
    stats["traces_validated_against_impl"] = sum(v for v in stats.values() if isinstance(v, int))
    return {"ok": not problems, "disagreements": [f"{k}: {d}"[:300] for k, d in problems[:12]], "failing_inputs": fails[:6],
            "stats": stats, "samples": samples}


def replay_code(seed, tier, key):
    return ("import sys; sys.path.insert(0, %r); sys.path.insert(0, %r)\nfrom harness import arrays\n"
            "class X: seed=%d; tier=%r\nproblems, _, _ = arrays.c16_run(X)\nhit=[d for k, d in problems if k==%r]\n"
            "assert not hit, hit[0]\n" % (C.VERIF, C.VERIF + "/tools", seed, tier, key))
