"""C14 — momentum names are exact synonyms of the geometric names"""
from harness import common as C
from harness._compute import sym_correspondence, symobj_replay
from harness import symobj

PROPERTY = "C14"
LEAN_TARGETS = ["VectorModel.Props.C14", "VectorModel.Glue.Fields", "VectorModel.Props.C14Fields"]
THEOREM_FILES = ["VectorModel/Props/C14.lean", "VectorModel/Props/C14Fields.lean"]
NOT_COVERED = ["SymPy backend (mirror of the object backend; not separately driven)"]
MOM = ["px", "py", "pt", "pt2", "pz", "pseudorapidity", "p", "p2", "E", "e", "energy", "E2", "e2", "energy2", "M", "m", "mass",
       "M2", "m2", "mass2", "Et", "et", "transverse_energy", "Et2", "et2", "transverse_energy2", "Mt", "mt", "transverse_mass",
       "Mt2", "mt2", "transverse_mass2", "x", "y", "rho", "rho2", "z", "eta", "mag", "mag2", "t", "t2", "tau", "tau2"]
_sym = sym_correspondence(MOM + [n for n, _, _ in symobj.to_names()], "c14")


def correspondence(ctx):
    """object backend: symbolic (getters, conversions) + setters through the C15 step protocol;
    NumPy / Awkward: field access and item assignment through every synonym, value for value"""
    out = _sym(ctx)
    r = C.rng(ctx.seed, "c14")
    # setters through every spelling, on every momentum/generic type
    pairs = []
    for fl in "gm":
        for sig in C.ALLSIGS:
            for name in symobj.SETTABLE:
                line = f"H {symobj.vtoken(fl, sig, 1)} set/{name}/s=a"
                pairs.append((line, symobj.real_step(line)))
    bad = symobj.run_histories(pairs)
    out["disagreements"] += [f"{q} : real={a[:100]} model={b[:100]}" for q, a, b in bad[:10]]
    out["failing_inputs"] += [{"key": "setter:" + q.split()[2], "what": f"`{q}`: {a[:120]} vs {b[:120]}",
                               "code": __import__("harness.c15", fromlist=["x"]).replay(q, b)} for q, a, b in bad[:3]]
    nb, nstat, nfails = array_synonyms(ctx, r)
    out["disagreements"] += nb
    out["failing_inputs"] += nfails
    ab, astat, afails = alias_values(ctx, r)
    out["disagreements"] += ab
    out["failing_inputs"] += afails
    nstat["array_synonym_checks"] += astat.pop("alias_value_checks")
    nstat.update(astat)
    rb, rn = raw_awkward_spellings("all" if ctx.tier == "thorough" else "nochain")     # the chains run in C04 in every tier
    out["disagreements"] += rb[:6]
    out["failing_inputs"] += [{"key": "awkward-raw-spelling:" + d.split(":")[0], "what": d[:300], "code": RAW_REPLAY} for d in rb[:3]]
    nstat["raw_awkward_spelling_reads"] = rn
    nstat["array_synonym_checks"] += rn
    out["stats"]["setter_steps"] = len(pairs)
    out["stats"].update(nstat)
    out["stats"]["traces_validated_against_impl"] += len(pairs) + nstat["array_synonym_checks"]
    # the FIELD-LOOKUP model (Glue/Fields via Driver/Fields): which fields of an Awkward record are its coordinates - interpreter chains, numba
    # typing and lowering - on every single-spelling record, shuffled orders, extras, doubled spellings, missing coordinates
    from harness import fields as _fields
    fp, fst = _fields.run(ctx)
    fseen = set()
    for k_, d_ in fp:
        if k_ in fseen:
            continue
        fseen.add(k_)
        out["disagreements"].append(f"fields: {k_}: {d_}"[:300])
        out["failing_inputs"].append({"key": "fields:" + str(k_), "what": str(d_)[:400], "code": (
            "import sys; sys.path.insert(0, %r); sys.path.insert(0, %r)\nfrom harness import fields\nclass X: seed=%d; tier=%r\n"
            "problems, _ = fields.run(X)\nassert not problems, problems[0]\n" % (C.VERIF, C.VERIF + "/tools", ctx.seed, ctx.tier))})
    out["stats"].update({"field_lookup_" + k_: (sorted(v_) if isinstance(v_, set) else v_) for k_, v_ in fst.items() if isinstance(v_, (int, float, str, set)) or v_ is None})
    out["stats"]["traces_validated_against_impl"] += fst.get("requests", 0)
    out["ok"] = not out["disagreements"]
    return out


SYN = {"x": ["px"], "y": ["py"], "rho": ["pt"], "z": ["pz"], "t": ["E", "e", "energy"], "tau": ["M", "m", "mass"]}


def array_synonyms(ctx, r):
    """NumPy and Awkward momentum arrays: every synonym of a stored coordinate reads the stored column; item assignment through a
    synonym writes the same column; constructing through a synonym gives the same array"""
    import numpy
    import awkward as ak
    import vector
    dis, fails, n = [], [], 0
    for sig in C.ALLSIGS:
        rows = [C.cart_to_stored(sig, p) for p in C.strata_points(len(sig) + 1, r, n_random=1)[:3]]
        names = C.signames(sig)
        na, aa = C.np_array("m", sig, rows), C.ak_array("m", sig, rows)
        for j, g in enumerate(names):
            col = [row[j] for row in rows]
            for syn in [g] + SYN.get(g, []):
                n += 2
                try:
                    got = numpy.asarray(na[syn]).tolist()
                except Exception as e:  # noqa: BLE001
                    got = type(e).__name__
                if got != col:
                    dis.append(f"numpy momentum array {sig}[{syn!r}] = {got} but stored {g} column is {col}")
                    fails.append({"key": f"numpy-getitem:{syn}", "what": dis[-1][:300], "code": None})
                try:
                    got = ak.to_list(getattr(aa, syn))
                except Exception as e:  # noqa: BLE001
                    got = type(e).__name__
                if got != col:
                    dis.append(f"awkward momentum array {sig}.{syn} = {got} but stored {g} column is {col}")
                    fails.append({"key": f"awkward-getattr:{syn}", "what": dis[-1][:300], "code": None})
                # item assignment through the synonym (NumPy)
                n += 1
                try:
                    nb_ = C.np_array("m", sig, rows)
                    nb_[syn] = numpy.array([7.0, 8.0, 9.0])
                    got = numpy.asarray(nb_[g]).tolist()
                except Exception as e:  # noqa: BLE001
                    got = type(e).__name__
                if got != [7.0, 8.0, 9.0]:
                    dis.append(f"numpy momentum array {sig}: assigning [{syn!r}] then reading [{g!r}] gives {got}")
                    fails.append({"key": f"numpy-setitem:{syn}", "what": dis[-1][:300], "code": None})
    # CONSTRUCTING through a synonym: vector.obj / vector.array / vector.zip / vector.Array given a momentum spelling of one coordinate
    # hold, value for value, what the same call with the geometric name holds (plus the momentum flavor)
    READ = ["x", "y", "rho", "phi", "z", "theta", "eta", "t", "tau", "mag", "t2", "tau2"]
    for sig in C.ALLSIGS:
        names = list(C.signames(sig))
        row = C.cart_to_stored(sig, C.strata_points(len(sig) + 1, r, n_random=1)[0])
        for j, g in enumerate(names):
            for syn in SYN.get(g, []):
                spelled = [syn if i == j else nm for i, nm in enumerate(names)]
                ctors = {"vector.obj": lambda nms: vector.obj(**dict(zip(nms, row))),
                         "vector.array": lambda nms: vector.array({nm: numpy.array([v, v]) for nm, v in zip(nms, row)}),
                         "vector.zip": lambda nms: vector.zip({nm: numpy.array([v, v]) for nm, v in zip(nms, row)}),
                         "vector.Array": lambda nms: vector.Array([dict(zip(nms, row)), dict(zip(nms, row))])}
                for cname, mk in ctors.items():
                    n += 1
                    try:
                        a_, b_ = mk(spelled), mk(names)
                        bad_ = []
                        for rd in READ:
                            if not hasattr(b_, rd):
                                continue
                            va, vb = getattr(a_, rd), getattr(b_, rd)
                            va = va if cname == "vector.obj" else (ak.to_list(va) if cname in ("vector.zip", "vector.Array") else numpy.asarray(va).tolist())
                            vb = vb if cname == "vector.obj" else (ak.to_list(vb) if cname in ("vector.zip", "vector.Array") else numpy.asarray(vb).tolist())
                            if repr(va) != repr(vb):
                                bad_.append((rd, va, vb))
                        if not isinstance(a_, vector.Momentum):
                            bad_.append(("flavor", type(a_).__name__, "a momentum class"))
                        why = str(bad_[:2])
                    except Exception as e:  # noqa: BLE001
                        bad_, why = [1], f"{type(e).__name__}: {str(e)[:80]}"
                    if bad_:
                        dis.append(f"{cname} with {spelled} differs from {cname} with {names}: {why}"[:300])
                        fails.append({"key": f"ctor-synonym:{cname}:{syn}", "what": dis[-1], "code": (
                            "import numpy, awkward as ak, vector\nrow = %r\nspelled, names = %r, %r\n"
                            "mk = {'vector.obj': lambda n: vector.obj(**dict(zip(n, row))), 'vector.array': lambda n: vector.array({k: numpy.array([v, v]) for k, v in zip(n, row)}),\n"
                            "      'vector.zip': lambda n: vector.zip({k: numpy.array([v, v]) for k, v in zip(n, row)}), 'vector.Array': lambda n: vector.Array([dict(zip(n, row))] * 2)}[%r]\n"
                            "a, b = mk(spelled), mk(names)\nassert isinstance(a, vector.Momentum), type(a).__name__\n"
                            "for rd in ('x', 'y', 'rho', 'phi', 'z', 'theta', 'eta', 't', 'tau', 'mag'):\n"
                            "    if hasattr(b, rd):\n        va, vb = getattr(a, rd), getattr(b, rd)\n"
                            "        va = va.tolist() if hasattr(va, 'tolist') else va; vb = vb.tolist() if hasattr(vb, 'tolist') else vb\n"
                            "        assert repr(va) == repr(vb), (rd, va, vb)\n" % ([float(x) for x in row], spelled, names, cname))})
    return dis[:10], {"array_synonym_checks": n}, fails[:3]


ALIAS = {"px": "x", "py": "y", "pt": "rho", "pt2": "rho2", "pz": "z", "p": "mag", "p2": "mag2", "pseudorapidity": "eta", "E": "t", "e": "t", "energy": "t",
         "E2": "t2", "e2": "t2", "energy2": "t2", "M": "tau", "m": "tau", "mass": "tau", "M2": "tau2", "m2": "tau2", "mass2": "tau2",
         "et": "Et", "transverse_energy": "Et", "et2": "Et2", "transverse_energy2": "Et2", "mt": "Mt", "transverse_mass": "Mt",
         "mt2": "Mt2", "transverse_mass2": "Mt2"}


def alias_values(ctx, r):
    """every derived momentum name returns EXACTLY what its geometric name returns: as attributes of NumPy and Awkward momentum arrays
    (all elements), and inside numba-compiled code for every alias numba's typing context resolves"""
    import numpy
    import awkward as ak
    dis, fails, n = [], [], 0
    sigs = C.ALLSIGS          # every stored system in every tier
    for sig in sigs:
        rows = [C.cart_to_stored(sig, p) for p in C.strata_points(len(sig) + 1, r, n_random=2)[:5]]
        for tag, arr in (("numpy", C.np_array("m", sig, rows)), ("awkward", C.ak_array("m", sig, rows))):
            for syn, geo in ALIAS.items():
                if not hasattr(arr, geo):
                    continue
                n += 1
                try:
                    a, b = numpy.asarray(ak.to_numpy(getattr(arr, syn)) if tag == "awkward" else getattr(arr, syn)), \
                        numpy.asarray(ak.to_numpy(getattr(arr, geo)) if tag == "awkward" else getattr(arr, geo))
                    same = a.shape == b.shape and bool(numpy.all((a == b) | (numpy.isnan(a) & numpy.isnan(b))))
                    why = f"{a.tolist()} vs {b.tolist()}"
                except Exception as e:  # noqa: BLE001
                    same, why = False, f"{type(e).__name__}: {str(e)[:60]}"
                if not same:
                    dis.append(f"{tag} momentum array {sig}: .{syn} differs from .{geo}: {why}"[:300])
                    fails.append({"key": f"{tag}-alias:{syn}", "what": dis[-1], "code": None})
    # the flavor never changes a number: operators / ufuncs / properties of a momentum array equal those of the generic array with the
    # same stored coordinates (NumPy and Awkward)
    for sig in sigs:
        rows = [C.cart_to_stored(sig, p) for p in C.strata_points(len(sig) + 1, r, n_random=2)[:5]]
        for tag, mk in (("numpy", C.np_array), ("awkward", C.ak_array)):
            ma, ga = mk("m", sig, rows), mk("g", sig, rows)
            forms = {"abs(v)": lambda v: abs(v), "v ** 2": lambda v: v ** 2, "v ** 3": lambda v: v ** 3, "v ** 0.5": lambda v: v ** 0.5,
                     "numpy.sqrt(v)": lambda v: numpy.sqrt(v), "numpy.cbrt(v)": lambda v: numpy.cbrt(v), "numpy.power(v, -1)": lambda v: numpy.power(v, -1.0),
                     "v.dot(v)": lambda v: v.dot(v), "(v * 2.5).rho": lambda v: (v * 2.5).rho, "(v + v).phi": lambda v: (v + v).phi,
                     "v.unit().rho": lambda v: v.unit().rho, "v.rotateZ(0.3).x": lambda v: v.rotateZ(0.3).x}
            for fname, f_ in forms.items():
                n += 1
                try:
                    a = numpy.asarray(ak.to_numpy(f_(ma)) if tag == "awkward" else f_(ma))
                    b = numpy.asarray(ak.to_numpy(f_(ga)) if tag == "awkward" else f_(ga))
                    same = a.shape == b.shape and bool(numpy.all((a == b) | (numpy.isnan(a) & numpy.isnan(b))))
                    why = f"{a.tolist()[:3]} vs {b.tolist()[:3]}"
                except Exception as e:  # noqa: BLE001
                    same, why = False, f"{type(e).__name__}: {str(e)[:60]}"
                if not same:
                    dis.append(f"{tag} {sig}: {fname} of the momentum array differs from the generic array with the same coordinates: {why}"[:300])
                    fails.append({"key": f"{tag}-flavor:{fname}", "what": dis[-1], "code": None})
    # numba: one compiled function per momentum dimension returning (alias, geometric) pairs
    from harness import c07, symobj
    import multiprocessing as mp
    jobs = []
    for d in (2, 3, 4):
        tok = symobj.vtoken("m", r.choice(C.SIGS[d]), 1)
        names = {nm for nm, e in c07.api_expressions(tok)[0] if e == f"v.{nm}"}
        pairs = [(s_, g) for s_, g in ALIAS.items() if s_ in names and g in names]
        if pairs:
            jobs.append((f"def f(v):\n    return ({', '.join(f'v.{s_}, v.{g}' for s_, g in pairs)},)\n", [tok], pairs))
    with mp.get_context("spawn").Pool(3) as pool:
        res = pool.map(c07.probe_worker, [(j[0], j[1]) for j in jobs])
    for (src, toks, pairs), (_, _, interp, comp) in zip(jobs, res):
        n += len(pairs)
        if comp and comp[0] == "raises":
            dis.append(f"numba: reading the momentum aliases of {toks[0]} does not compile: {comp}")
            fails.append({"key": "numba-alias:compile", "what": dis[-1], "code": c07.probe_replay(src, toks)})
            continue
        for k, (s_, g) in enumerate(pairs):
            a, b = comp[2 * k], comp[2 * k + 1]
            if not c07.same(a, b) or not c07.same(a, interp[2 * k]):
                dis.append(f"numba-compiled {toks[0]}: .{s_} = {a} but .{g} = {b} (interpreter .{s_} = {interp[2 * k]})")
                fails.append({"key": f"numba-alias:{s_}", "what": dis[-1][:300], "code": c07.probe_replay(src, toks)})
    return dis[:10], {"alias_value_checks": n, "numba_alias_programs": len(jobs)}, fails[:4]


RAW_SPELL_CODE = r"""
import sys, json, itertools
sys.path.insert(0, %r); sys.path.insert(0, %r)
import numpy, awkward as ak, vector
vector.register_awkward()
MODE = %r
READ = [] if MODE in ("ops", "chain", "assign") else ["x", "y", "rho", "phi", "z", "theta", "eta", "t", "tau", "px", "py", "pt", "pz", "E", "e", "energy", "M", "m", "mass", "mag", "p", "Et", "Mt", "tau2", "mass2", "t2", "energy2"]
SYN = {"x": ["px"], "y": ["py"], "rho": ["pt"], "z": ["pz"], "t": ["E", "e", "energy"], "tau": ["M", "m", "mass"]}
vals = {"x": [3.0, -1.5, 0.25], "y": [4.0, 2.0, -0.5], "rho": [5.0, 2.5, 0.75], "phi": [0.3, -2.0, 1.1], "z": [1.0, -2.0, 0.5], "theta": [0.4, 2.0, 1.3],
        "eta": [0.5, -1.2, 2.0], "t": [20.0, 11.0, 7.5], "tau": [4.0, 0.25, 1.5]}
bad, n = [], 0
for az in (("x", "y"), ("rho", "phi")):
    for lon in (None, "z", "theta", "eta"):
        for tmp in ((None,) if lon is None else (None, "t", "tau")):
            geo = list(az) + ([lon] if lon else []) + ([tmp] if tmp else [])
            dim = len(geo)
            ref = ak.zip({g: vals[g] for g in geo}, with_name=f"Momentum{dim}D")
            combos = [(syn, [syn if q == g else q for q in geo]) for g in geo for syn in SYN.get(g, [])]
            for i_ in range(3):          # every coordinate momentum-spelled at once: (px, py, pz, E), (pt, phi, eta, mass), ...
                nm_ = [SYN[q][i_ %% len(SYN[q])] if q in SYN else q for q in geo]
                if sum(a_ != b_ for a_, b_ in zip(nm_, geo)) >= 2 and all(nm_ != c_[1] for c_ in combos):
                    combos.append((nm_[0], nm_))
            for syn, names in combos:
                for _once in (0,):
                    arr = ak.zip({nm: vals[q] for nm, q in zip(names, geo)}, with_name=f"Momentum{dim}D")
                    jag = ak.unflatten(arr, [2, 0, 1])
                    for rd in READ:
                        if not hasattr(ref, rd):
                            continue
                        n += 1
                        try:
                            want = ak.to_list(getattr(ref, rd))
                            got = ak.to_list(getattr(arr, rd))
                            gotj = ak.to_list(ak.flatten(getattr(jag, rd)))
                            gotr = getattr(arr[1], rd)
                        except Exception as e:
                            bad.append(f"{syn}: Momentum{dim}D with fields {names}: reading .{rd} raises {type(e).__name__}: {str(e)[:60]}")
                            continue
                        if got != want or gotj != want or float(gotr) != float(want[1]):
                            bad.append(f"{syn}: Momentum{dim}D array with raw fields {names}: .{rd} = {got} (record: {float(gotr)}), with geometric fields {geo} it is {want}")
                    # two-step: a single-vector operation on the raw-spelled array, then read the RESULT (no stale raw-spelled field may survive
                    # next to the fresh coordinates, and every reader must give the fresh value)
                    OPS = [("v * 3", lambda v: v * 3), ("3 * v", lambda v: 3 * v), ("-v", lambda v: -v), ("v / 4", lambda v: v / 4), ("v.scale(-1.5)", lambda v: v.scale(-1.5)),
                           ("v.unit()", lambda v: v.unit()), ("v.rotateZ(0.3)", lambda v: v.rotateZ(0.3)), ("v + v", lambda v: v + v), ("v.to_xy()", lambda v: v.to_xy()),
                           ("v.to_rhophi()", lambda v: v.to_rhophi())]
                    if dim >= 3:
                        OPS += [("v.rotateX(0.2)", lambda v: v.rotateX(0.2)), ("v.to_rhophiz()", lambda v: v.to_rhophiz()), ("v.to_xyeta()", lambda v: v.to_xyeta())]
                    if dim == 4:
                        OPS += [("v.boostX(0.3)", lambda v: v.boostX(0.3)), ("v.to_xyzt()", lambda v: v.to_xyzt()), ("v.to_rhophietatau()", lambda v: v.to_rhophietatau()),
                                ("v.to_beta3()", lambda v: v.to_beta3())]
                    if MODE in ("chain", "assign"):
                        OPS = []
                    if MODE == "ops":
                        OPS = [o for o in OPS if not o[0].startswith(("v.to_", "v.rotate", "v.boost"))]
                    elif syn not in ("px", "py", "pt", "pz", "E", "mass", "m"):
                        OPS = OPS[:3]
                    for oname, op in OPS:
                        try:
                            rr, ra = op(ref), op(arr)
                        except Exception as e:
                            bad.append(f"{syn}: {oname} on Momentum{dim}D with raw fields {names} raises {type(e).__name__}: {str(e)[:60]}")
                            continue
                        dr = 2 if isinstance(rr, vector.Vector2D) else 3 if isinstance(rr, vector.Vector3D) else 4
                        da = 2 if isinstance(ra, vector.Vector2D) else 3 if isinstance(ra, vector.Vector3D) else 4 if isinstance(ra, vector.Vector4D) else 0
                        if da != dr:
                            bad.append(f"{syn}: {oname} on a Momentum{dim}D array with raw fields {names} is {da}D; with geometric fields {geo} it is {dr}D")
                            continue
                        for rd in ["x", "y", "phi", "pt"] + (["z", "mag"] if dr >= 3 else []) + (["t", "mass"] if dr == 4 else []):
                            n += 1
                            try:
                                want = ak.to_list(getattr(rr, rd))
                                got = ak.to_list(getattr(ra, rd))
                            except Exception as e:
                                bad.append(f"{syn}: ({oname}).{rd} on Momentum{dim}D with raw fields {names} raises {type(e).__name__}: {str(e)[:60]}")
                                continue
                            if any((a_ != b_ and (abs(a_ - b_) > 1e-12 * max(1.0, abs(b_)) or abs(a_) == float("inf") or abs(b_) == float("inf"))) for a_, b_ in zip(got, want)):
                                bad.append(f"{syn}: ({oname}).{rd} on a Momentum{dim}D array with raw fields {names} = {got}; with geometric fields {geo} it is {want}")
                    # three-step: two chained operations (one that changes values or drops a dimension, then a conversion / re-embedding with a
                    # keyword), then read: nothing stale may win over the fresh coordinate or the keyword value
                    if MODE in ("all", "chain", "nochain") and syn in ("px", "pz", "E", "mass") + (() if MODE == "nochain" else ()) or MODE == "nochain" and syn in ("e", "energy", "M", "m", "pt", "py"):
                        P1 = [("v * 3", lambda v: v * 3), ("v.scale(-1.5)", lambda v: v.scale(-1.5)), ("v.rotateZ(0.3)", lambda v: v.rotateZ(0.3))]
                        if dim == 4:
                            P1 += [("v.boostX(0.3)", lambda v: v.boostX(0.3)), ("v.to_Vector3D()", lambda v: v.to_Vector3D()), ("v.to_xyzt()", lambda v: v.to_xyzt())]
                        if dim >= 3:
                            P1 += [("v.to_Vector2D()", lambda v: v.to_Vector2D())]
                        if MODE == "nochain":        # C14's quick tier: a LIGHT version of the chains (the full ones run in C04 and in C14's thorough tier)
                            P1 = [P1[0]] + ([P1[3]] if dim == 4 else [])
                        P2 = [("to_Vector4D(mass=0.5)", lambda v: v.to_Vector4D(mass=0.5)), ("to_Vector4D(tau=0.25)", lambda v: v.to_Vector4D(tau=0.25)),
                              ("to_Vector4D(E=30.0)", lambda v: v.to_Vector4D(E=30.0)), ("to_Vector4D(t=31.0)", lambda v: v.to_Vector4D(t=31.0)),
                              ("to_Vector3D(pz=0.75)", lambda v: v.to_Vector3D(pz=0.75)), ("to_Vector3D(eta=0.3)", lambda v: v.to_Vector3D(eta=0.3)),
                              ("to_ptphietamass()", lambda v: v.to_ptphietamass()), ("to_pxpypzmass()", lambda v: v.to_pxpypzmass()),
                              ("to_pxpypzenergy()", lambda v: v.to_pxpypzenergy()), ("to_rhophietatau()", lambda v: v.to_rhophietatau()), ("to_xyzt()", lambda v: v.to_xyzt()),
                              ("to_ptphietamass(mass=0.5)", lambda v: v.to_ptphietamass(mass=0.5)), ("to_pxpypzenergy(energy=30.0)", lambda v: v.to_pxpypzenergy(energy=30.0))]
                        if MODE == "nochain":
                            P2 = [p_ for p_ in P2 if p_[0] in ("to_ptphietamass()", "to_rhophietatau()", "to_xyzt()", "to_pxpypzenergy()", "to_Vector4D(mass=0.5)")]
                        for o1, f1 in P1:
                            try:
                                r1, a1 = f1(ref), f1(arr)
                            except Exception:
                                continue
                            d1r = 2 if isinstance(r1, vector.Vector2D) else 3 if isinstance(r1, vector.Vector3D) else 4
                            d1a = 2 if isinstance(a1, vector.Vector2D) else 3 if isinstance(a1, vector.Vector3D) else 4 if isinstance(a1, vector.Vector4D) else 0
                            if d1a != d1r:
                                bad.append(f"{syn}: {o1} on a Momentum{dim}D array with raw fields {names} is {d1a}D; with geometric fields {geo} it is {d1r}D")
                                continue
                            for o2, f2 in P2:
                                try:
                                    rr = f2(r1)
                                except Exception:
                                    continue        # not applicable to this dimension / keyword on the reference: not part of the probe
                                try:
                                    ra = f2(a1)
                                except Exception as e:
                                    bad.append(f"{syn}: {o1} then {o2} on Momentum{dim}D with raw fields {names} raises {type(e).__name__}: {str(e)[:60]} (works with geometric fields)")
                                    continue
                                dr = 2 if isinstance(rr, vector.Vector2D) else 3 if isinstance(rr, vector.Vector3D) else 4
                                da = 2 if isinstance(ra, vector.Vector2D) else 3 if isinstance(ra, vector.Vector3D) else 4 if isinstance(ra, vector.Vector4D) else 0
                                if da != dr:
                                    bad.append(f"{syn}: ({o1} then {o2}) on a Momentum{dim}D array with raw fields {names} is {da}D; with geometric fields {geo} it is {dr}D")
                                    continue
                                for rd in ["x", "y"] + (["z"] if dr >= 3 else []) + (["t", "tau", "E", "mass"] if dr == 4 else []):
                                    n += 1
                                    try:
                                        want = ak.to_list(getattr(rr, rd))
                                        got = ak.to_list(getattr(ra, rd))
                                    except Exception as e:
                                        bad.append(f"{syn}: ({o1} then {o2}).{rd} on Momentum{dim}D with raw fields {names} raises {type(e).__name__}")
                                        continue
                                    if any((a_ != b_ and (abs(a_ - b_) > 1e-12 * max(1.0, abs(b_)) or abs(a_) == float("inf") or abs(b_) == float("inf"))) for a_, b_ in zip(got, want)):
                                        bad.append(f"{syn}: ({o1} then {o2}).{rd} on a Momentum{dim}D array with raw fields {names} = {got}; with geometric fields {geo} it is {want}")
# item ASSIGNMENT on Awkward vector arrays (arr[name] = values replaces a field of the same array object): after every reader has been
# used once (anything cached is warm), a field is assigned; every reader must then agree with a FRESH array built from the new columns
if MODE in ("all", "nochain", "assign"):
    ALLREAD = ["x", "y", "rho", "phi", "z", "theta", "eta", "t", "tau", "px", "py", "pt", "pz", "E", "e", "energy", "M", "m", "mass", "mag", "p", "Et", "Mt", "tau2", "mass2", "t2",
               "energy2", "rapidity", "beta", "gamma", "costheta"]
    base = {"x": [3.0, -1.5, 0.25], "y": [4.0, 2.0, -0.5], "rho": [5.0, 2.5, 0.75], "phi": [0.3, -2.0, 1.1], "z": [1.0, -2.0, 0.5], "theta": [0.4, 2.0, 1.3],
            "eta": [0.5, -1.2, 2.0], "t": [20.0, 11.0, 7.5], "tau": [4.0, 0.25, 1.5]}
    GEN = {"px": "x", "py": "y", "pt": "rho", "pz": "z", "E": "t", "e": "t", "energy": "t", "M": "tau", "m": "tau", "mass": "tau"}
    specs = [(["px", "py", "pz", "E"], "Momentum4D"), (["pt", "phi", "eta", "mass"], "Momentum4D"), (["x", "y", "z", "t"], "Vector4D"), (["rho", "phi", "theta", "tau"], "Vector4D"),
             (["x", "y", "theta", "energy"], "Momentum4D"), (["px", "py", "pz"], "Momentum3D"), (["rho", "phi", "eta"], "Vector3D"), (["pt", "phi"], "Momentum2D"), (["x", "y"], "Vector2D")]
    for names, rname in specs:
        cols = {nm: list(base[GEN.get(nm, nm)]) for nm in names}
        for how in ("ak.zip", "vector.zip"):
            for f in names:
                arr = ak.zip(cols, with_name=rname) if how == "ak.zip" else vector.zip(cols)
                fld = f if f in ak.fields(arr) else GEN.get(f, f)        # vector.zip renames momentum spellings to the geometric names
                for rd in ALLREAD:                                       # warm-up: every reader once
                    try:
                        getattr(arr, rd)
                    except Exception:
                        pass
                newv = [1.5 * v + 0.25 for v in cols[f]]
                try:
                    arr[fld] = newv
                except Exception as e:
                    bad.append(f"assign: {how} {rname}{names}: arr[{fld!r}] = ... raises {type(e).__name__}: {str(e)[:60]}")
                    continue
                fresh_cols = dict(cols)
                fresh_cols[f] = newv
                fresh = ak.zip(fresh_cols, with_name=rname) if how == "ak.zip" else vector.zip(fresh_cols)
                for rd in ALLREAD:
                    if not hasattr(fresh, rd):
                        continue
                    n += 1
                    try:
                        want = ak.to_list(getattr(fresh, rd))
                        got = ak.to_list(getattr(arr, rd))
                    except Exception as e:
                        bad.append(f"assign: {how} {rname}{names} after arr[{fld!r}] = ...: reading .{rd} raises {type(e).__name__}: {str(e)[:60]}")
                        continue
                    if any((a_ != a_) != (b_ != b_) or (a_ == a_ and (a_ != b_ and (abs(a_ - b_) > 1e-12 * max(1.0, abs(b_)) or abs(a_) == float("inf") or abs(b_) == float("inf")))) for a_, b_ in zip(got, want)):
                        bad.append(f"assign: {how} {rname}{names}: after reading every property once and then arr[{fld!r}] = {newv}, .{rd} = {got}; a fresh array with the new column gives {want}")
print("JSON" + json.dumps([bad, n]))
"""
RAW_REPLAY = ("import sys; sys.path.insert(0, %r); sys.path.insert(0, %r)\nfrom harness import c14\nbad, n = c14.raw_awkward_spellings()\nassert not bad, bad[0]\n"
              % (C.VERIF, C.VERIF + "/tools"))


def raw_awkward_spellings(mode="all"):
    """Awkward momentum arrays whose RECORDS carry the momentum spelling as the field name (ak.zip(..., with_name='Momentum4D') under
    registered behaviors - vector.zip would rename the field): every reader gives what the geometric spelling gives, on flat and jagged
    arrays and on a selected record, for every spelling of every coordinate (px py pt pz E e energy M m mass)"""
    import json
    import subprocess
    import sys
    p = subprocess.run([sys.executable, "-c", RAW_SPELL_CODE % (C.VERIF, C.VERIF + "/tools", mode)], capture_output=True, text=True, timeout=900)
    line = [l for l in p.stdout.splitlines() if l.startswith("JSON")]
    if not line:
        raise RuntimeError("raw awkward spelling probe failed: " + p.stderr[-400:])
    bad, n = json.loads(line[0][4:])
    return bad, n
