"""C14 — momentum names are exact synonyms of the geometric names"""
from harness import common as C
from harness._compute import sym_correspondence, symobj_replay
from harness import symobj

PROPERTY = "C14"
LEAN_TARGETS = ["VectorModel.Props.C14"]
THEOREM_FILES = ["VectorModel/Props/C14.lean"]
NOT_COVERED = ["SymPy backend (mirror of the object backend; not separately driven)"]
MOM = ["px", "py", "pt", "pt2", "pz", "pseudorapidity", "p", "p2", "E", "e", "energy", "E2", "e2", "energy2", "M", "m", "mass",
       "M2", "m2", "mass2", "Et", "et", "transverse_energy", "Et2", "et2", "transverse_energy2", "Mt", "mt", "transverse_mass",
       "Mt2", "mt2", "transverse_mass2", "x", "y", "rho", "rho2", "z", "eta", "mag", "mag2", "t", "t2", "tau", "tau2"]
_sym = sym_correspondence(MOM + [n for n, _, _ in symobj.to_names()], "c14")


def correspondence(ctx):
    """object backend: symbolic (getters, conversions) + setters through the C15 step protocol;
    NumPy / Awkward: field access and item assignment through every synonym, value for value"""
    out = _sym(ctx)
    r = C.rng(ctx.seed, "c14")
    # setters through every spelling, on every momentum/generic type
    pairs = []
    for fl in "gm":
        for sig in C.ALLSIGS:
            for name in symobj.SETTABLE:
                line = f"H {symobj.vtoken(fl, sig, 1)} set/{name}/s=a"
                pairs.append((line, symobj.real_step(line)))
    bad = symobj.run_histories(pairs)
    out["disagreements"] += [f"{q} : real={a[:100]} model={b[:100]}" for q, a, b in bad[:10]]
    out["failing_inputs"] += [{"key": "setter:" + q.split()[2], "what": f"`{q}`: {a[:120]} vs {b[:120]}",
                               "code": __import__("harness.c15", fromlist=["x"]).replay(q, b)} for q, a, b in bad[:3]]
    nb, nstat, nfails = array_synonyms(ctx, r)
    out["disagreements"] += nb
    out["failing_inputs"] += nfails
    out["stats"]["setter_steps"] = len(pairs)
    out["stats"].update(nstat)
    out["stats"]["traces_validated_against_impl"] += len(pairs) + nstat["array_synonym_checks"]
    out["ok"] = not out["disagreements"]
    return out


SYN = {"x": ["px"], "y": ["py"], "rho": ["pt"], "z": ["pz"], "t": ["E", "e", "energy"], "tau": ["M", "m", "mass"]}


def array_synonyms(ctx, r):
    """NumPy and Awkward momentum arrays: every synonym of a stored coordinate reads the stored column; item assignment through a
    synonym writes the same column; constructing through a synonym gives the same array"""
    import numpy
    import awkward as ak
    import vector
    dis, fails, n = [], [], 0
    for sig in C.ALLSIGS:
        rows = [C.cart_to_stored(sig, p) for p in C.strata_points(len(sig) + 1, r, n_random=1)[:3]]
        names = C.signames(sig)
        na, aa = C.np_array("m", sig, rows), C.ak_array("m", sig, rows)
        for j, g in enumerate(names):
            col = [row[j] for row in rows]
            for syn in [g] + SYN.get(g, []):
                n += 2
                try:
                    got = numpy.asarray(na[syn]).tolist()
                except Exception as e:  # noqa: BLE001
                    got = type(e).__name__
                if got != col:
                    dis.append(f"numpy momentum array {sig}[{syn!r}] = {got} but stored {g} column is {col}")
                    fails.append({"key": f"numpy-getitem:{syn}", "what": dis[-1][:300], "code": None})
                try:
                    got = ak.to_list(getattr(aa, syn))
                except Exception as e:  # noqa: BLE001
                    got = type(e).__name__
                if got != col:
                    dis.append(f"awkward momentum array {sig}.{syn} = {got} but stored {g} column is {col}")
                    fails.append({"key": f"awkward-getattr:{syn}", "what": dis[-1][:300], "code": None})
                # item assignment through the synonym (NumPy)
                n += 1
                try:
                    nb_ = C.np_array("m", sig, rows)
                    nb_[syn] = numpy.array([7.0, 8.0, 9.0])
                    got = numpy.asarray(nb_[g]).tolist()
                except Exception as e:  # noqa: BLE001
                    got = type(e).__name__
                if got != [7.0, 8.0, 9.0]:
                    dis.append(f"numpy momentum array {sig}: assigning [{syn!r}] then reading [{g!r}] gives {got}")
                    fails.append({"key": f"numpy-setitem:{syn}", "what": dis[-1][:300], "code": None})
    return dis[:10], {"array_synonym_checks": n}, fails[:3]
