"""C11 — vector-space, dot, cross and unit-vector laws hold"""
from harness._compute import search_with, sym_correspondence

PROPERTY = "C11"
LEAN_TARGETS = ["VectorModel.Props.C11"]
THEOREM_FILES = ["VectorModel/Props/C11.lean"]
NOT_COVERED = ["float64 rounding", "tau-stored 4D vectors scaled by a negative factor (exact result not representable with tau >= 0)"]
ALWAYS_SEARCH = True
search = search_with("c11")
correspondence = sym_correspondence(["add", "subtract", "dot", "cross", "scale", "unit", "neg2D", "neg3D", "neg4D"], "c11")
