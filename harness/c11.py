"""C11 — vector-space, dot, cross and unit-vector laws hold"""
from harness._compute import search_with, sym_correspondence

PROPERTY = "C11"
LEAN_TARGETS = ["VectorModel.Props.C11", "VectorModel.Props.MethodBin", "VectorModel.Props.UfuncDenote", "VectorModel.Props.C11Triple"]
THEOREM_FILES = ["VectorModel/Props/C11.lean", "VectorModel/Props/MethodBin.lean", "VectorModel/Props/UfuncDenote.lean", "VectorModel/Props/C11Triple.lean"]
NOT_COVERED = ["float64 rounding", "tau-stored 4D vectors scaled by a negative factor (exact result not representable with tau >= 0)"]
ALWAYS_SEARCH = True
search = search_with("c11")
_sym = sym_correspondence(["add", "subtract", "dot", "cross", "scale", "unit", "neg2D", "neg3D", "neg4D"], "c11")

NORM_FORMS = ("abs(", "numpy.absolute", "** ", "numpy.square", "numpy.power", "numpy.sqrt", "numpy.cbrt", "v * k", "k * v", "v / k", "-v", "numpy.negative",
              "numpy.multiply", "numpy.true_divide")


def correspondence(ctx):
    """symbolic object-backend correspondence + abs / ** / numpy.sqrt / cbrt / power / square are functions of the norm and
    * / unary - are scale, compared value for value with the methods on the object, NumPy and Awkward backends"""
    from harness import backends, c05
    from harness import common as C
    out = _sym(ctx)
    bad, st = backends.operator_value_lattice(ctx)
    out["stats"].update(st)
    out["stats"]["traces_validated_against_impl"] = out["stats"].get("traces_validated_against_impl", 0) + st["operator_elements"]
    seen = set()
    for a, b, k in bad:
        if k in seen or not any(f in k for f in NORM_FORMS):
            continue
        seen.add(k)
        out["disagreements"].append(f"{a} :: {b}"[:300])
        out["failing_inputs"].append({"key": k, "what": f"{a}: {b}"[:400], "code": c05.operator_replay(ctx.seed, ctx.tier, k)})
    # scaling / addition written through out= and the in-place operators on NumPy arrays with permuted field order (by name)
    from harness import arrays
    lp, _, _ = arrays.c19_run(ctx)
    lseen = set()
    for k, d in lp:
        if k.startswith(("out-layout", "out-raises")) and k not in lseen:
            lseen.add(k)
            out["disagreements"].append(f"{k}: {d}"[:300])
            out["failing_inputs"].append({"key": k, "what": d[:400], "code": (
                "import sys; sys.path.insert(0, %r); sys.path.insert(0, %r)\nfrom harness import arrays\nclass X: seed=%d; tier=%r\n"
                "problems, _, _ = arrays.c19_run(X)\nhit=[d for k, d in problems if k==%r]\nassert not hit, hit[0]\n"
                % (C.VERIF, C.VERIF + "/tools", ctx.seed, ctx.tier, k))})
    # the same operations on arrays whose columns are int64 / int32 / float32 / mixed (element i = the object result for element i)
    dbad, dst = backends.dtype_value_lattice(ctx)
    out["stats"]["dtype_elements"] = dst["dtype_elements"]
    VS_OPS = ("add", "subtract", "scale", "v * 0.5", "0.25 * v", "v / 4", "-v", "+v", "abs", "v ** 2", "neg2D", "neg3D", "neg4D", "cross", "dot", "unit", "scale2D", "scale3D")
    dseen = set()
    for a, b, k in dbad:
        if k in dseen or not any(k.split(":")[-1] == o for o in VS_OPS):
            continue
        dseen.add(k)
        out["disagreements"].append(f"{a} :: {b}"[:300])
        out["failing_inputs"].append({"key": k, "what": f"{a}: {b}"[:400], "code": (
            "import sys; sys.path.insert(0, %r); sys.path.insert(0, %r)\nfrom harness import backends as Bk\nclass X: seed=%d; tier=%r\n"
            "bad, _ = Bk.dtype_value_lattice(X)\nhit=[b for b in bad if b[2]==%r]\nassert not hit, hit[0][0] + ' :: ' + hit[0][1]\n" % (C.VERIF, C.VERIF + "/tools", ctx.seed, ctx.tier, k))})
    out["ok"] = out["ok"] and not dseen
    # scaling / negation / unit / addition on Awkward momentum arrays whose records carry raw momentum-spelled fields: the RESULT read back
    from harness import c14
    rb, rn = c14.raw_awkward_spellings("ops")
    out["stats"]["raw_awkward_two_step_reads"] = rn
    for d in rb[:3]:
        out["disagreements"].append(d[:300])
        out["failing_inputs"].append({"key": "awkward-raw-two-step:" + d.split(":")[1].strip()[:20], "what": d[:400],
                                      "code": c14.RAW_REPLAY.replace("raw_awkward_spellings()", "raw_awkward_spellings('ops')")})
    out["ok"] = out["ok"] and not seen and not lseen and not rb
    return out
