"""C12 — equality, inequality and closeness are coherent."""
from __future__ import annotations

import itertools
import math

import numpy

from harness import common as C
from harness import leanio

PROPERTY = "C12"
LEAN_TARGETS = ["VectorModel.Props.C12", "VectorModel.Props.MethodOps"]
THEOREM_FILES = ["VectorModel/Props/C12.lean", "VectorModel/Props/MethodOps.lean"]
NOT_COVERED = ["NaN operands (outside the real-number model; property excludes them)",
               "numpy/awkward element semantics of ==, & and | (trusted contract, sampled by the correspondence)"]
GROUP = {2: "planar", 3: "spatial", 4: "lorentz"}
ALWAYS_SEARCH = True          # the law search on the real code is cheap (3 s): every tier runs it


def cases(dim, s1, s2, r):
    """[(tag, stored a, stored b, expected == or None)]"""
    out = []
    for p in C.strata_points(dim, r, n_random=2)[:6]:
        a = C.cart_to_stored(s1, p)
        if s1 == s2:
            out.append(("identical", a, list(a), True))
            for j in range(len(a)):
                b = list(a)
                b[j] = b[j] + 0.75
                out.append((f"one-diff-{j}", a, b, False))
        else:
            b_ = C.cart_to_stored(s2, p)
            out.append(("same-geometry", a, b_, None))
            # the first operand obtained from the second by the LIBRARY's own conversion: == usually holds bit for bit there, which
            # exercises the laws "== implies isclose" (also with zero tolerances) and "!= is not ==" on the True side
            try:
                conv = getattr(C.obj_vec("g", s2, b_), "to_" + "".join(C.signames(s1)))()
                out.append(("library-converted", [float(x) for x in C.stored(conv)], b_, None))
            except Exception:  # noqa: BLE001
                pass
        for ncomp, tag in ((1, "one"), (2, "several"), (dim, "all")):
            q = list(p)
            for j in range(ncomp):
                q[j] = q[j] + 0.5 + j
            if dim == 4:
                q[3] = abs(q[3]) + 4.0   # keep b timelike for tau storage
            out.append((f"{tag}-cartesian-diff", a, C.cart_to_stored(s2, q), False))
    return out


TOLS = [(1e-05, 1e-08), (1e-3, 0.0), (0.0, 1e-3), (0.25, 1e-9), (1e-9, 0.25)]


def isclose_cases(dim, sig, r):
    """same-system operands for the coordinate-wise definition of isclose: [(a, b, rtol, atol, expected)] with
    |a_j - b_j| placed on either side of atol + rtol*|b_j| for ONE coordinate j, at three magnitudes, so that exchanging the two
    tolerances, dropping one of them or scaling by |a| instead of |b| changes some answer"""
    out = []
    pts = C.strata_points(dim, r, n_random=1)[:3]
    for p, scale in zip(pts, (1.0, 300.0, 0.004)):
        q = [x * scale for x in p]
        if dim == 4:
            q[3] = abs(q[3]) + 4.0 * scale
        a0 = C.cart_to_stored(sig, q)
        for rtol, atol in TOLS:
            for j in range(len(a0)):
                for frac in (0.4, 2.5):
                    b = list(a0)
                    a = list(a0)
                    thr = atol + rtol * abs(b[j])
                    a[j] = b[j] + frac * thr
                    want = all(abs(x - y) <= atol + rtol * abs(y) for x, y in zip(a, b))
                    out.append((a, b, rtol, atol, want))
    return out


def isclose_definition(ctx, r, dis, fails, sigs=None):
    """isclose(a, b, rtol, atol) on same-system operands == all_j |a_j - b_j| <= atol + rtol*|b_j|, every same-system key, on the
    object, NumPy and Awkward backends (methods) and numpy.isclose on NumPy arrays"""
    n = 0
    for dim in (2, 3, 4):
        for sig in C.SIGS[dim]:
            cs = isclose_cases(dim, sig, r)
            for (rtol, atol) in TOLS:
                sub = [c for c in cs if (c[2], c[3]) == (rtol, atol)]
                A, B, W = [c[0] for c in sub], [c[1] for c in sub], [c[4] for c in sub]
                got = {"obj.method": [bool(C.obj_vec("g", sig, a).isclose(C.obj_vec("m", sig, b), rtol=rtol, atol=atol)) for a, b in zip(A, B)]}
                na, nb = C.np_array("g", sig, A), C.np_array("g", sig, B)
                got["np.method"] = tolist(na.isclose(nb, rtol=rtol, atol=atol))
                got["np.numpy"] = tolist(numpy.isclose(na, nb, rtol=rtol, atol=atol))
                aa, ab = C.ak_array("m", sig, A), C.ak_array("m", sig, B)
                got["ak.method"] = tolist(aa.isclose(ab, rtol=rtol, atol=atol))
                n += 4 * len(sub)
                # allclose = all(isclose): once on the mixed rows (some close, some not) and once on the close rows only
                close_idx = [i for i, w_ in enumerate(W) if w_]
                for label, idx in (("mixed", list(range(len(sub)))), ("all-close", close_idx)):
                    if not idx:
                        continue
                    want_all = all(W[i] for i in idx)
                    A_, B_ = [A[i] for i in idx], [B[i] for i in idx]
                    forms_all = {"np.allclose": lambda: C.np_array("g", sig, A_).allclose(C.np_array("g", sig, B_), rtol=rtol, atol=atol),
                                 "numpy.allclose(np)": lambda: numpy.allclose(C.np_array("g", sig, A_), C.np_array("g", sig, B_), rtol=rtol, atol=atol),
                                 "ak.allclose": lambda: C.ak_array("m", sig, A_).allclose(C.ak_array("m", sig, B_), rtol=rtol, atol=atol)}
                    for fname, f_ in forms_all.items():
                        n += 1
                        try:
                            gv = bool(f_())
                        except Exception as e:  # noqa: BLE001
                            gv = type(e).__name__
                        if gv != want_all:
                            key = f"allclose:{fname}"
                            if not any(f and f["key"] == key for f in fails):
                                dis.append(f"{fname} on {','.join(sig)} ({label} rows, rtol={rtol} atol={atol}) returns {gv}; all(isclose) over the elements is {want_all}")
                                fails.append({"key": key, "what": dis[-1], "code": None})
                for form, vals in got.items():
                    if vals != W:
                        i = [x != y for x, y in zip(vals, W)].index(True)
                        key = f"isclose-definition:{form}:{','.join(sig)}"
                        if not any(f and f["key"] == key for f in fails):
                            dis.append(f"isclose {','.join(sig)} {form} rtol={rtol} atol={atol}: returns {vals[i]} for stored {A[i]} vs {B[i]}, "
                                       f"the coordinate-wise definition gives {W[i]}")
                            fails.append({"key": key, "what": dis[-1], "code": isclose_replay(sig, A[i], B[i], rtol, atol, W[i])})
    return n


def isclose_replay(sig, a, b, rtol, atol, want):
    return f"""
import vector, numpy
import sys; sys.path.insert(0, {C.VERIF!r})
from harness import common as C
a, b, rtol, atol = {a!r}, {b!r}, {rtol!r}, {atol!r}
want = all(abs(x - y) <= atol + rtol * abs(y) for x, y in zip(a, b))
u, v = C.obj_vec("g", {sig!r}, a), C.obj_vec("m", {sig!r}, b)
assert bool(u.isclose(v, rtol=rtol, atol=atol)) == want, f"object isclose is {{not want}}, every stored coordinate within atol + rtol*|other|: {{want}}"
na, nb = C.np_array("g", {sig!r}, [a]), C.np_array("g", {sig!r}, [b])
assert bool(na.isclose(nb, rtol=rtol, atol=atol)[0]) == want and bool(numpy.isclose(na, nb, rtol=rtol, atol=atol)[0]) == want, "NumPy isclose"
aa, ab = C.ak_array("m", {sig!r}, [a]), C.ak_array("m", {sig!r}, [b])
assert bool(aa.isclose(ab, rtol=rtol, atol=atol)[0]) == want, "Awkward isclose"
"""


def dtype_shape_pairs(ctx, r, dis, fails):
    """== / != / isclose between NumPy (and Awkward) vector arrays of the SAME coordinate system whose columns have DIFFERENT dtypes
    (int64 / int32 / float32 / float64, either side) or different but broadcastable shapes ((n,1) vs (n,), 0-d vs (n,)): operator,
    method and numpy-function forms agree with each other and with the element-wise comparison of the stored values"""
    import vector
    n = 0
    base = {"x": [1, 2, -3, 4], "y": [2, -1, 5, 3], "rho": [1, 2, 3, 4], "phi": [1, -2, 0, 3], "z": [3, 0, -2, 1], "theta": [1, 2, 1, 3], "eta": [0, 1, -1, 2],
            "t": [9, 8, 7, 6], "tau": [1, 2, 3, 4]}
    frac = {k: [v + (0.5 if i % 2 == 0 else 0.0) for i, v in enumerate(vs)] for k, vs in base.items()}     # equal in every second row only
    dts = [("int64", "float64"), ("float64", "int64"), ("int32", "float64"), ("float32", "float64"), ("float64", "float32"), ("int64", "float32")]
    for sig in (C.ALLSIGS if ctx.tier == "thorough" else [C.SIGS[2][0], C.SIGS[2][1]] + r.sample(C.SIGS[3], 2) + r.sample(C.SIGS[4], 3)):
        names = list(C.signames(sig))
        fl = r.choice("gm")
        fnames = C.field_names(fl, sig)
        for d1, d2 in dts:
            def mkcols(dt, vals):
                src = base if dt.startswith("int") else vals
                return {fn: numpy.array(src[g], dtype=dt) for fn, g in zip(fnames, names)}
            # left: d1 holding the integral values; right: d2 holding the fractional ones (or float32-rounded 0.1 offsets)
            right_vals = frac if not (d1.startswith("float") and d2.startswith("float")) else {k: [v + 0.1 for v in vs] for k, vs in base.items()}
            left_vals = base if not (d1.startswith("float") and d2.startswith("float")) else {k: [v + 0.1 for v in vs] for k, vs in base.items()}
            try:
                a = vector.array({fn: numpy.array(left_vals[g], dtype=d1) for fn, g in zip(fnames, names)}) if not d1.startswith("int") else vector.array(mkcols(d1, base))
                b = vector.array({fn: numpy.array(right_vals[g], dtype=d2) for fn, g in zip(fnames, names)}) if not d2.startswith("int") else vector.array(mkcols(d2, base))
            except Exception as e:  # noqa: BLE001
                dis.append(f"dtype-pair harness: cannot build arrays {d1}/{d2} for {sig}: {type(e).__name__}")
                continue
            want_eq = [all(float(a[fn][i]) == float(b[fn][i]) for fn in fnames) for i in range(4)]
            forms = {"a == b": lambda: a == b, "b == a": lambda: b == a, "a.equal(b)": lambda: a.equal(b), "numpy.equal(a, b)": lambda: numpy.equal(a, b),
                     "not (a != b)": lambda: ~(a != b), "not a.not_equal(b)": lambda: ~a.not_equal(b), "not numpy.not_equal(b, a)": lambda: ~numpy.not_equal(b, a)}
            for fname, f_ in forms.items():
                n += 1
                try:
                    got = [bool(x) for x in numpy.asarray(f_()).tolist()]
                except Exception as e:  # noqa: BLE001
                    got = f"raises {type(e).__name__}: {str(e)[:60]}"
                if got != want_eq:
                    dis.append(f"dtype-pair {fl}:{sig} columns {d1} vs {d2}: {fname} = {got}; the stored coordinates are equal exactly in rows {want_eq}")
                    fails.append({"key": f"dtype-pair:{fname}", "what": dis[-1][:400], "code": (
                        "import numpy, vector\nnames = %r\na = vector.array({n: numpy.array(v, dtype=%r) for n, v in zip(names, %r)})\n"
                        "b = vector.array({n: numpy.array(v, dtype=%r) for n, v in zip(names, %r)})\n"
                        "want = [all(float(a[n][i]) == float(b[n][i]) for n in names) for i in range(4)]\n"
                        "assert (a == b).tolist() == want and (b == a).tolist() == want and (~(a != b)).tolist() == want and a.equal(b).tolist() == want, ((a == b).tolist(), (b == a).tolist(), want)\n"
                        % (fnames, d1, [a[fn].tolist() for fn in fnames], d2, [b[fn].tolist() for fn in fnames]))})
                    break
        # shapes: (4,1) vs (4,), 0-d vs (4,)
        a1 = vector.array({fn: numpy.array(frac[g], dtype="float64") for fn, g in zip(fnames, names)})
        col = a1.reshape(4, 1)
        row = vector.array({fn: numpy.array(base[g], dtype="float64") for fn, g in zip(fnames, names)})
        for fname, f_, shape in (("(4,1) == (4,)", lambda: col == row, (4, 4)), ("(4,) == (4,1)", lambda: row == col, (4, 4)), ("(4,1).equal((4,))", lambda: col.equal(row), (4, 4)),
                                 ("0-d == (4,)", lambda: a1[1:2].reshape(()) == row, (4,)), ("(4,1) != (4,)", lambda: ~(col != row), (4, 4))):
            n += 1
            try:
                got = numpy.asarray(f_())
                want = numpy.array([[all(float(a1[fn][i]) == float(row[fn][j]) for fn in fnames) for j in range(4)] for i in range(4)])
                if shape == (4,):
                    want = want[1]
                ok = got.shape == shape and got.tolist() == want.tolist()
                why = f"shape {got.shape}, values {got.tolist()}"
            except Exception as e:  # noqa: BLE001
                ok, why = False, f"raises {type(e).__name__}: {str(e)[:60]}"
            if not ok:
                dis.append(f"shape-pair {fl}:{sig}: {fname}: {why}; expected shape {shape} and the element-wise comparison of the broadcast operands")
                fails.append({"key": f"shape-pair:{fname}", "what": dis[-1][:400], "code": None})
    return n


def tolist(x):
    try:
        import awkward as ak
        if isinstance(x, ak.Array):
            return [bool(v) for v in ak.to_list(x)]
    except ImportError:
        pass
    if isinstance(x, numpy.ndarray):
        return [bool(v) for v in x.tolist()]
    return bool(x)


def correspondence(ctx):
    r = C.rng(ctx.seed, "c12")
    dis, fails, samples = [], [], []
    reqs, expect = [], []
    n_calls = 0
    dist = {}
    for dim in (2, 3, 4):
        pairs = list(itertools.product(C.SIGS[dim], repeat=2))
        if False and ctx.tier == "quick" and dim == 4:          # all 144 lorentz pairs in every tier
            same = [(s, s) for s in C.SIGS[4]]
            pairs = same + r.sample([p for p in pairs if p[0] != p[1]], 24)
        for s1, s2 in pairs:
            f1, f2 = r.choice("gm"), r.choice("gm")
            cs = cases(dim, s1, s2, r)
            A = [c[1] for c in cs]
            B = [c[2] for c in cs]
            objs = [(C.obj_vec(f1, s1, a), C.obj_vec(f2, s2, b)) for a, b in zip(A, B)]
            na, nb = C.np_array(f1, s1, A), C.np_array(f2, s2, B)
            aa, ab = C.ak_array(f1, s1, A), C.ak_array(f2, s2, B)
            forms = {
                "eq": {"obj.op": [u == v for u, v in objs], "obj.method": [u.equal(v) for u, v in objs],
                       "obj.numpy": [numpy.equal(u, v) for u, v in objs],
                       "np.op": tolist(na == nb), "np.method": tolist(na.equal(nb)), "np.numpy": tolist(numpy.equal(na, nb)),
                       "ak.op": tolist(aa == ab), "ak.method": tolist(aa.equal(ab)), "ak.numpy": tolist(numpy.equal(aa, ab)),
                       "np-vs-obj": tolist(na == objs[0][1])[:1], },
                "ne": {"obj.op": [u != v for u, v in objs], "obj.method": [u.not_equal(v) for u, v in objs],
                       "obj.numpy": [numpy.not_equal(u, v) for u, v in objs],
                       "np.op": tolist(na != nb), "np.method": tolist(na.not_equal(nb)), "np.numpy": tolist(numpy.not_equal(na, nb)),
                       "ak.op": tolist(aa != ab), "ak.method": tolist(aa.not_equal(ab)), "ak.numpy": tolist(numpy.not_equal(aa, ab))},
                "isclose": {"obj.method": [u.isclose(v) for u, v in objs],
                            "np.method": tolist(na.isclose(nb)), "np.numpy": tolist(numpy.isclose(na, nb)),
                            "ak.method": tolist(aa.isclose(ab))},
            }
            n_calls += sum(len(v) for v in forms.values()) * len(cs)
            key = ",".join(s1 + s2)
            for op, fs in forms.items():
                ref = [bool(x) for x in fs["obj.method"]]
                for name, vals in fs.items():
                    if name == "np-vs-obj":
                        if vals != ref[:1]:
                            dis.append(f"{op} {key} mixed numpy/object pairing differs from object result")
                        continue
                    vals = [bool(x) for x in vals]
                    # "same-geometry" operands in DIFFERENT systems are equal only up to rounding of the conversions: object arithmetic
                    # (x*x) and array arithmetic (numpy.power) may differ in the last bit, so == there is compared within one backend only
                    backend = name.split(".")[0]
                    same_backend_ref = [bool(x) for x in fs[backend + ".method"]] if backend + ".method" in fs else ref
                    cmp_ref = [sb if cs[i][3] is None else rf for i, (sb, rf) in enumerate(zip(same_backend_ref, ref))]
                    if vals != cmp_ref:
                        ref = cmp_ref
                        i = [a != b for a, b in zip(vals, ref)].index(True)
                        dis.append(f"{op} {key} {name} differs from obj.method on case {cs[i][0]}")
                        fails.append(failing(dim, op, name, f1, s1, A[i], f2, s2, B[i]))
            # law: != is not ==
            for i, (e, n) in enumerate(zip(forms["eq"]["obj.method"], forms["ne"]["obj.method"])):
                if bool(e) == bool(n):
                    dis.append(f"ne-is-not-eq {key} case {cs[i][0]}: == {e} and != {n}")
                    fails.append(failing(dim, "ne-law", "obj.method", f1, s1, A[i], f2, s2, B[i]))
            for i, c in enumerate(cs):
                dist[c[0].split("-")[0]] = dist.get(c[0].split("-")[0], 0) + 1
                if c[3] is not None:
                    for op, mod in (("eq", "equal"), ("ne", "not_equal"), ("isclose", "isclose")):
                        sc = [1e-05, 1e-08, 0.0] if op == "isclose" else []
                        reqs.append((f"{GROUP[dim]}_{mod}", s1 + s2, sc + A[i] + B[i]))
                        expect.append((op, key, c[0], bool(forms[op]["obj.method"][i]),
                                       (c[3] if op != "ne" else not c[3])))
            if len(samples) < 3:
                samples.append({"dim": dim, "key": key, "flavors": f1 + f2, "case": cs[1][0], "a": A[1], "b": B[1],
                                "==": bool(forms["eq"]["obj.method"][1]), "!=": bool(forms["ne"]["obj.method"][1])})
    n_def = isclose_definition(ctx, r, dis, fails)
    n_calls += n_def
    n_calls += dtype_shape_pairs(ctx, r, dis, fails)
    from harness import backends as _Bk
    fbad, fst = _Bk.function_form_lattice(ctx)
    n_calls += fst["function_form_calls"]
    fseen = set()
    for a_, b_, k_ in fbad:
        if k_ in fseen or not any(x in k_ for x in ("isclose", "allclose", "equal")):
            continue
        fseen.add(k_)
        dis.append(f"{a_} :: {b_}"[:300])
        fails.append({"key": k_, "what": f"{a_}: {b_}"[:400], "code": (
            "import sys; sys.path.insert(0, %r); sys.path.insert(0, %r)\nfrom harness import backends as Bk\nclass X: seed=%d; tier=%r\n"
            "bad, _ = Bk.function_form_lattice(X)\nhit=[b for b in bad if b[2]==%r]\nassert not hit, hit[0][0] + ' :: ' + hit[0][1]\n" % (C.VERIF, C.VERIF + "/tools", ctx.seed, ctx.tier, k_))})
    # the same predicates inside numba-compiled code on near-equal operand pairs (default and explicit tolerances, every dimension)
    from harness import c07
    import multiprocessing as mp
    cjobs = c07.closeness_jobs(r, ctx.tier)
    with mp.get_context("spawn").Pool(min(8, len(cjobs))) as pool:
        cres = pool.map(c07.probe_worker, cjobs)
    for src, toks, interp, comp in cres:
        n_calls += 1
        if not c07.same(interp, comp):
            dis.append(f"compiled closeness/equality predicates on {toks}: interpreter {str(interp)[:160]}, compiled {str(comp)[:160]}")
            fails.append({"key": "numba-closeness", "what": dis[-1][:400], "code": c07.probe_replay(src, toks)})
    ans = leanio.eval_float(reqs)
    for (op, key, tag, real, want), got in zip(expect, ans):
        if got[0] != "b":
            dis.append(f"model has no answer for {op} {key}: {got}")
        elif got[1] != real or real != want:
            dis.append(f"{op} {key} case {tag}: real={real} lean-model={got[1]} expected={want}")
    return {"ok": not dis, "disagreements": dis, "failing_inputs": [f for f in fails if f][:5],
            "stats": {"traces_validated_against_impl": len(reqs), "public_calls": n_calls, "case_distribution": dist,
                      "model_requests": len(reqs), "isclose_definition_calls": n_def},
            "samples": samples}


def failing(dim, op, form, f1, s1, a, f2, s2, b):
    code = f"""
import vector, numpy
from vector.backends import object as O
import sys; sys.path.insert(0, {C.VERIF!r})
from harness import common as C
u = C.obj_vec({f1!r}, {s1!r}, {a!r}); v = C.obj_vec({f2!r}, {s2!r}, {b!r})
e, n = bool(u == v), bool(u != v)
assert e != n, f"== is {{e}} and != is {{n}} for {{u}} {{v}}"
na, nb = C.np_array({f1!r}, {s1!r}, [{a!r}]), C.np_array({f2!r}, {s2!r}, [{b!r}])
aa, ab = C.ak_array({f1!r}, {s1!r}, [{a!r}]), C.ak_array({f2!r}, {s2!r}, [{b!r}])
assert bool((na == nb)[0]) == e and bool((aa == ab)[0]) == e, "backends disagree on =="
assert bool((na != nb)[0]) == n and bool((aa != ab)[0]) == n, "backends disagree on !="
assert bool(u.equal(v)) == e and bool(numpy.equal(u, v)) == e and bool(u.not_equal(v)) == n
assert bool(u.isclose(v)) == bool(na.isclose(nb)[0]) == bool(aa.isclose(ab)[0]) == bool(numpy.isclose(na, nb)[0])
"""
    return {"key": f"{op}:{form}:{','.join(s1 + s2)}", "what": f"{op} via {form} on {s1}/{s2} operands {a} {b}", "code": code}


def search(ctx, broken):
    """laws of C12 on the real code, all signature pairs, mp-free (booleans): != <-> not ==, reflexive, symmetric,
    isclose reflexive / implied by == / monotone"""
    r = C.rng(ctx.seed, "c12-search")
    out = []
    dis_ = []
    isclose_definition(ctx, r, dis_, out)
    for dim in (2, 3, 4):
        for s1, s2 in itertools.product(C.SIGS[dim], repeat=2):
            extra = []
            if s1 != s2 and dim <= 3:
                # many operands related by the library's own conversion (where == holds bit for bit): rounding of a DIFFERENT conversion
                # path inside isclose shows up on a fraction of ordinary values only
                for _ in range(30):
                    pt_ = [r.uniform(-4, 4) for _ in range(dim)]
                    b_ = C.cart_to_stored(s2, pt_)
                    try:
                        conv = getattr(C.obj_vec("g", s2, b_), "to_" + "".join(C.signames(s1)))()
                        extra.append(("library-converted", [float(x) for x in C.stored(conv)], b_, None))
                    except Exception:  # noqa: BLE001
                        pass
            if s1[0] == "rhophi" and s2[0] == "rhophi":
                # degenerate azimuth: the same geometric vector under DIFFERENT stored coordinates (rho = 0 with two values of phi,
                # and phi shifted by a full turn). A kernel that compares Cartesian x, y for one key and stored rho, phi for its
                # not_equal twin answers True to both == and != exactly here (seeded change C12-16).
                for rho_, phis in ((0.0, (0.3, 1.1)), (2.5, (0.5, 0.5 + 2 * math.pi)), (0.0, (0.0, math.pi))):
                    a_ = [rho_, phis[0]] + [1.0, 3.0][: dim - 2]
                    if dim >= 3 and s1[1] == "z":
                        a_[2] = 0.8
                    try:
                        conv = getattr(C.obj_vec("g", s1, a_), "to_" + "".join(C.signames(s2)))()
                        b_ = [float(x) for x in C.stored(conv)]
                        b_[0], b_[1] = rho_, phis[1]
                        extra.append(("degenerate-azimuth", a_, b_, None))
                    except Exception:  # noqa: BLE001
                        pass
            for tag, a, b, _ in cases(dim, s1, s2, r) + extra:
                u, v = C.obj_vec("g", s1, a), C.obj_vec("m", s2, b)
                e, n = bool(u == v), bool(u != v)
                ok = (e != n) and bool(u == u) and (bool(v == u) == e if s1 == s2 else True) and bool(u.isclose(u)) \
                    and (not e or bool(u.isclose(v))) and (not e or bool(u.isclose(v, rtol=0.0, atol=0.0))) \
                    and (not bool(u.isclose(v, rtol=1e-5, atol=1e-8)) or bool(u.isclose(v, rtol=1e-3, atol=1e-6)))
                if not ok:
                    f = failing(dim, "law", "search", "g", s1, a, "m", s2, b)
                    f["code"] += f"""
assert bool(u == u) and bool(u.isclose(u)), "not reflexive"
assert (not e) or bool(u.isclose(v)), "== does not imply isclose"
assert (not e) or bool(u.isclose(v, rtol=0.0, atol=0.0)), "== does not imply isclose with zero tolerances (isclose compares other coordinates than ==)"
assert (not bool(u.isclose(v))) or bool(u.isclose(v, rtol=1e-3, atol=1e-6)), "isclose not monotone"
"""
                    out.append(f)
                    break
    return out[:5]
