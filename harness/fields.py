"""C14 / C07 / C18 — the FIELD LOOKUP chains of the Awkward backend against the Lean model `Glue/Fields.lean`.

Which fields of an Awkward record are the coordinates is decided by hand-written `if "x" in fields and "y" in fields … elif …`
chains: in the interpreter (`AzimuthalAwkward.from_fields` / `.from_momentum_fields`, … in backends/awkward.py), in the numba
typer (`_aztype_of`, `_ltype_of`, `_ttype_of`) and in the numba lowering (`_numba_lower` + the `_awkward_numba_*` getters).

Seeded field lists — every single-spelling record of every system / dimension / flavor (exhaustive), shuffled orders, extra
fields (also extras NAMED like momentum synonyms on generic records), records with two spellings of a coordinate or two
systems, missing coordinates, random subsets of the 19 coordinate names, mixed dtypes — are built with
`ak.zip({name: values}, with_name="Momentum4D" | "Vector3D" | …)` in ONE subprocess with `vector.register_awkward()`:

* interpreter view (array and `a[0]` record): classes of `a.azimuthal`, `a.longitudinal`, `a.temporal`, their `elements`, and
  the `a.x` / `a.px` … reads of the stored coordinates;
* compiled view: `numba.njit(lambda a: a[0])(a)` — the boxed object's coordinate classes and values (compiled once per distinct
  record type; quick: at most 40 distinct types, thorough / exhaustive: all — thorough samples the two-spelling records, tier
  `exhaustive` takes every one: 8632 records, 8109 compiled types, about an hour).

The same records go through the Lean driver `Driver/Fields.lean` (`read` = `readRec`, `nb` = `nbReadRecD`) in ONE invocation;
system names, values and exception kinds are compared.

    cd /verif && /venv/bin/python -m harness.fields 1 quick
"""
from __future__ import annotations

import json
import os
import subprocess
import sys
import time

PROPERTY = "C14"
LEAN_TARGETS = ["VectorModel.Glue.Fields", "VectorModel.Props.C14Fields"]
THEOREM_FILES = ["VectorModel/Props/C14Fields.lean"]
NEEDS_TRANSLATOR = False
NOT_COVERED = ["option-type / indexed / union field contents (the typer's `_arraytype_of` accepts NumpyArray and IndexedArray only), records nested in "
               "lists (the chains only look at `ak.fields`), dtypes other than int64 / float64 / int32 / float32, the VALUES of non-stored coordinates "
               "(compute layer: C01), `_wrap_result` on the real side (C18 harness), typetracer arrays (`_touch`)"]

AZ_SP = {"xy": [("x", "y"), ("x", "py"), ("px", "y"), ("px", "py")], "rhophi": [("rho", "phi"), ("pt", "phi")]}
LON_SP = {"z": ["z", "pz"], "theta": ["theta"], "eta": ["eta"]}
TMP_SP = {"t": ["t", "E", "e", "energy"], "tau": ["tau", "M", "m", "mass"]}
COORD19 = ["x", "px", "y", "py", "rho", "pt", "phi", "z", "pz", "theta", "eta", "t", "E", "e", "energy", "tau", "M", "m", "mass"]
GENERIC = ["x", "y", "rho", "phi", "z", "theta", "eta", "t", "tau"]
MOMENTUM = [n for n in COORD19 if n not in GENERIC]
EXTRAS = ["charge", "pdgId", "weight", "X", "Px", "pT", "PT", "Pz", "ET", "et", "Mass", "T", "Tau", "mass2", "energy_", "xx", "p", "Phi", "ETA"]
DTYPES = ["i", "f", "i32", "f32"]
SAME = {n: g for g, sp in {"x": ["x", "px"], "y": ["y", "py"], "rho": ["rho", "pt"], "phi": ["phi"], "z": ["z", "pz"], "theta": ["theta"], "eta": ["eta"],
                           "t": TMP_SP["t"], "tau": TMP_SP["tau"]}.items() for n in sp}


# ------------------------------------------------------------------------------------------------ cases
class Case:
    __slots__ = ("fam", "mom", "dim", "fields", "compile", "attrs")

    def __init__(self, fam, mom, dim, fields):
        self.fam, self.mom, self.dim, self.fields, self.compile, self.attrs = fam, mom, dim, list(fields), False, True

    def names(self):
        return tuple(n for n, _, _ in self.fields)

    def typekey(self):
        return (self.mom, self.dim, tuple((n, d) for n, _, d in self.fields))

    def record_name(self):
        return ("Momentum" if self.mom else "Vector") + f"{self.dim}D"

    def token(self):
        return ",".join(f"{n}={v}" + ("" if d == "i" else ":" + d) for n, v, d in self.fields) or "-"

    def line(self, view):
        return f"{view} {1 if self.mom else 0} {self.dim} {self.token()}"

    def describe(self):
        fs = ", ".join(f"{n}: [{v}]" + ("" if d == "i" else f" ({d})") for n, v, d in self.fields)
        return f"ak.zip({{{fs}}}, with_name=\"{self.record_name()}\")"


def single_name_tuples():
    """every record with exactly one spelling per coordinate and one system per coordinate group: (dim, names)"""
    out = []
    azs = [p for sp in AZ_SP.values() for p in sp]
    lons = [n for sp in LON_SP.values() for n in sp]
    tmps = [n for sp in TMP_SP.values() for n in sp]
    for az in azs:
        out.append((2, az))
        for lo in lons:
            out.append((3, az + (lo,)))
            for tm in tmps:
                out.append((4, az + (lo, tm)))
    return out


def is_generic(names):
    return all(n in GENERIC for n in names)


def values(r, names, dtypes=None):
    vs = r.sample(range(1, 90), len(names))
    return [(n, v, (dtypes[i] if dtypes else "i")) for i, (n, v) in enumerate(zip(names, vs))]


def with_extras(r, fields, pool, k):
    fields = list(fields)
    have = {n for n, _, _ in fields}
    for n in r.sample([e for e in pool if e not in have], k):
        fields.insert(r.randint(0, len(fields)), (n, r.randint(100, 180), "i"))
    return fields


def generate(ctx):
    from harness import common as C
    r = C.rng(ctx.seed, "fields")
    full = ctx.tier != "quick"
    exhaustive = ctx.tier == "exhaustive"               # every two-spelling record (8632 records, 8109 compiled types: about an hour)
    singles = single_name_tuples()
    cases = []
    valid = []                                              # (mom, dim, names) that the flavor can read completely
    for dim, names in singles:
        for mom in (True, False):
            cases.append(Case("single", mom, dim, values(r, names)))
            if mom or is_generic(names):
                valid.append((mom, dim, names))
    for mom, dim, names in valid:                           # field order
        f = values(r, names)
        r.shuffle(f)
        cases.append(Case("shuffled", mom, dim, f))
    for mom, dim, names in valid:                           # extra fields, anywhere
        f = with_extras(r, values(r, names), EXTRAS, r.randint(1, 3))
        if r.random() < 0.5:
            r.shuffle(f)
        cases.append(Case("extras", mom, dim, f))
    for mom, dim, names in valid:                           # generic records with extras NAMED like momentum synonyms
        if not mom:
            for _ in range(12 if full else 5):
                f = with_extras(r, values(r, names), MOMENTUM, r.randint(1, 4))
                cases.append(Case("generic+momentum-named", False, dim, f))
    two = []                                                # a second spelling / a second system
    for mom, dim, names in valid:
        for extra in (COORD19 if mom else GENERIC):
            if extra not in names:
                two.append((mom, dim, names, extra))
    mom_two = [t for t in two if t[0]]
    if not exhaustive:
        two = r.sample([t for t in two if not t[0]], 100 if full else 60) + r.sample(mom_two, 450 if full else 300)
    for mom, dim, names, extra in two:
        f = values(r, names + (extra,))
        if r.random() < 0.5:
            r.shuffle(f)
        cases.append(Case("two", mom, dim, f))
    missing = []
    for mom, dim, names in valid:
        for i in range(len(names)):
            missing.append((mom, dim, names[:i] + names[i + 1:]))
    if not exhaustive:
        missing = r.sample(missing, 400 if full else 150)
    for mom, dim, names in missing:
        f = values(r, names)
        if r.random() < 0.3:
            f = with_extras(r, f, EXTRAS, 1)
        cases.append(Case("missing", mom, dim, f))
    for _ in range(2500 if exhaustive else 400 if full else 250):   # random subsets of the coordinate names
        k = r.choice([0, 1, 2, 3, 3, 4, 4, 5, 5, 6, 7, 9, 12])
        names = tuple(r.sample(COORD19, min(k, 19)))
        f = values(r, names)
        if r.random() < 0.3:
            f = with_extras(r, f, EXTRAS, 1)
        cases.append(Case("subset", r.random() < 0.7, r.choice([2, 3, 4]), f))
    cases.append(Case("subset", True, 4, values(r, tuple(COORD19))))
    cases.append(Case("subset", False, 4, values(r, tuple(COORD19))))
    for mom, dim, names, extra in r.sample(mom_two, min(len(mom_two), 500 if exhaustive else 150 if full else 40)):   # mixed dtypes on doubled coordinates
        names = names + (extra,)
        dts = [r.choice(["i", "i", "f"]) for _ in names]
        twins = [i for i, n in enumerate(names[:-1]) if SAME.get(n) == SAME.get(extra)]
        if twins and r.random() < 0.75:                     # the two spellings of the doubled coordinate get different dtypes
            dts[-1] = r.choice([d for d in DTYPES if d != dts[twins[0]]])
        f = values(r, names, dts)
        r.shuffle(f)
        cases.append(Case("dtype-two", mom, dim, f))
    for mom, dim, names in r.sample(valid, 60 if full else 10):                                   # mixed dtypes, one spelling: fine
        f = values(r, names, [r.choice(DTYPES) for _ in names])
        cases.append(Case("dtype-single", mom, dim, f))
    # the witnesses of the theorems
    cases.append(Case("witness", True, 4, [("px", 1, "i"), ("py", 2, "i"), ("eta", 3, "i"), ("mass", 4, "i"), ("charge", 5, "i")]))
    cases.append(Case("witness", True, 2, [("x", 1, "f"), ("px", 10, "i"), ("y", 2, "f")]))
    cases.append(Case("witness", True, 2, [("x", 1, "i"), ("px", 10, "i"), ("y", 2, "i")]))
    cases.append(Case("witness", False, 2, [("x", 1, "f"), ("px", 10, "i"), ("y", 2, "f")]))
    if not full:                                            # `a.x`-style reads cost 0.5-2 ms each: quick reads them on a third of the records
        for c in cases:
            c.attrs = c.fam == "witness" or r.random() < 0.33
    choose_compiled(r, cases, full)
    return cases


def choose_compiled(r, cases, full):
    if full:
        for c in cases:
            c.compile = True
        return
    by = {}
    for c in cases:
        by.setdefault(c.fam, []).append(c)
    chosen = {}

    def take(c):
        chosen.setdefault(c.typekey(), c)

    # every getter of the lowering at least once: eight 4D momentum singles
    az6 = [p for sp in AZ_SP.values() for p in sp]
    lon4 = [n for sp in LON_SP.values() for n in sp]
    tmp8 = [n for sp in TMP_SP.values() for n in sp]
    perm = list(range(8))
    r.shuffle(perm)
    for i in range(8):
        want = az6[perm[i] % 6] + (lon4[perm[i] % 4], tmp8[i])
        take(next(c for c in by["single"] if c.mom and c.dim == 4 and c.names() == want))
    take(r.choice([c for c in by["single"] if not c.mom and c.dim == 4 and is_generic(c.names())]))
    take(r.choice([c for c in by["single"] if not c.mom and c.dim == 2 and is_generic(c.names())]))
    for c in by["witness"]:
        take(c)
    quota = [("two", 7), ("dtype-two", 7), ("extras", 2), ("shuffled", 2), ("missing", 2), ("generic+momentum-named", 2), ("subset", 3), ("dtype-single", 1)]
    for fam, k in quota:
        for c in r.sample(by[fam], min(k, len(by[fam]))):
            if len(chosen) < 40:
                take(c)
    keys = set(chosen)
    for c in cases:
        c.compile = c.typekey() in keys


# ------------------------------------------------------------------------------------------------ the real side (worker subprocess)
WORKER = r'''
import json, sys
import numpy, awkward as ak, numba, vector
vector.register_awkward()
NP = {"i": numpy.int64, "f": numpy.float64, "i32": numpy.int32, "f32": numpy.float32}
PROPS = ["azimuthal", "longitudinal", "temporal"]
READS = {"xy": [("x", 0), ("y", 1)], "rhophi": [("rho", 0), ("phi", 1)], "z": [("z", 0)], "theta": [("theta", 0)], "eta": [("eta", 0)],
         "t": [("t", 0)], "tau": [("tau", 0)]}
MOMREADS = {"xy": [("px", 0), ("py", 1)], "rhophi": [("pt", 0)], "z": [("pz", 0)], "theta": [], "eta": [],
            "t": [("E", 0), ("e", 0), ("energy", 0)], "tau": [("M", 0), ("m", 0), ("mass", 0)]}

def kind(e):
    if isinstance(e, numba.core.errors.TypingError):
        return "typingError"
    return {"ValueError": "valueError", "AssertionError": "assertionError", "KeyError": "keyError"}.get(type(e).__name__, type(e).__name__)

def sysname(c, tag):
    n = type(c).__name__
    for group, table in (("Azimuthal", {"XY": "xy", "RhoPhi": "rhophi"}), ("Longitudinal", {"Z": "z", "Theta": "theta", "Eta": "eta"}),
                         ("Temporal", {"T": "t", "Tau": "tau"})):
        for suffix, s in table.items():
            if n == group + tag + suffix:
                return s
    return "<" + n + ">"

def num(x):
    try:
        xf = float(x)
    except Exception:
        return repr(x)
    return str(int(xf)) if xf == int(xf) else repr(xf)

def interp(a, dim, is_array, mom, attrs):
    out, bad = ["ok"], []
    for prop in PROPS[:dim - 1]:
        try:
            c = getattr(a, prop)
            els = c.elements
        except Exception as e:
            return "err " + kind(e), str(e)[:100], bad
        s = sysname(c, "Awkward")
        out.append(s)
        vals = []
        for el in els:
            if is_array:
                l = ak.to_list(el)
                if len(l) != 2 or l[1] - l[0] != 100:
                    bad.append(f"{prop}.elements = {l!r}")
                vals.append(l[0])
            else:
                vals.append(el)
        out += [num(v) for v in vals]
        for nm, i in (READS.get(s, []) + (MOMREADS.get(s, []) if mom else [])) if attrs else []:
            try:
                got = getattr(a, nm)
                got = ak.to_list(got)[0] if is_array else got
                if float(got) != float(vals[i]):
                    bad.append(f".{nm} = {got!r}, stored {s} value {vals[i]!r}")
            except Exception as e:
                bad.append(f".{nm} raises {type(e).__name__}: {str(e)[:60]}")
    return " ".join(out), None, bad

first = numba.njit(lambda a: a[0])

def compiled(a, dim):
    try:
        o = first(a)
    except Exception as e:
        return "err " + kind(e), str(e).replace("\n", " | ")[:300], None
    out = ["ok"]
    for prop in PROPS[:dim - 1]:
        c = getattr(o, prop, None)
        if c is None:
            return "<no " + prop + " on " + type(o).__name__ + ">", None, type(o).__name__
        out.append(sysname(c, "Object"))
        out += [num(v) for v in c.elements]
    extra = [p for p in PROPS[dim - 1:] if hasattr(o, p)]
    if extra:
        out.append("<also " + ",".join(extra) + ">")
    return " ".join(out), None, type(o).__name__

def main():
    cases = json.load(sys.stdin)
    res = []
    for c in cases:
        rec = {}
        try:
            a = ak.zip({n: numpy.array([v, v + 100], dtype=NP[d]) for n, v, d in c["fields"]}, with_name=c["name"]) if c["fields"] \
                else ak.Array([{}, {}], with_name=c["name"])
            rec["cls"] = type(a).__name__
        except Exception as e:
            res.append({"build": f"{type(e).__name__}: {e}"[:200]})
            continue
        rec["array"] = interp(a, c["dim"], True, c["mom"], c["attrs"])
        try:
            r0 = a[0]
            rec["rcls"] = type(r0).__name__
            rec["record"] = interp(r0, c["dim"], False, c["mom"], c["attrs"])
        except Exception as e:
            rec["record"] = ("err " + kind(e), str(e)[:100], [])
        if c["compile"]:
            rec["nb"] = compiled(a, c["dim"])
        res.append(rec)
    json.dump(res, sys.stdout)

main()
'''


def start_worker(cases):
    payload = json.dumps([{"name": c.record_name(), "mom": c.mom, "dim": c.dim, "fields": c.fields, "compile": c.compile, "attrs": c.attrs} for c in cases])
    p = subprocess.Popen([sys.executable, "-c", WORKER], stdin=subprocess.PIPE, stdout=subprocess.PIPE, stderr=subprocess.PIPE, text=True,
                         env=dict(os.environ))
    p.stdin.write(payload)
    p.stdin.close()
    return p


def finish_worker(p, n, timeout):
    try:
        out = p.stdout.read()
        err = p.stderr.read()
        p.wait(timeout=timeout)
    except subprocess.TimeoutExpired:
        p.kill()
        raise RuntimeError("fields worker timed out")
    if p.returncode != 0:
        raise RuntimeError("fields worker failed: " + err[-800:])
    res = json.loads(out)
    if len(res) != n:
        raise RuntimeError(f"fields worker: {n} cases, {len(res)} answers")
    return res


# ------------------------------------------------------------------------------------------------ comparison
def mismatch_kind(real, model):
    rt, mt = real.split(), model.split()
    if rt[0] == "err" or mt[0] == "err":
        return "error" if rt[0] != mt[0] else "error-kind"
    rs = [t for t in rt if not t.lstrip("-").isdigit()]
    ms = [t for t in mt if not t.lstrip("-").isdigit()]
    return "system" if rs != ms else "values"


def run(ctx):
    from harness import leanio
    t0 = time.time()
    cases = generate(ctx)
    worker = start_worker(cases)
    lines, where = [], []
    for i, c in enumerate(cases):
        lines.append(c.line("read"))
        where.append((i, "read"))
        if c.compile:
            lines.append(c.line("nb"))
            where.append((i, "nb"))
            lines.append(c.line("nbv"))
            where.append((i, "nbv"))
    try:
        got = leanio.run_driver("Fields", lines, build=["VectorModel.Glue.Fields"])
    except Exception:
        worker.kill()
        raise
    t_driver = time.time() - t0
    model = [{} for _ in cases]
    for (i, view), ans in zip(where, got):
        model[i][view] = ans
    real = finish_worker(worker, len(cases), 3600 if ctx.tier != "quick" else 600)
    stats = {"requests": len(lines), "records": len(cases), "by_family": {}, "compiled_cases": 0, "compiled_types": len({c.typekey() for c in cases if c.compile}),
             "compiled_ok": 0, "errors_agreed": 0, "interpreter_views": 0, "views_with_equal_attribute_reads": 0, "systems_seen": set(),
             "compiled_differs_from_interpreted": 0, "compiled_differs_minimal": None, "dtype_conflicts": 0, "seconds_driver": round(t_driver, 1)}
    fails = {}

    def fail(key, c, text):
        fails.setdefault(key, []).append((len(c.fields), len(c.token()), c, text))

    expect_cls = lambda c, kind: ("Momentum" if c.mom else "Vector") + kind + f"{c.dim}D"   # noqa: E731
    for c, m, rl in zip(cases, model, real):
        stats["by_family"][c.fam] = stats["by_family"].get(c.fam, 0) + 1
        if "build" in rl:
            fail("fields:build", c, f"cannot build the record: {rl['build']}")
            continue
        if rl.get("cls") != expect_cls(c, "Array"):
            fail("fields:class", c, f"the array is a {rl.get('cls')}, not a {expect_cls(c, 'Array')}")
        for view in ("array", "record"):
            ans, etext, bad = rl[view]
            stats["interpreter_views"] += 1
            if ans != m["read"]:
                fail(f"fields:interpreter-{view}:{mismatch_kind(ans, m['read'])}", c,
                     f"the interpreter ({view}) gives `{ans}`{' (' + etext + ')' if etext else ''}, the model `{m['read']}`; driver request `{c.line('read')}`")
            else:
                stats["errors_agreed"] += ans.startswith("err ")
                if ans.startswith("ok"):
                    stats["systems_seen"].add(tuple(t for t in ans.split()[1:] if not t.lstrip("-").isdigit()))
            for b in bad:
                fail(f"fields:interpreter-{view}:attribute", c, f"the interpreter ({view}) read {b}")
            stats["views_with_equal_attribute_reads"] += 1 if c.attrs and not bad and ans.startswith("ok") else 0
        if c.compile:
            ans, etext, ocls = rl["nb"]
            stats["compiled_cases"] += 1
            stats["compiled_ok"] += ans.startswith("ok")
            if ans != m["nb"]:
                fail(f"fields:compiled:{mismatch_kind(ans, m['nb'])}", c,
                     f"numba.njit(lambda a: a[0])(a) gives `{ans}`{' (' + etext + ')' if etext else ''}, the model `{m['nb']}`; driver request `{c.line('nb')}`")
            elif ans.startswith("err "):
                stats["errors_agreed"] += 1
            if ocls is not None and ocls != expect_cls(c, "Object"):
                fail("fields:compiled:class", c, f"the compiled code returns a {ocls}, not a {expect_cls(c, 'Object')}")
            if m["nb"] != m["nbv"]:
                stats["dtype_conflicts"] += 1
            # compiled = interpreted (C07), up to the exception class; recorded, and explained by the model (`c14f_numba_dtype_*`)
            norm = lambda s: "err" if s.startswith("err ") else s   # noqa: E731
            if norm(ans) != norm(rl["array"][0]):
                stats["compiled_differs_from_interpreted"] += 1
                cur = stats["compiled_differs_minimal"]
                if cur is None or (len(c.fields), len(c.token())) < cur[0]:
                    stats["compiled_differs_minimal"] = ((len(c.fields), len(c.token())), f"{c.describe()}: interpreter `{rl['array'][0]}`, compiled `{ans}`")
    stats["systems_seen"] = len(stats["systems_seen"])
    if stats["compiled_differs_minimal"]:
        stats["compiled_differs_minimal"] = stats["compiled_differs_minimal"][1]
    stats["seconds"] = round(time.time() - t0, 1)
    problems = []
    for key in sorted(fails):
        lst = sorted(fails[key], key=lambda t: t[:2])
        _, _, c, text = lst[0]
        problems.append((key, f"{c.describe()} [{c.fam}]: {text}; {len(lst)} record(s) of this kind disagree"))
    return problems, stats


if __name__ == "__main__":
    class _Ctx:
        seed = int(sys.argv[1]) if len(sys.argv) > 1 else 1
        tier = sys.argv[2] if len(sys.argv) > 2 else "quick"
    sys.path[:0] = [os.path.dirname(os.path.dirname(os.path.abspath(__file__)))]
    t0 = time.time()
    p, s = run(_Ctx)
    for k, d in p:
        print(k, "::", d)
    print(len(p), "problems;", s, "; %.1f s" % (time.time() - t0))
