"""Shared harness utilities: signature lattices, object-backend families running the
REAL public API on non-float scalars (tracer nodes, mpmath numbers), operand strata.

No change to /repo is needed: a family is a set of subclasses of the real
`VectorObject{2,3,4}D` / `MomentumObject{2,3,4}D` with a different `lib` attribute and
re-linked ProjectionClass*/GenericClass/MomentumClass, so every method of the real
classes (dispatch, _wrap_result, conversions, operators, setters) runs unchanged.
"""
from __future__ import annotations

import itertools
import os
import random
import sys

VERIF = os.path.dirname(os.path.dirname(os.path.abspath(__file__)))
sys.path.insert(0, os.path.join(VERIF, "tools"))

import vector  # noqa: E402
from vector.backends import object as O  # noqa: E402

AZ = ("xy", "rhophi")
LON = ("z", "theta", "eta")
TMP = ("t", "tau")
SIG2 = [(a,) for a in AZ]
SIG3 = [(a, l) for a in AZ for l in LON]
SIG4 = [(a, l, t) for a in AZ for l in LON for t in TMP]
SIGS = {2: SIG2, 3: SIG3, 4: SIG4}
ALLSIGS = SIG2 + SIG3 + SIG4
AZNAMES = {"xy": ("x", "y"), "rhophi": ("rho", "phi")}
AZCLS = {"xy": O.AzimuthalObjectXY, "rhophi": O.AzimuthalObjectRhoPhi}
LONCLS = {"z": O.LongitudinalObjectZ, "theta": O.LongitudinalObjectTheta, "eta": O.LongitudinalObjectEta}
TMPCLS = {"t": O.TemporalObjectT, "tau": O.TemporalObjectTau}
COORDCLS_NAME = {
    "AzimuthalObjectXY": "xy", "AzimuthalObjectRhoPhi": "rhophi", "LongitudinalObjectZ": "z",
    "LongitudinalObjectTheta": "theta", "LongitudinalObjectEta": "eta", "TemporalObjectT": "t",
    "TemporalObjectTau": "tau",
}


def signames(sig):
    out = list(AZNAMES[sig[0]])
    out += list(sig[1:])
    return out


_BASES = (O.VectorObject2D, O.MomentumObject2D, O.VectorObject3D, O.MomentumObject3D,
          O.VectorObject4D, O.MomentumObject4D)


def family(lib, prefix):
    """subclasses of the real object classes computing with `lib`"""
    fam = {}
    for base in _BASES:
        fam[base.__name__] = type(prefix + base.__name__, (base,),
                                  {"lib": lib, "__slots__": (), "__module__": "vector.backends.object"})
    for nm, cls in fam.items():
        d = nm[-2:]
        fl = "Momentum" if nm.startswith("Momentum") else "Vector"
        for k in ("2D", "3D", "4D"):
            setattr(cls, "ProjectionClass" + k, fam[fl + "Object" + k])
        cls.GenericClass = fam["VectorObject" + d]
        cls.MomentumClass = fam["MomentumObject" + d]
    return fam


FLOATFAM = {b.__name__: b for b in _BASES}


def make(fam, flavor, sig, coords):
    """vector of family `fam` storing `coords` (list) verbatim under signature `sig`; flavor 'g'|'m'"""
    cls = fam[("Momentum" if flavor == "m" else "Vector") + f"Object{len(sig) + 1}D"]
    az = AZCLS[sig[0]](coords[0], coords[1])
    if len(sig) == 1:
        return cls(azimuthal=az)
    lon = LONCLS[sig[1]](coords[2])
    if len(sig) == 2:
        return cls(azimuthal=az, longitudinal=lon)
    return cls(azimuthal=az, longitudinal=lon, temporal=TMPCLS[sig[2]](coords[3]))


def sig_of(v):
    s = [COORDCLS_NAME[type(v.azimuthal).__name__]]
    if hasattr(v, "longitudinal"):
        s.append(COORDCLS_NAME[type(v.longitudinal).__name__])
    if hasattr(v, "temporal"):
        s.append(COORDCLS_NAME[type(v.temporal).__name__])
    return tuple(s)


def stored(v):
    c = list(v.azimuthal.elements)
    if hasattr(v, "longitudinal"):
        c += list(v.longitudinal.elements)
    if hasattr(v, "temporal"):
        c += list(v.temporal.elements)
    return c


# ----------------------------------------------------------------------------- mpmath family
_mp = None


def mpfam(dps=50):
    """(family, mp module) — object classes whose `lib` is an mpmath adapter at `dps` digits"""
    global _mp
    import mpmath as mp
    mp.mp.dps = dps
    if _mp is not None:
        return _mp, mp

    class MpLib:
        pi = mp.pi
        inf = mp.inf
        nan = mp.nan

        def __eq__(self, o):
            return isinstance(o, MpLib)

        def __ne__(self, o):
            return not isinstance(o, MpLib)

        __hash__ = None
        sqrt = staticmethod(lambda a: mp.sqrt(a) if a >= 0 else mp.nan)
        sin = staticmethod(mp.sin)
        cos = staticmethod(mp.cos)
        tan = staticmethod(mp.tan)
        exp = staticmethod(mp.exp)
        log = staticmethod(lambda a: mp.log(a) if a > 0 else (mp.nan if a < 0 else -mp.inf))
        sinh = staticmethod(mp.sinh)
        arcsinh = staticmethod(mp.asinh)
        arctan = staticmethod(mp.atan)
        arctan2 = staticmethod(mp.atan2)
        arccos = staticmethod(lambda a: mp.acos(a) if -1 <= a <= 1 else mp.nan)
        absolute = staticmethod(abs)
        sign = staticmethod(lambda a: mp.sign(a))
        copysign = staticmethod(lambda a, b: abs(a) if b >= 0 else -abs(a))
        maximum = staticmethod(lambda a, b: max(a, b))
        minimum = staticmethod(lambda a, b: min(a, b))

        @staticmethod
        def nan_to_num(x, nan=0.0, posinf=None, neginf=None):
            if mp.isnan(x):
                return nan
            if x == mp.inf and posinf is not None:
                return posinf
            if x == -mp.inf and neginf is not None:
                return neginf
            return x

        @staticmethod
        def isclose(a, b, rtol=1e-5, atol=1e-8, equal_nan=False):
            return abs(a - b) <= atol + rtol * abs(b)

    _mp = family(MpLib(), "Mp")
    return _mp, mp


class SafeDiv:
    """mpmath raises ZeroDivisionError; numpy gives inf/nan. The searches avoid singular strata."""


def from_cart(fam, flavor, sig, c, m):
    """vector of signature `sig` denoting Cartesian components c=(x,y[,z[,t]]); m = math-like module (mpmath or math)"""
    x, y = c[0], c[1]
    rho = m.sqrt(x * x + y * y)
    coords = [x, y] if sig[0] == "xy" else [rho, m.atan2(y, x)]
    if len(sig) >= 2:
        z = c[2]
        mag = m.sqrt(x * x + y * y + z * z)
        coords.append(z if sig[1] == "z" else m.acos(z / mag) if sig[1] == "theta" else m.asinh(z / rho))
        if len(sig) == 3:
            t = c[3]
            if sig[2] == "t":
                coords.append(t)
            else:
                s = t * t - mag * mag
                coords.append(m.sqrt(s) if s >= 0 else -m.sqrt(-s))
    return make(fam, flavor, sig, coords)


def cart(v):
    c = [v.x, v.y]
    if hasattr(v, "longitudinal"):
        c.append(v.z)
    if hasattr(v, "temporal"):
        c.append(v.t)
    return c


def rng(seed, salt=""):
    return random.Random(f"{seed}:{salt}")


def strata_points(dim, r, n_random=4, timelike=True):
    """stratified Cartesian operand values (floats): every sign pattern of x,y,z, near-axis, near-cone, plus random"""
    pts = []
    signs = list(itertools.product((1, -1), repeat=min(dim, 3)))
    for sg in signs:
        base = [sg[0] * r.uniform(0.3, 3), sg[1] * r.uniform(0.3, 3)]
        if dim >= 3:
            base.append(sg[2] * r.uniform(0.3, 3))
        pts.append(base)
    # near-axis (small rho), large |eta|
    if dim >= 3:
        pts.append([1e-3 * r.uniform(1, 2), -1e-3 * r.uniform(1, 2), r.uniform(1, 2)])
        pts.append([r.uniform(1, 2), r.uniform(1, 2), 1e-4])
    for _ in range(n_random):
        pts.append([r.uniform(-5, 5) for _ in range(min(dim, 3))])
    if dim == 4:
        out = []
        for i, p in enumerate(pts):
            mag = sum(q * q for q in p) ** 0.5
            f = (1.0 + 1e-3) if i % 5 == 4 else r.uniform(1.1, 3.0)     # near light cone every fifth
            out.append(p + [mag * f])
        return out
    return pts


# ----------------------------------------------------------------------------- array backends
MOMNAME = {"x": "px", "y": "py", "rho": "pt", "phi": "phi", "z": "pz", "theta": "theta", "eta": "eta",
           "t": "E", "tau": "mass"}


# field under which vector.zip / vector.Array store a momentum-spelled coordinate
MOMNAME_INV = {"px": "x", "py": "y", "pt": "rho", "pz": "z", "E": "t", "e": "t", "energy": "t", "M": "tau", "m": "tau", "mass": "tau"}


def field_names(flavor, sig):
    n = signames(sig)
    return [MOMNAME[c] for c in n] if flavor == "m" else n


def np_array(flavor, sig, rows):
    """NumPy vector array whose element i stores rows[i] verbatim"""
    import numpy
    names = field_names(flavor, sig)
    return vector.array({nm: numpy.array([float(r[j]) for r in rows], dtype=numpy.float64) for j, nm in enumerate(names)})


def ak_array(flavor, sig, rows):
    """Awkward vector array (vector.zip) whose element i stores rows[i] verbatim"""
    import numpy
    names = field_names(flavor, sig)
    return vector.zip({nm: numpy.array([float(r[j]) for r in rows], dtype=numpy.float64) for j, nm in enumerate(names)})


def obj_vec(flavor, sig, row):
    return make(FLOATFAM, flavor, sig, [float(x) for x in row])


def cart_to_stored(sig, c):
    """stored float coordinates under `sig` of the vector with Cartesian components c"""
    import math
    return stored(from_cart(FLOATFAM, "g", sig, [float(x) for x in c], math))
