"""C06 — constructors accept the documented coordinate sets and store them verbatim.

Exhaustive correspondence of the Lean constructor model (Glue/Ctor.lean via Driver/Ctor.lean) with the real constructors over
every subset of up to 5 of the 19 recognised names (quick: all subsets of size <= 3 plus a seeded sample of sizes 4-5; thorough: all
16 663 subsets), for vector.obj, the six object classes, vector.array, vector.zip and vector.Array.  Every name gets a distinct
value, so the stored coordinates reveal which supplied name filled which slot.
"""
from __future__ import annotations

import itertools

import numpy

import vector
from harness import common as C
from harness import leanio

PROPERTY = "C06"
BEHAVIOR_INPUT_CODE = r"""
import sys, json
sys.path.insert(0, %r); sys.path.insert(0, %r)
import numpy, awkward as ak, vector
out, n = [], 0
def desc(v):
    return [type(v).__name__, v.layout.purelist_parameter("__record__"), ak.fields(v), ak.to_list(v)]
cases = [([{"x": 1.0, "y": 2.0}, {"x": 3.0, "y": 4.0}], "Vector2D"), ([{"px": 1.0, "py": 2.0, "pz": 3.0, "charge": 1}], "Momentum3D"),
         ([[{"pt": 1.0, "phi": 2.0, "eta": 0.5, "mass": 4.0}], []], "Momentum4D"), ([{"rho": 1.0, "phi": 2.0, "theta": 0.5, "tau": 4.0, "q": 2}], "Vector4D")]
for data, rname in cases:
    plain = ak.Array(data)
    want = desc(vector.Array(plain))
    for bname, beh in (("private mapping", {"my-private-key": 1}), ("empty mapping", {}), ("mapping with a Vector override", {("*", "MyRecord"): ak.Record})):
        a = ak.Array(data, behavior=beh)
        forms = {"vector.Array(array)": lambda: vector.Array(a), "vector.awk(array)": lambda: vector.awk(a), "vector.zip(fields of array)": lambda: vector.zip({f: a[f] for f in ak.fields(a)}),
                 "vector.Array(list, behavior=)": lambda: vector.Array(data, behavior=beh)}
        for fname, f_ in forms.items():
            n += 1
            try:
                got = desc(f_())
            except Exception as e:
                out.append(["behavior-input-raises:" + fname, "%%s on a %%s input carrying its own behavior (%%s) raises %%s: %%s (without a behavior it gives %%s)" %% (fname, rname, bname, type(e).__name__, str(e)[:80], want[:3])])
                continue
            if got[1:] != want[1:] or not isinstance(f_(), vector.backends.awkward.VectorAwkward):
                out.append(["behavior-input:" + fname, "%%s on a %%s input carrying its own behavior (%%s) gives %%s; without a behavior %%s" %% (fname, rname, bname, got, want)])
            else:
                try:
                    r = f_()
                    ok = abs(float(ak.flatten(r.rho if hasattr(r, "rho") else r.pt, axis=None)[0])) >= 0
                except Exception as e:
                    out.append(["behavior-input-method:" + fname, "%%s on a %%s input carrying its own behavior (%%s): reading rho raises %%s" %% (fname, rname, bname, type(e).__name__)])
print("JSON" + json.dumps([out, n]))
"""
BEHAVIOR_INPUT_REPLAY = ("import sys; sys.path.insert(0, %r); sys.path.insert(0, %r)\nfrom harness import c06\nbad, n = c06.behavior_input_probe()\nassert not bad, bad[0][1]\n"
                         % (C.VERIF, C.VERIF + "/tools"))


def behavior_input_probe():
    import json
    import subprocess
    import sys
    p = subprocess.run([sys.executable, "-c", BEHAVIOR_INPUT_CODE % (C.VERIF, C.VERIF + "/tools")], capture_output=True, text=True, timeout=600)
    line = [l for l in p.stdout.splitlines() if l.startswith("JSON")]
    if not line:
        raise RuntimeError("behavior input probe failed: " + p.stderr[-400:])
    out, n = json.loads(line[0][4:])
    seen, res = set(), []
    for k, d in out:
        if k not in seen:
            seen.add(k)
            res.append((k, d))
    return res, n

LEAN_TARGETS = ["VectorModel.Props.C06"]
THEOREM_FILES = ["VectorModel/Props/C06.lean"]
NEEDS_TRANSLATOR = False
NOT_COVERED = ["value kinds beyond int / float / NumPy scalar / bool / str (sampled)"]
NAMES = ["x", "px", "y", "py", "rho", "pt", "phi", "z", "pz", "theta", "eta", "t", "E", "e", "energy", "tau", "M", "m", "mass"]
VAL = {n: float(i) + 1.5 for i, n in enumerate(NAMES)}
BYVAL = {v: n for n, v in VAL.items()}
CTORS = ["obj", "Vector2D", "Vector3D", "Vector4D", "Momentum2D", "Momentum3D", "Momentum4D", "array", "zip", "Array"]
GEN = {"px": "x", "py": "y", "pt": "rho", "pz": "z", "E": "t", "e": "t", "energy": "t", "M": "tau", "m": "tau", "mass": "tau"}


def describe_obj(v):
    fl = "m" if isinstance(v, vector.Momentum) else "g"
    sig = C.sig_of(v)
    slots = [BYVAL.get(float(x), "?") for x in C.stored(v)]
    return f"ok {fl} {len(sig) + 1} {sig[0]} {sig[1] if len(sig) > 1 else '-'} {sig[2] if len(sig) > 2 else '-'} | {','.join(slots)} | -"


def describe_array(a, fields, getcol):
    import vector._methods as M
    names = {M.AzimuthalXY: "xy", M.AzimuthalRhoPhi: "rhophi", M.LongitudinalZ: "z", M.LongitudinalTheta: "theta",
             M.LongitudinalEta: "eta", M.TemporalT: "t", M.TemporalTau: "tau"}
    fl = "m" if isinstance(a, vector.Momentum) else "g"
    dim = 2 if isinstance(a, vector.Vector2D) else 3 if isinstance(a, vector.Vector3D) else 4 if isinstance(a, vector.Vector4D) else 0
    if dim == 0:
        return "TypeError"
    sig = [names[M._aztype(a)]] + ([names[M._ltype(a)]] if dim >= 3 else []) + ([names[M._ttype(a)]] if dim >= 4 else [])
    slots, used = [], []
    for g in C.signames(tuple(sig)):
        f = [c for c in fields if GEN.get(c, c) == g][0]
        used.append(f)
        slots.append(BYVAL.get(float(getcol(f)), "?"))
    extra = [BYVAL.get(float(getcol(f)), f) for f in fields if f not in used]
    return f"ok {fl} {dim} {sigstr(tuple(sig))} | {','.join(slots)} | {','.join(extra) if extra else '-'}"


def sigstr(sig):
    return f"{sig[0]} {sig[1] if len(sig) > 1 else '-'} {sig[2] if len(sig) > 2 else '-'}"


def real(ctor, names):
    kw = {n: VAL[n] for n in names}
    try:
        if ctor == "obj":
            return describe_obj(vector.obj(**kw))
        if ctor[:-2] in ("Vector", "Momentum"):
            cls = getattr(vector, ("MomentumObject" if ctor.startswith("Momentum") else "VectorObject") + ctor[-2:])
            return describe_obj(cls(**kw))
        if ctor == "array":
            a = vector.array({n: numpy.array([VAL[n]]) for n in names})
            return describe_array(a, list(a.dtype.names), lambda f: a.view(numpy.ndarray)[f][0])
        import awkward as ak
        if ctor == "zip":
            a = vector.zip({n: numpy.array([VAL[n]]) for n in names})
        else:
            a = vector.Array([{n: VAL[n] for n in names}])
        return describe_array(a, ak.fields(a), lambda f: ak.to_list(a[f])[0])
    except TypeError:
        return "TypeError"
    except Exception as e:  # noqa: BLE001
        return type(e).__name__


def subsets(r, tier):
    out = []
    for k in range(0, 6):
        combos = list(itertools.combinations(NAMES, k))
        if tier == "quick" and k >= 4:
            combos = r.sample(combos, 600 if k == 4 else 400)
        out += combos
    return out


def documented_sets():
    """the 222 documented name sets in every momentum spelling"""
    out = []
    for az in [(a, b) for a in ("x", "px") for b in ("y", "py")] + [("rho", "phi"), ("pt", "phi")]:
        out.append(az)
        for lon in ("z", "pz", "theta", "eta"):
            out.append(az + (lon,))
            for tmp in ("t", "E", "e", "energy", "tau", "M", "m", "mass"):
                out.append(az + (lon, tmp))
    return out


def correspondence(ctx):
    r = C.rng(ctx.seed, "c06")
    sets = subsets(r, ctx.tier)
    reqs, reals = [], []
    for s in documented_sets():          # every documented set through every constructor, in every tier
        for c in CTORS:
            reqs.append(f"{c} {','.join(s)}")
            reals.append(real(c, s))
    # every documented set PLUS ONE more recognised name (a second spelling of a coordinate it already has, a second coordinate of a group,
    # a coordinate of a missing group): vector.obj and the object class of the resulting size, in every tier
    seen_plus = set()
    for s in documented_sets():
        for extra in NAMES:
            if extra in s:
                continue
            sp = tuple(sorted(s + (extra,)))
            if sp in seen_plus:
                continue
            seen_plus.add(sp)
            for c in ("obj", r.choice(CTORS[1:7])):
                reqs.append(f"{c} {','.join(s + (extra,))}")
                reals.append(real(c, s + (extra,)))
    for s in sets:
        for c in (CTORS if len(s) <= 3 or ctx.tier == "thorough" else ["obj", r.choice(CTORS[1:7]), r.choice(CTORS[7:])]):
            if not s and c != "obj":
                continue
            reqs.append(f"{c} {','.join(s) if s else '-'}")
            reals.append(real(c, s))
    model = leanio.run_driver("Ctor", reqs, build=["VectorModel.Glue.Ctor"])
    bad = [(q, a, b) for q, a, b in zip(reqs, reals, model) if a != b]
    dis = [f"{q}: real `{a}` model `{b}`" for q, a, b in bad[:12]]
    fails = [{"key": "ctor:" + q, "what": f"constructor request `{q}`: real code `{a}`, model `{b}`", "code": replay(q, b)} for q, a, b in bad[:4]]
    # value kinds: bool / str / None rejected, ints and NumPy scalars accepted, values unchanged
    kinds = 0
    import decimal
    import fractions
    for good in ({"x": 1, "y": 2}, {"x": numpy.float64(1.5), "y": numpy.int64(2)}, {"rho": 1.5, "phi": 2, "eta": 3.0, "mass": 4},
                 {"x": numpy.float32(0.5), "y": numpy.uint8(3), "z": numpy.int16(-2)}, {"px": fractions.Fraction(1, 4), "py": 2, "pz": numpy.float16(1.5), "E": 7}):
        kinds += 1
        try:
            v = vector.obj(**good)
            if [float(x) for x in C.stored(v)] != [float(x) for x in good.values()]:
                dis.append(f"vector.obj({good}) stores {C.stored(v)}")
        except Exception as e:  # noqa: BLE001
            dis.append(f"vector.obj({good}) raises {type(e).__name__}")
    # rejected kinds: everything that is not a real number, and booleans of either library (the guard is `numbers.Real and not bool`)
    for badv in (True, "1", None, [1.0], numpy.bool_(True), 1 + 2j, numpy.complex128(1 + 2j), numpy.complex64(2j), numpy.str_("1"), decimal.Decimal("1.5"),
                 numpy.array([1.0]), (1.0,), b"1", numpy.datetime64("2020-01-01")):
        for ctor in (lambda b: vector.obj(x=b, y=1.0), lambda b: vector.VectorObject2D(x=1.0, y=b),
                     lambda b: vector.VectorObject3D(x=1.0, y=2.0, z=b), lambda b: vector.MomentumObject4D(px=1.0, py=2.0, pz=3.0, E=b)):
            kinds += 1
            try:
                ctor(badv)
                dis.append(f"constructor accepts the non-numeric value {badv!r}")
                fails.append({"key": f"value-kind:{type(badv).__name__}", "what": dis[-1], "code": (
                    "import vector, numpy, decimal\nbad = %s\nfor f in (lambda b: vector.obj(x=b, y=1.0), lambda b: vector.VectorObject2D(x=1.0, y=b), "
                    "lambda b: vector.MomentumObject4D(px=1.0, py=2.0, pz=3.0, E=b)):\n    try:\n        v = f(bad)\n    except TypeError:\n        continue\n"
                    "    raise AssertionError('constructor accepts the value %%r of type %%s: %%r' %% (bad, type(bad).__name__, v))\n"
                    % ({"bool_": "numpy.bool_(True)", "complex128": "numpy.complex128(1+2j)", "complex64": "numpy.complex64(2j)", "str_": "numpy.str_('1')",
                        "Decimal": "decimal.Decimal('1.5')", "ndarray": "numpy.array([1.0])", "datetime64": "numpy.datetime64('2020-01-01')"}.get(type(badv).__name__, repr(badv))))})
            except TypeError:
                pass
            except Exception as e:  # noqa: BLE001
                dis.append(f"constructor raises {type(e).__name__} (not TypeError) for value {badv!r}")
    # from_<system>() classmethods of the six object classes: positional values stored verbatim in the named system
    n_from = 0
    for dim in (2, 3, 4):
        for fl, cname in (("g", f"VectorObject{dim}D"), ("m", f"MomentumObject{dim}D")):
            cls = getattr(vector, cname)
            for sig in C.SIGS[dim]:
                meth = "from_" + "".join(C.signames(sig))
                vals = [1.25 + 0.5 * j for j in range(dim)]
                n_from += 1
                try:
                    v = getattr(cls, meth)(*vals)
                    ok = type(v) is cls and C.sig_of(v) == tuple(sig) and [float(x) for x in C.stored(v)] == vals
                    why = f"returns {v!r}"
                except Exception as e:  # noqa: BLE001
                    ok, why = False, f"raises {type(e).__name__}: {str(e)[:60]}"
                if not ok:
                    dis.append(f"{cname}.{meth}{tuple(vals)} {why}")
                    fails.append({"key": f"from-classmethod:{cname}.{meth}", "what": dis[-1], "code": (
                        "import vector\nv = vector.%s.%s(*%r)\nimport sys; sys.path.insert(0, %r)\nfrom harness import common as C\n"
                        "assert type(v) is vector.%s and C.sig_of(v) == %r and [float(x) for x in C.stored(v)] == %r, repr(v)\n"
                        % (cname, meth, vals, C.VERIF, cname, tuple(sig), vals))})
    kinds += n_from
    # Awkward constructors on inputs with MISSING values in single fields, jagged nesting and extra fields: every supplied value (and
    # every None) is stored exactly where it was given, and vector.Array / vector.awk / vector.zip agree with each other
    import awkward as ak
    n_missing = 0
    for names, extra in ((("x", "y"), ()), (("rho", "phi", "eta"), ("charge",)), (("px", "py", "pz", "E"), ("q", "flag")), (("pt", "phi", "theta", "mass"), ())):
        for layout in ("flat", "jagged"):
            recs = []
            for i in range(5):
                rec = {nm: (None if (i + j) % 4 == 1 else 0.5 + i + 0.25 * j) for j, nm in enumerate(names)}
                rec.update({e_: (None if i == 3 else i) for e_ in extra})
                recs.append(rec)
            recs[2] = None if layout == "flat" else recs[2]          # a wholly missing record too
            data = recs if layout == "flat" else [recs[:2], [], recs[2:]]
            src = ak.Array(data)
            want = {f: ak.to_list(src[f]) for f in list(names) + list(extra)}
            built = {"vector.Array(list)": lambda: vector.Array(data), "vector.awk(ak.Array)": lambda: vector.awk(src),
                     "vector.zip(fields)": lambda: vector.zip({f: src[f] for f in list(names) + list(extra)})}
            for bname, f_ in built.items():
                n_missing += 1
                try:
                    arr = f_()
                    got = {}
                    for f in list(names) + list(extra):
                        g = C.MOMNAME_INV.get(f, f) if f not in ak.fields(arr) else f
                        got[f] = ak.to_list(arr[g])
                    ok = got == want and isinstance(arr, vector.backends.awkward.VectorAwkward)
                    why = f"stores {({k: v for k, v in got.items() if v != want[k]})}, given {({k: want[k] for k, v in got.items() if v != want[k]})}"
                except Exception as e:  # noqa: BLE001
                    ok, why = False, f"raises {type(e).__name__}: {str(e)[:80]}"
                if not ok:
                    dis.append(f"{bname} on {layout} records {names}+{extra} with missing single fields: {why}"[:400])
                    fails.append({"key": f"missing-values:{bname}", "what": dis[-1], "code": None})
    kinds += n_missing
    # Awkward constructors on inputs that CARRY THEIR OWN behavior mapping, in a fresh interpreter without register_awkward(): same class,
    # record name, fields and values as the same input without a behavior
    bbad, bn = behavior_input_probe()
    kinds += bn
    for k_, d_ in bbad[:3]:
        dis.append(d_[:400])
        fails.append({"key": k_, "what": d_[:400], "code": BEHAVIOR_INPUT_REPLAY})
    # the INPUT FORMS of vector.array agree with each other: dict of columns (arrays or lists), records + dtype= keyword, records + dtype
    # as the second positional argument (numpy.array's signature), and the VectorNumpy/MomentumNumpy classes called directly
    n_forms = 0
    for names in documented_sets():
        rows = [tuple(VAL[n] + 0.5 * i for n in names) for i in range(3)]
        dt = [(n, numpy.float64) for n in names]
        ref = vector.array({n: numpy.array([row[j] for row in rows]) for j, n in enumerate(names)})
        want = (type(ref).__name__, tuple(ref.dtype.names), ref.view(numpy.ndarray).tolist())
        dim = len(names)
        mom = type(ref).__name__.startswith("Momentum")
        direct = getattr(vector, ("MomentumNumpy" if mom else "VectorNumpy") + f"{dim}D")
        forms = {"dict of lists": lambda: vector.array({n: [row[j] for row in rows] for j, n in enumerate(names)}),
                 "records, dtype= keyword": lambda: vector.array(rows, dtype=dt),
                 "records, dtype positional": lambda: vector.array(rows, dt),
                 "records, dtype= numpy.dtype object": lambda: vector.array(rows, dtype=numpy.dtype(dt)),
                 type(ref).__name__ + "(records, dtype=)": lambda: direct(rows, dtype=dt),
                 type(ref).__name__ + "(dict)": lambda: direct({n: numpy.array([row[j] for row in rows]) for j, n in enumerate(names)})}
        for fname, f_ in forms.items():
            n_forms += 1
            try:
                a = f_()
                got = (type(a).__name__, tuple(a.dtype.names), a.view(numpy.ndarray).tolist())
                why = f"gives {got[0]}{list(got[1])} {got[2][:1]}"
            except Exception as e:  # noqa: BLE001
                got, why = None, f"raises {type(e).__name__}: {str(e)[:80]}"
            if got != want:
                dis.append(f"vector.array form `{fname}` with names {names}: {why}; the dict-of-columns form gives {want[0]}{list(want[1])} {want[2][:1]}"[:400])
                fails.append({"key": f"array-form:{fname.split(',')[-1].strip()[:30]}", "what": dis[-1], "code": (
                    "import vector, numpy\nnames = %r\nrows = %r\ndt = [(n, numpy.float64) for n in names]\n"
                    "ref = vector.array({n: numpy.array([r[j] for r in rows]) for j, n in enumerate(names)})\n"
                    "for a in (vector.array(rows, dtype=dt), vector.array(rows, dt)):\n"
                    "    assert type(a) is type(ref) and a.dtype.names == ref.dtype.names and a.tolist() == ref.tolist(), (type(a).__name__, a.dtype.names, type(ref).__name__)\n"
                    % (names, rows))})
                break
    kinds += n_forms
    # the same numpy.dtype OBJECT used for two constructions: same class both times (known finding numpy-dtype-reused on the pinned tree)
    for names in (("px", "py", "pz", "E"), ("pt", "phi"), ("x", "y", "z"), ("pt", "phi", "eta", "mass")):
        dt = numpy.dtype([(n_, numpy.float64) for n_ in names])
        row = [tuple(1.0 + j for j in range(len(names)))]
        try:
            a1, a2 = vector.array(row, dtype=dt), vector.array(row, dtype=dt)
            if type(a1) is not type(a2):
                dis.append(f"numpy-dtype-reused: vector.array with the same dtype object {names} twice: {type(a1).__name__} then {type(a2).__name__}")
                fails.append({"key": "numpy-dtype-reused", "what": dis[-1], "code": None})
                break
        except Exception as e:  # noqa: BLE001
            dis.append(f"vector.array(records, dtype=<dtype object {names}>) raises {type(e).__name__}")
    kinds_dist = {}
    for a in reals:
        kinds_dist[a.split()[0]] = kinds_dist.get(a.split()[0], 0) + 1
    return {"ok": not dis, "disagreements": dis, "failing_inputs": fails,
            "stats": {"traces_validated_against_impl": len(reqs), "name_sets": len(sets), "answers": kinds_dist, "value_kind_probes": kinds},
            "samples": [{"request": reqs[i], "real": reals[i]} for i in (1, len(reqs) // 2, len(reqs) - 1)]}


def replay(q, expected):
    return ("import sys; sys.path.insert(0, %r); sys.path.insert(0, %r)\nfrom harness import c06\n"
            "c, _, n = %r.partition(' ')\ngot = c06.real(c, tuple(n.split(',')) if n != '-' else ())\n"
            "assert got == %r, 'real constructor answers: ' + got\n" % (C.VERIF, C.VERIF + "/tools", q, expected))
