"""C07 — Numba-compiled code behaves like the interpreter.

* typing lattice: numba's typing context is asked (resolve_getattr / resolve_function_type: runs vector's overload code and numba's type inference, no LLVM)
  for the result type of every supported property/method on every operand type pairing; compared EXACTLY with the Lean model of the compiled behaviour
  (`numbaCall`, request kind `J` of the GlueSym driver);
* compile-and-run probes (numba.njit, parallel): values and result type of the compiled function vs the interpreter on the same operands, including chains
  of two or three calls.  Mixed-flavor binary operations are a known finding (numba: momentum only if BOTH operands are).
"""
from __future__ import annotations

import itertools
import os

from harness import common as C
from harness import leanio, symobj

PROPERTY = "C07"
LEAN_TARGETS = ["VectorModel.Props.C07"]
THEOREM_FILES = ["VectorModel/Props/C07.lean"]
NEEDS_TRANSLATOR = True
NOT_COVERED = ["the Numba compiler itself (LLVM code generation): the theorems are about which function is selected and how the result is wrapped",
               "Awkward arrays iterated inside compiled functions: sampled by three compile-and-run probes only"]
PROPS = ["x", "y", "rho", "rho2", "phi", "z", "theta", "eta", "costheta", "cottheta", "mag", "mag2", "t", "t2", "tau", "tau2", "beta", "gamma",
         "rapidity", "px", "py", "pt", "pz", "E", "mass", "Et", "Mt"]
UNARY = [("rotateZ", 1), ("rotateX", 1), ("rotateY", 1), ("scale", 1), ("unit", 0), ("to_xyz", 0), ("to_rhophieta", 0), ("to_xyzt", 0),
         ("to_rhophithetatau", 0), ("to_Vector2D", 0), ("to_Vector3D", 0), ("to_Vector4D", 0), ("is_timelike", 0), ("boostX", 1), ("to_beta3", 0)]
BINARY = ["add", "subtract", "dot", "equal", "not_equal", "isclose", "deltaphi", "deltaR", "deltaangle", "cross", "boost_p4", "boost_beta3", "is_parallel"]


def nbdesc(t):
    import numba
    n = type(t).__name__
    if n.startswith(("VectorObject", "MomentumObject")):
        fl = "m" if n.startswith("Momentum") else "g"
        dim = int(n[-6])
        def nm(x):
            s = str(x).split("(")[0]
            return C.COORDCLS_NAME.get(s, s)
        az = nm(t.azimuthaltype)
        lon = nm(t.longitudinaltype) if dim >= 3 else "-"
        tmp = nm(t.temporaltype) if dim >= 4 else "-"
        return f"-> {fl}{dim} {az} {lon} {tmp}"
    return "-> scalar"


def typing_answer(ctx_, line):
    import numba
    kind, meth, selftok, *rest = line.split()
    v = symobj.mkvec_float(selftok)
    try:
        t = numba.typeof(v)
        at = ctx_.resolve_getattr(t, meth)
        if at is None:
            return "!! AttributeError"
        if type(at).__name__ in ("BoundFunction", "Function", "Dispatcher"):
            argt = []
            for tok in rest:
                argt.append(numba.typeof(symobj.mkvec_float(tok[2:])) if tok.startswith("v=") else numba.float64)
            sig = ctx_.resolve_function_type(at, tuple(argt), {})
            if sig is None:
                return "!! TypingError"
            return nbdesc(sig.return_type)
        return nbdesc(at)
    except Exception as e:  # noqa: BLE001
        return "!! " + ("TypingError" if "Typing" in type(e).__name__ or "numba" in type(e).__module__ else type(e).__name__)


def typing_chunk(lines):
    import vector
    vector.register_numba()
    from numba.core.registry import cpu_target
    tc = cpu_target.typing_context
    tc.refresh()
    return [typing_answer(tc, q) for q in lines]


def model_type(ans):
    if ans.startswith("->") and "::" in ans:
        return ans.split("::")[0].strip()
    if ans.startswith("->"):
        return "-> scalar"
    return ans


def probe_worker(job):
    """compile and run one probe in a fresh process: (source, operands) -> description of (type, values) for njit and interpreter"""
    src, toks = job
    import numba
    import vector
    from harness import symobj as so
    from harness import common as Cm
    ns = {}
    exec(src, ns)
    f = ns["f"]
    args = [so.mkvec_float(t) for t in toks]

    def desc(r):
        if isinstance(r, vector.Vector):
            return (type(r).__name__, Cm.sig_of(r), [float(x) for x in Cm.stored(r)])
        if isinstance(r, tuple):
            return tuple(desc(x) for x in r)
        return ("s", float(r) if not isinstance(r, bool) else bool(r))
    try:
        interp = desc(f(*args))
    except Exception as e:  # noqa: BLE001
        interp = ("raises", type(e).__name__)
    try:
        comp = desc(numba.njit(f)(*args))
    except Exception as e:  # noqa: BLE001
        comp = ("raises", "TypingError" if "Typing" in type(e).__name__ else type(e).__name__)
    return src, toks, interp, comp


AK_PROBES = [
    "def f(a):\n    out = 0.0\n    for ev in a:\n        for v in ev:\n            out += v.rho + v.z + v.t\n    return out\n",
    "def f(a):\n    out = 0.0\n    for ev in a:\n        for i in range(len(ev)):\n            for j in range(i + 1, len(ev)):\n                out += ev[i].add(ev[j]).mass\n    return out\n",
    "def f(a):\n    out = 0.0\n    for ev in a:\n        for v in ev:\n            out += v.rotateZ(0.3).to_xyzt().x + v.deltaR(ev[0])\n    return out\n",
]


def ak_probe_worker(job):
    """Awkward array of vectors iterated inside a compiled function vs the same Python function interpreted"""
    src, sig, seed = job
    import awkward as ak
    import numba
    import vector
    from harness import common as Cm
    vector.register_awkward()
    r = Cm.rng(seed, "akprobe")
    rows = [Cm.cart_to_stored(sig, p) for p in Cm.strata_points(len(sig) + 1, r, n_random=3)[-6:]]
    arr = ak.unflatten(Cm.ak_array("m", sig, rows), [2, 0, 3, 1])
    ns = {}
    exec(src, ns)
    f = ns["f"]
    try:
        i = ("s", float(f(arr)))
    except Exception as e:  # noqa: BLE001
        i = ("raises", type(e).__name__)
    try:
        c = ("s", float(numba.njit(f)(arr)))
    except Exception as e:  # noqa: BLE001
        c = ("raises", type(e).__name__)
    return src, list(sig), i, c


def same(a, b):
    if type(a) is not type(b) or (isinstance(a, tuple) and len(a) != len(b)):
        return False
    if isinstance(a, tuple) and a and a[0] == "s":
        x, y = a[1], b[1]
        return x == y or (x != x and y != y) or abs(x - y) <= 1e-12 * max(1.0, abs(x), abs(y))
    if isinstance(a, tuple) and len(a) == 3 and isinstance(a[2], list):
        return a[0] == b[0] and a[1] == b[1] and all(same(("s", x), ("s", y)) for x, y in zip(a[2], b[2]))
    if isinstance(a, tuple):
        return all(same(x, y) for x, y in zip(a, b))
    return a == b


def correspondence(ctx):
    r = C.rng(ctx.seed, "c07")
    selves = [(fl, s) for fl in "gm" for s in C.ALLSIGS]
    if ctx.tier == "quick":
        selves = r.sample(selves, 12)
    reqs = []
    for fl, s in selves:
        me = symobj.vtoken(fl, s, 1)
        for p in PROPS:
            reqs.append(f"J {p} {me}")
        for m, n in UNARY:
            reqs.append(" ".join(["J", m, me] + ["s=a"] * n))
        others = [(f2, s2) for f2 in "gm" for s2 in C.ALLSIGS]
        for f2, s2 in r.sample(others, 8 if ctx.tier == "quick" else 40):
            for m in BINARY:
                reqs.append(f"J {m} {me} v={symobj.vtoken(f2, s2, 2)}")
    import multiprocessing as mp
    nproc = min(12, os.cpu_count() or 4)
    chunks = [reqs[i::nproc] for i in range(nproc)]
    with mp.get_context("spawn").Pool(nproc) as pool:
        parts = pool.map(typing_chunk, chunks)
    real = [None] * len(reqs)
    for i, part in enumerate(parts):
        real[i::nproc] = part
    model = leanio.run_driver("GlueSym", reqs, build=["VectorModel.Gen.Exec.All", "VectorModel.Exec.Sym", "VectorModel.Glue.Numba"])
    dis, fails = [], []
    unsupported = 0
    for q, a, b in zip(reqs, real, model):
        bt = model_type(b)
        if bt == "!! Unmodelled":
            # method not supported in compiled code according to the model: numba must refuse it too
            unsupported += 1
            if not a.startswith("!!"):
                dis.append(f"{q}: numba types it as {a}, the model says unsupported")
            continue
        if a.startswith("!!") and bt.startswith("!!"):
            continue
        if a != bt:
            dis.append(f"typing {q}: numba {a}, model {bt}")
            fails.append({"key": "numba-typing:" + q.split()[1], "what": dis[-1], "code": None})
    # compile-and-run probes
    jobs = []
    # (source, operand dimensions) — every supported family, operands in independently chosen coordinate systems (same flavor)
    progs = [("def f(v):\n    return v.rotateZ(0.3).rho\n", (0,)), ("def f(v, w):\n    return v.add(w)\n", (0, 0)),
             ("def f(v, w):\n    return v.dot(w)\n", (0, 0)), ("def f(v):\n    return v.to_xyz().scale(2.0)\n", (3,)),
             ("def f(v, w):\n    return v.add(w).unit().phi\n", (0, 0)), ("def f(v):\n    return v.x, v.phi\n", (0,)),
             ("def f(v, w):\n    return v.subtract(w).to_rhophieta().eta\n", (3, 3)), ("def f(v, w):\n    return v.deltaR(w)\n", (3, 3)),
             ("def f(v, w):\n    return v.equal(w)\n", (0, 0)), ("def f(v, w):\n    return v.rotate_axis(w, 0.7)\n", (3, 3)),
             ("def f(v, w):\n    return v.rotate_axis(w, -1.2)\n", (4, 3)), ("def f(v, w):\n    return v.cross(w)\n", (3, 3)),
             ("def f(v, w):\n    return v.boost_p4(w)\n", (4, 4)), ("def f(v, w):\n    return v.boost_beta3(w.to_beta3())\n", (4, 4)),
             ("def f(v, w):\n    return v.deltaangle(w), v.deltaeta(w), v.deltaphi(w)\n", (3, 4)),
             ("def f(v, w):\n    return v.is_parallel(w), v.is_perpendicular(w), v.isclose(w)\n", (3, 3)),
             ("def f(v):\n    return v.rotateX(0.4).rotateY(-0.9).mag\n", (3,)), ("def f(v):\n    return v.boostX(beta=0.3).boostZ(gamma=1.5)\n", (4,)),
             ("def f(v):\n    return v.rotate_euler(0.1, 0.2, 0.3, 'yxz'), v.rotate_quaternion(0.5, 0.5, 0.5, 0.5)\n", (3,)),
             ("def f(v):\n    return v.to_rhophithetatau().tau, v.rapidity, v.gamma, v.Et if False else v.beta\n", (4,)),
             ("def f(v, w):\n    return v.deltaRapidityPhi(w), v.boostCM_of_p4(w).t\n", (4, 4)),
             ("def f(v):\n    return v.to_Vector2D(), v.to_Vector3D(), v.neg3D, v.is_timelike()\n", (4,))]
    reps = 2 if ctx.tier == "quick" else 10
    for src, dims in progs:
        for _ in range(reps):
            fl = r.choice("gm")
            d0 = r.choice((2, 3, 4))
            toks = [symobj.vtoken(fl, r.choice(C.SIGS[d or d0]), i + 1) for i, d in enumerate(dims)]    # same flavor: mixed flavor is the known finding
            jobs.append((src, toks))
    jobs.append(("def f(v, w):\n    return v.add(w)\n", ["g:xy:-:-:1", "m:rhophi:-:-:2"]))       # the known finding, for the record
    with mp.get_context("spawn").Pool(min(12, os.cpu_count() or 4)) as pool:
        results = pool.map(probe_worker, jobs)
        akjobs = [(src, r.choice(C.SIG4), ctx.seed + k) for k, src in enumerate(AK_PROBES)]
        akres = pool.map(ak_probe_worker, akjobs)
    for src, sig, interp, comp in akres:
        if not same(interp, comp):
            dis.append(f"awkward-in-numba probe on {sig}: interpreter {interp}, compiled {comp}: {src.strip()[:80]!r}")
            fails.append({"key": "numba-awkward-probe", "what": dis[-1][:300], "code": None})
    known = 0
    for src, toks, interp, comp in results:
        mixed = len({t[0] for t in toks}) > 1
        if not same(interp, comp):
            if mixed:
                known += 1
                fails.append({"key": "numba-flavor-mixed", "what": "mixed flavor", "code": None})
                continue
            dis.append(f"probe {src.strip()!r} on {toks}: interpreter {interp}, compiled {comp}")
            fails.append({"key": "numba-probe:" + src.split("return")[1].strip()[:30], "what": dis[-1][:300], "code": probe_replay(src, toks)})
    return {"ok": not dis, "disagreements": dis[:12], "failing_inputs": fails[:8],
            "stats": {"traces_validated_against_impl": len(reqs) + len(jobs), "typing_resolutions": len(reqs), "unsupported_by_model": unsupported,
                      "compile_and_run_probes": len(jobs), "awkward_in_numba_probes": len(akjobs), "known_mixed_flavor_probes": known},
            "samples": [{"request": reqs[i], "numba": real[i], "model": model_type(model[i])} for i in (0, len(reqs) // 2, len(reqs) - 1)]}


def probe_replay(src, toks):
    return ("import sys; sys.path.insert(0, %r); sys.path.insert(0, %r)\nfrom harness import c07\n"
            "_, _, i, c = c07.probe_worker((%r, %r))\nassert c07.same(i, c), f'interpreter {i} compiled {c}'\n" % (C.VERIF, C.VERIF + "/tools", src, toks))
