"""C07 — Numba-compiled code behaves like the interpreter.

* typing lattice: numba's typing context is asked (resolve_getattr / resolve_function_type: runs vector's overload code and numba's type inference, no LLVM)
  for the result type of every supported property/method on every operand type pairing; compared EXACTLY with the Lean model of the compiled behaviour
  (`numbaCall`, request kind `J` of the GlueSym driver);
* compile-and-run probes (numba.njit, parallel): values and result type of the compiled function vs the interpreter on the same operands, including chains
  of two or three calls.  Mixed-flavor binary operations are a known finding (numba: momentum only if BOTH operands are).
"""
from __future__ import annotations

import itertools
import os

from harness import common as C
from harness import leanio, symobj

PROPERTY = "C07"
LEAN_TARGETS = ["VectorModel.Props.C07", "VectorModel.Props.MethodBackends", "VectorModel.Props.C14Fields"]
THEOREM_FILES = ["VectorModel/Props/C07.lean", "VectorModel/Props/MethodBackends.lean", "VectorModel/Props/C14Fields.lean"]
NEEDS_TRANSLATOR = True
NOT_COVERED = ["the Numba compiler itself (LLVM code generation): the theorems are about which function is selected and how the result is wrapped",
               "Awkward arrays iterated inside compiled functions: sampled by three compile-and-run probes only"]
PROPS = ["x", "y", "rho", "rho2", "phi", "z", "theta", "eta", "costheta", "cottheta", "mag", "mag2", "t", "t2", "tau", "tau2", "beta", "gamma",
         "rapidity", "px", "py", "pt", "pz", "E", "mass", "Et", "Mt"]
UNARY = [("rotateZ", 1), ("rotateX", 1), ("rotateY", 1), ("scale", 1), ("unit", 0), ("to_xyz", 0), ("to_rhophieta", 0), ("to_xyzt", 0),
         ("to_rhophithetatau", 0), ("to_Vector2D", 0), ("to_Vector3D", 0), ("to_Vector4D", 0), ("is_timelike", 0), ("boostX", 1), ("to_beta3", 0)]
BINARY = ["add", "subtract", "dot", "equal", "not_equal", "isclose", "deltaphi", "deltaR", "deltaangle", "cross", "boost_p4", "boost_beta3", "is_parallel"]


def nbdesc(t):
    import numba
    n = type(t).__name__
    if n.startswith(("VectorObject", "MomentumObject")):
        fl = "m" if n.startswith("Momentum") else "g"
        dim = int(n[-6])
        def nm(x):
            s = str(x).split("(")[0]
            return C.COORDCLS_NAME.get(s, s)
        az = nm(t.azimuthaltype)
        lon = nm(t.longitudinaltype) if dim >= 3 else "-"
        tmp = nm(t.temporaltype) if dim >= 4 else "-"
        return f"-> {fl}{dim} {az} {lon} {tmp}"
    return "-> scalar"


def typing_answer(ctx_, line):
    import numba
    kind, meth, selftok, *rest = line.split()
    v = symobj.mkvec_float(selftok)
    try:
        t = numba.typeof(v)
        at = ctx_.resolve_getattr(t, meth)
        if at is None:
            return "!! AttributeError"
        if type(at).__name__ in ("BoundFunction", "Function", "Dispatcher"):
            argt = []
            for tok in rest:
                argt.append(numba.typeof(symobj.mkvec_float(tok[2:])) if tok.startswith("v=") else numba.float64)
            sig = ctx_.resolve_function_type(at, tuple(argt), {})
            if sig is None:
                return "!! TypingError"
            return nbdesc(sig.return_type)
        return nbdesc(at)
    except Exception as e:  # noqa: BLE001
        return "!! " + ("TypingError" if "Typing" in type(e).__name__ or "numba" in type(e).__module__ else type(e).__name__)


def typing_chunk(lines):
    import vector
    vector.register_numba()
    from numba.core.registry import cpu_target
    tc = cpu_target.typing_context
    tc.refresh()
    return [typing_answer(tc, q) for q in lines]


def model_type(ans):
    if ans.startswith("->") and "::" in ans:
        return ans.split("::")[0].strip()
    if ans.startswith("->"):
        return "-> scalar"
    return ans


TNAMES = {4: ["xx", "xy", "yx", "yy"], 9: [a + b for a in "xyz" for b in "xyz"], 16: [a + b for a in "xyzt" for b in "xyzt"]}


def mkarg(tok):
    """operand of a probe: vector token (symobj.mkvec_float), 'B:<token>' the same vector scaled to a velocity (|beta| < 1),
    'T:<n>' an n-entry transform matrix as a numba typed dict (a mapping for the interpreter as well)"""
    from harness import symobj as so
    if tok.startswith("T:"):
        import numba
        d = numba.typed.Dict.empty(numba.types.unicode_type, numba.types.float64)
        for i, k in enumerate(TNAMES[int(tok[2:])]):
            d[k] = round(0.3 + 0.17 * i * (-1) ** i, 3)
        return d
    if tok.startswith("B:"):
        return so.mkvec_float(tok[2:]).scale(0.07)
    if tok.startswith("F:"):
        return float(tok[2:])
    if tok.startswith("W:"):          # explicit vector with numpy.float64 coordinates (IEEE semantics in the interpreter too): W:<name>=<value>,...
        import numpy
        import vector
        return vector.obj(**{kv.split("=")[0]: numpy.float64(kv.split("=")[1]) for kv in tok[2:].split(",")})
    if tok.startswith("V:"):          # explicit vector: V:<name>=<value>,...
        import vector
        return vector.obj(**{kv.split("=")[0]: float(kv.split("=")[1]) for kv in tok[2:].split(",")})
    return so.mkvec_float(tok)


CLOSE_SRC = ("def f(v, w):\n    return (v.isclose(w), v.isclose(w, 1e-3, 1e-9), v.isclose(w, 1e-9, 1e-3), v.isclose(w, 1e-9, 1e-9), v.isclose(w, 0.0, 1.0),"
             " v.equal(w), v.not_equal(w), v == w, v != w, v.is_parallel(w), v.is_parallel(w, 1e-9), v.is_antiparallel(w), v.is_perpendicular(w),"
             " v.is_perpendicular(w, 0.5))\n")


def closeness_jobs(r, tier):
    """near-equal operand pairs in every stored system (large magnitudes with a relative difference between the default rtol and atol
    regimes; tiny magnitudes with an absolute difference between them; exactly equal): closeness / equality / angle predicates with default
    and explicit tolerances must give the same truth values compiled and interpreted"""
    jobs = []
    sigs = C.ALLSIGS if tier == "thorough" else [s for d in (2, 3, 4) for s in r.sample(C.SIGS[d], 3 if d == 4 else 2)]
    for sig in sigs:
        fl = r.choice("gm")
        names = C.field_names(fl, sig)
        base = {"x": 3.0, "y": -4.0, "rho": 5.0, "phi": 0.7, "z": 2.0, "theta": 1.1, "eta": 0.6, "t": 9.0, "tau": 6.5}
        vals = [base[GENNAME.get(nm, nm)] for nm in names]
        for scale, rel, absd in ((300.0, 5e-6, 0.0), (1e-6, 0.0, 3e-6), (1.0, 0.0, 0.0), (1.0, 5e-7, 0.0), (40.0, 2e-4, 0.0)):
            a = [x * scale if GENNAME.get(nm, nm) not in ("phi", "theta", "eta") else x for x, nm in zip(vals, names)]
            b = [x * (1 + rel) + absd for x in a]
            jobs.append((CLOSE_SRC, ["V:" + ",".join(f"{n}={x!r}" for n, x in zip(names, a)), "V:" + ",".join(f"{n}={x!r}" for n, x in zip(names, b))]))
    return jobs


ANGLE_SRC = ("def f(v, w):\n    return (v.is_parallel(w), v.is_antiparallel(w), v.is_perpendicular(w), v.is_parallel(w, 1e-9), v.is_antiparallel(w, 1e-9),"
             " v.is_perpendicular(w, 1e-9), w.is_parallel(v), w.is_perpendicular(v))\n")


def angle_jobs(r, tier):
    """operand pairs that really ARE parallel / antiparallel / perpendicular (generic pairs are `False` for every predicate whatever kernel
    is selected), the two operands stored in DIFFERENT coordinate systems: every ordered pairing of longitudinal systems and of azimuthal
    systems is hit (all ordered pairs of stored systems in the thorough tier)"""
    jobs = []
    a = [1.2, -0.7, 2.1]
    perp = [0.7, 1.2, 0.0]                      # a . perp = 0
    perp2 = [2.1 * 1.2, -2.1 * 0.7, -(1.2 ** 2 + 0.7 ** 2)]    # a . perp2 = 0, not in the x-y plane
    others = [("parallel", [2.5 * c for c in a]), ("antiparallel", [-1.5 * c for c in a]), ("perpendicular", perp), ("perpendicular", perp2), ("generic", [0.3, 2.0, -1.1])]
    for d in (3, 4, 2):
        sigs = C.SIGS[d]
        pairs = [(s1, s2) for s1 in sigs for s2 in sigs]
        if tier != "thorough":
            # a covering: each ordered pair of (azimuthal, longitudinal) systems once, temporal systems drawn at random
            seen, cover = set(), []
            r.shuffle(pairs)
            for s1, s2 in pairs:
                k = (s1[:2], s2[:2])
                if k not in seen:
                    seen.add(k)
                    cover.append((s1, s2))
            pairs = cover if d == 3 else cover[:12] if d == 4 else cover
        for k_, (s1, s2) in enumerate(pairs):
            kinds = others if tier == "thorough" else [others[k_ % 4]]
            for _, oc in kinds:
                ca = (a[:2] if d == 2 else a) + ([7.0] if d == 4 else [])
                cb = (oc[:2] if d == 2 else oc) + ([9.0] if d == 4 else [])
                if d == 2 and abs(ca[0] * cb[1] - ca[1] * cb[0]) > 1e-9 and abs(ca[0] * cb[0] + ca[1] * cb[1]) > 1e-9 and oc is not others[4][1]:
                    continue                       # the 3D perpendicular partner is not perpendicular in the plane
                fl = r.choice("gm")
                toks = []
                for sg, cc in ((s1, ca), (s2, cb)):
                    names = C.field_names(fl, sg)
                    toks.append("V:" + ",".join(f"{n}={x!r}" for n, x in zip(names, C.cart_to_stored(sg, cc))))
                jobs.append((ANGLE_SRC, toks))
    return jobs


SING_SRC3 = ("def f(v, w):\n    return (v.x, v.y, v.rho, v.phi, v.z, v.theta, v.eta, v.costheta, v.cottheta, v.mag, v.mag2, v.deltaeta(w), v.deltaR(w), v.deltaangle(w),"
             " v.to_xyz(), v.to_rhophieta(), v.to_xytheta(), v.unit(), v.is_parallel(w), v.dot(w))\n")
SING_SRC4 = ("def f(v, w):\n    return (v.eta, v.theta, v.t, v.tau, v.beta, v.gamma, v.rapidity, v.mag, v.tau2, v.is_timelike(), v.is_lightlike(), v.is_spacelike(),"
             " v.to_xyzt(), v.to_rhophietatau(), v.to_beta3(), v.unit(), v.deltaR(w), v.dot(w), v.boostZ(beta=0.5))\n")
SING_SRC2 = "def f(v, w):\n    return (v.x, v.y, v.rho, v.phi, v.rho2, v.unit(), v.deltaphi(w), v.to_xy(), v.to_rhophi(), v.rotateZ(0.5), v.dot(w), v.is_parallel(w))\n"


def singular_jobs(r, tier):
    """SINGULAR operands (exactly on the z axis in theta / eta / z storage, the zero vector, rho = 0, theta = pi, t = 0, tau = 0, light
    cone): the replacement values of nan_to_num (nan / posinf / neginf) are part of what a compiled function must reproduce; compared
    with the interpreter including the positions of inf and NaN"""
    jobs = []
    w3, w4, w2 = "V:x=1.5,y=-2.0,z=0.75", "V:x=1.5,y=-2.0,z=0.75,t=9.0", "V:x=1.5,y=-2.0"
    sing3 = ["x=3.0,y=4.0,theta=0.0", "x=3.0,y=4.0,theta=3.141592653589793", "rho=5.0,phi=0.3,theta=0.0", "rho=0.0,phi=0.3,z=2.0", "rho=0.0,phi=0.3,eta=1.0", "x=0.0,y=0.0,z=0.0",
             "x=0.0,y=0.0,z=-2.0", "rho=0.0,phi=0.0,theta=1.0", "x=0.0,y=0.0,eta=0.5", "rho=2.0,phi=3.141592653589793,z=0.0", "x=-1.0,y=0.0,z=0.0", "px=3.0,py=4.0,theta=0.0"]
    sing4 = ["x=3.0,y=4.0,theta=0.0,t=10.0", "x=0.0,y=0.0,z=0.0,t=0.0", "x=0.0,y=0.0,z=0.0,t=5.0", "x=3.0,y=4.0,z=0.0,t=5.0", "x=3.0,y=4.0,z=12.0,tau=0.0", "rho=0.0,phi=0.0,eta=0.0,tau=2.0",
             "x=1.0,y=2.0,z=2.0,t=0.0", "pt=0.0,phi=0.0,eta=0.0,mass=0.0", "x=3.0,y=4.0,theta=0.0,tau=1.0", "rho=5.0,phi=0.1,theta=3.141592653589793,t=10.0", "x=1.0,y=2.0,z=2.0,t=-4.0"]
    sing2 = ["x=0.0,y=0.0", "rho=0.0,phi=1.0", "x=-1.0,y=0.0", "rho=2.0,phi=3.141592653589793", "x=-1.0,y=-0.0", "px=0.0,py=0.0"]
    for toks, src, w in ((sing3, SING_SRC3, w3), (sing4, SING_SRC4, w4), (sing2, SING_SRC2, w2)):
        for t_ in (toks if tier == "thorough" else toks[:2] + r.sample(toks[2:], min(len(toks) - 2, 3))):
            wtok = w.replace("x=", "px=").replace(",y=", ",py=") if t_.startswith(("px", "pt")) else w
            wtok = wtok.replace(",z=", ",pz=").replace(",t=", ",E=") if t_.startswith(("px", "pt")) else wtok
            jobs.append((src, ["W:" + t_, "W:" + wtok[2:]], "numpy-errors"))
    return jobs


GENNAME = {"px": "x", "py": "y", "pt": "rho", "pz": "z", "E": "t", "e": "t", "energy": "t", "M": "tau", "m": "tau", "mass": "tau"}


# ---- API sweep: EVERY attribute and method numba's typing context resolves on a vector type, with argument templates
ATTR_SKIP = {"azimuthal", "longitudinal", "temporal"}
METHOD_TEMPLATES = {
    "rotateX": ["v.rotateX(0.3)"], "rotateY": ["v.rotateY(-0.9)"], "rotateZ": ["v.rotateZ(0.7)"],
    "rotate_euler": ["v.rotate_euler(0.1, 0.2, 0.3, 'yxz')", "v.rotate_euler(0.4, -0.2, 1.3, 'zxz')"],
    "rotate_nautical": ["v.rotate_nautical(0.1, -0.2, 0.3)"], "rotate_quaternion": ["v.rotate_quaternion(0.5, 0.1, -0.7, 0.5)"],
    "rotate_axis": ["v.rotate_axis(u, 0.7)"], "scale": ["v.scale(2.5)", "v.scale(-1.5)"], "scale2D": ["v.scale2D(2.5)"], "scale3D": ["v.scale3D(2.5)"],
    "scale4D": ["v.scale4D(2.5)"], "unit": ["v.unit()"], "to_beta3": ["v.to_beta3()"],
    "boostX": ["v.boostX(beta=0.3)", "v.boostX(gamma=-1.5)"], "boostY": ["v.boostY(beta=-0.4)", "v.boostY(gamma=1.2)"],
    "boostZ": ["v.boostZ(beta=0.6)", "v.boostZ(gamma=2.0)"],
    "is_timelike": ["v.is_timelike()"], "is_lightlike": ["v.is_lightlike()"], "is_spacelike": ["v.is_spacelike()"],
    "transform2D": ["v.transform2D(T4)"], "transform3D": ["v.transform3D(T9)"], "transform4D": ["v.transform4D(T16)"],
    "boost_beta3": ["v.boost_beta3(b)"], "boostCM_of_beta3": ["v.boostCM_of_beta3(b)"],
    "boost": ["v.boost(b)", "v.boost(w)"], "boostCM_of": ["v.boostCM_of(b)", "v.boostCM_of(w)"],
}
for _m in ("add", "subtract", "dot", "equal", "not_equal", "isclose", "deltaphi", "is_parallel", "is_antiparallel", "is_perpendicular", "cross", "deltaR",
           "deltaR2", "deltaangle", "deltaeta", "deltaRapidityPhi", "deltaRapidityPhi2", "boost_p4", "boostCM_of_p4"):
    METHOD_TEMPLATES[_m] = [f"v.{_m}(w)"]
API_ARGS = "v, w, u, b, T4, T9, T16"
# operator / numpy-function forms that compile at the pinned commit (numpy.equal / not_equal / isclose / allclose do not: outside the numba-supported API)
OPERATOR_EXPRS = ["v + w", "v - w", "v * 2.5", "2.5 * v", "v / 2.5", "-v", "+v", "abs(v)", "v ** 2", "v ** 3", "v ** 0.5", "v == w", "v != w", "v @ w", "bool(v)",
                  "numpy.absolute(v)", "numpy.add(v, w)", "numpy.subtract(v, w)", "numpy.multiply(v, 2.5)", "numpy.multiply(2.5, v)", "numpy.negative(v)",
                  "numpy.positive(v)", "numpy.square(v)", "numpy.sqrt(v)", "numpy.cbrt(v)", "numpy.power(v, 2)", "numpy.power(v, 3)", "numpy.true_divide(v, 2.5)",
                  "numpy.matmul(v, w)"]


def constructor_exprs():
    """vector.obj(...) for every documented name set in every mix of generic and momentum spellings (270 calls; all compile at the pinned commit)"""
    out = []
    for az in (("x", "y"), ("rho", "phi"), ("px", "py"), ("pt", "phi"), ("x", "py"), ("px", "y")):
        for lon in (None, "z", "theta", "eta", "pz"):
            for tmp in (None, "t", "tau", "E", "e", "energy", "M", "m", "mass"):
                if tmp and not lon:
                    continue
                kw = [f"{az[0]}=a", f"{az[1]}=b"] + ([f"{lon}=c"] if lon else []) + ([f"{tmp}=d"] if tmp else [])
                out.append("vector.obj(" + ", ".join(kw) + ")")
    return out


def api_expressions(tok):
    """[(name, expression)] for every attribute / method numba resolves on the type of `tok`, and the names it resolves that
    have no argument template here (reported, so that nothing is silently skipped)"""
    import numba
    import vector
    vector.register_numba()
    from numba.core.registry import cpu_target
    tc = cpu_target.typing_context
    tc.refresh()
    v = symobj.mkvec_float(tok)
    t = numba.typeof(v)
    out, untemplated = [], []
    for name in sorted(n for n in dir(v) if not n.startswith("_")):
        try:
            at = tc.resolve_getattr(t, name)
        except Exception:  # noqa: BLE001
            at = None
        if at is None or name in ATTR_SKIP:
            continue
        if type(at).__name__ in ("BoundFunction", "Function", "Dispatcher"):
            if name.startswith("to_"):
                out.append((name, f"v.{name}()"))
            elif name in METHOD_TEMPLATES:
                out += [(name, e) for e in METHOD_TEMPLATES[name]]
            else:
                untemplated.append(name)
        else:
            out.append((name, f"v.{name}"))
    return out, untemplated


def api_subset(ctx, only, label):
    """the part of the numba API sweep whose expressions satisfy `only` (used by C09 / C10 for the boost / rotation spellings inside
    compiled code): -> (disagreements, failing_inputs, n_expressions)"""
    import multiprocessing as mp
    r = C.rng(ctx.seed, "numba-" + label)
    jobs, n_expr, _ = api_jobs(r, ctx.tier, only=only, constructors=False, types=[("m", 3), ("m", 4), (r.choice("gm"), 4)])
    dis, fails = [], []
    with mp.get_context("spawn").Pool(min(8, os.cpu_count() or 4)) as pool:
        res = pool.map(probe_worker, jobs, chunksize=1)
        single = []
        for src, toks, interp, comp in res:
            if not same(interp, comp):
                body = src.split("return (", 1)[1].rsplit(",)", 1)[0]
                head = src.split("return (", 1)[0]
                single += [(head + f"return {e}\n", toks) for e in split_top(body)]
        for src, toks, interp, comp in (pool.map(probe_worker, single, chunksize=1) if single else []):
            if not same(interp, comp):
                dis.append(f"numba-compiled {src.split('return', 1)[1].strip()} on {toks[:2]}: interpreter {str(interp)[:120]}, compiled {str(comp)[:120]}")
                fails.append({"key": "numba:" + src.split("return", 1)[1].strip()[:40], "what": dis[-1][:300], "code": probe_replay(src, toks)})
    return dis, fails, n_expr


def api_jobs(r, tier, only=None, constructors=True, types=None):
    """compile-and-run jobs covering the whole numba-supported API of a few operand types (one per dimension and flavor in the
    thorough tier, one per dimension in the quick tier); expressions the interpreter itself rejects are left out"""
    jobs, n_expr, untemplated = [], 0, set()
    # momentum types carry every generic name plus the momentum spellings: quick = all three momentum types + one generic type
    if types is None:
        types = [(fl, d) for d in (2, 3, 4) for fl in "gm"] if tier == "thorough" else [("m", d) for d in (2, 3, 4)] + [("g", r.choice((2, 3, 4)))]
    for fl, d in types:
        me = symobj.vtoken(fl, r.choice(C.SIGS[d]), 1)
        toks = [me, symobj.vtoken(fl, r.choice(C.SIGS[d]), 2), symobj.vtoken(fl, r.choice(C.SIG3), 3), "B:" + symobj.vtoken(fl, r.choice(C.SIG3), 2), "T:4", "T:9", "T:16"]
        exprs, un = api_expressions(me)
        untemplated |= set(un)
        env = dict(zip([a.strip() for a in API_ARGS.split(",")], [mkarg(t) for t in toks]))
        ok = []
        for name, e in exprs:
            try:
                eval(e, {}, env)          # the interpreter accepts it
                ok.append(e)
            except Exception:  # noqa: BLE001
                pass
        import numpy
        import vector
        if only is not None:
            ok = [e for e in ok if only(e)]
        for e in (OPERATOR_EXPRS if only is None else []):            # operators and numpy functions on vectors inside compiled code
            try:
                eval(e, {"numpy": numpy, "vector": vector}, env)
                ok.append(e)
            except Exception:  # noqa: BLE001
                pass
        n_expr += len(ok)
        size = 8
        for i in range(0, len(ok), size):
            chunk = ok[i:i + size]
            jobs.append((f"import numpy, vector\ndef f({API_ARGS}):\n    return ({', '.join(chunk)},)\n", toks))
    # constructors inside compiled code
    ce = constructor_exprs() if constructors else []
    if tier != "thorough" and ce:
        ce = r.sample(ce, 48)
    n_expr += len(ce)
    for i in range(0, len(ce), 12):
        jobs.append((f"import numpy, vector\ndef f(a, b, c, d):\n    return ({', '.join(ce[i:i + 12])},)\n", ["F:1.5", "F:0.75", "F:-0.5", "F:9.25"]))
    return jobs, n_expr, sorted(untemplated)


def probe_worker(job):
    """compile and run one probe in a fresh process: (source, operands) -> description of (type, values) for njit and interpreter"""
    src, toks = job[0], job[1]
    njit_kw = {"error_model": "numpy"} if len(job) > 2 and job[2] == "numpy-errors" else {}
    import numba
    import vector
    from harness import symobj as so
    from harness import common as Cm
    ns = {}
    exec(src, ns)
    f = ns["f"]
    args = [mkarg(t) for t in toks]

    def desc(r):
        if isinstance(r, vector.Vector):
            return (type(r).__name__, Cm.sig_of(r), [float(x) for x in Cm.stored(r)])
        if isinstance(r, tuple):
            return tuple(desc(x) for x in r)
        return ("s", float(r) if not isinstance(r, bool) else bool(r))
    try:
        interp = desc(f(*args))
    except Exception as e:  # noqa: BLE001
        interp = ("raises", type(e).__name__)
    try:
        comp = desc(numba.njit(f, **njit_kw)(*args))
    except Exception as e:  # noqa: BLE001
        comp = ("raises", "TypingError" if "Typing" in type(e).__name__ else type(e).__name__)
    return src, toks, interp, comp


AK_PROBES = [
    "def f(a):\n    out = 0.0\n    for ev in a:\n        for v in ev:\n            out += v.rho + v.z + v.t\n    return out\n",
    "def f(a):\n    out = 0.0\n    for ev in a:\n        for i in range(len(ev)):\n            for j in range(i + 1, len(ev)):\n                out += ev[i].add(ev[j]).mass\n    return out\n",
    "def f(a):\n    out = 0.0\n    for ev in a:\n        for v in ev:\n            out += v.rotateZ(0.3).to_xyzt().x + v.deltaR(ev[0])\n    return out\n",
]


AK_CASES = [
    (("xy", "z", "t"), ("Momentum4D", ["x", "y", "z", "t"], [])), (("xy", "z", "t"), ("Momentum4D", ["x", "py", "pz", "E"], [])),
    (("xy", "theta", "t"), ("Momentum4D", ["px", "y", "theta", "e"], [])), (("xy", "eta", "t"), ("Momentum4D", ["px", "py", "eta", "energy"], [])),
    (("xy", "z", "tau"), ("Momentum4D", ["px", "py", "pz", "M"], [])), (("rhophi", "eta", "tau"), ("Momentum4D", ["pt", "phi", "eta", "m"], [])),
    (("rhophi", "z", "tau"), ("Momentum4D", ["rho", "phi", "z", "mass"], [])), (("rhophi", "theta", "tau"), ("Momentum4D", ["pt", "phi", "theta", "tau"], [])),
    (("xy", "z", "t"), ("Vector4D", ["x", "y", "z", "t"], [])), (("rhophi", "eta", "tau"), ("Vector4D", ["rho", "phi", "eta", "tau"], [])),
    (("xy", "z", "tau"), ("Vector4D", ["x", "y", "z", "tau"], ["mass", "E", "pt"])), (("rhophi", "theta", "t"), ("Vector4D", ["rho", "phi", "theta", "t"], ["M", "px", "pz"])),
    (("xy", "eta", "t"), ("Momentum4D", ["px", "py", "eta", "E"], ["charge"])),
    # generic records whose EXTRA fields are named like the remaining momentum synonyms (a generic record must ignore every one of them)
    (("xy", "z", "tau"), ("Vector4D", ["x", "y", "z", "tau"], ["energy", "e", "m", "M"])), (("rhophi", "eta", "t"), ("Vector4D", ["rho", "phi", "eta", "t"], ["E", "e", "energy", "mass", "m"])),
    (("rhophi", "z", "tau"), ("Vector4D", ["rho", "phi", "z", "tau"], ["px", "py", "E"])), (("xy", "theta", "t"), ("Vector4D", ["x", "y", "theta", "t"], ["pt", "pz", "M"])),
]


def ak_probe_worker(job):
    """Awkward array of vectors iterated inside a compiled function vs the same Python function interpreted"""
    src, sig, seed = job[:3]
    case = job[3] if len(job) > 3 else None
    import awkward as ak
    import numba
    import vector
    from harness import common as Cm
    vector.register_awkward()
    r = Cm.rng(seed, "akprobe")
    rows = [Cm.cart_to_stored(sig, p) for p in Cm.strata_points(len(sig) + 1, r, n_random=3)[-6:]]
    if case is not None:
        # a FIXED record layout: (record name, field name per stored coordinate, extra field names): every spelling of every coordinate, all
        # four x/px-y/py pairings, generic records, and generic records with EXTRA fields named like momentum synonyms (which must be ignored)
        import numpy
        rname, names, extra = case
        if rname.startswith("Vector"):
            src = src.replace(".mass", ".tau")          # generic records have no momentum-spelled properties
        cols = {nm: numpy.array([row[j] for row in rows]) for j, nm in enumerate(names)}
        cols.update({nm: numpy.array([100.0 + 3 * q for q in range(len(rows))]) for nm in extra})
        arr = ak.unflatten(ak.zip(cols, with_name=rname), [2, 0, 3, 1])
        sig = list(sig) + [rname] + list(names) + list(extra)
    elif seed % 2 == 0:
        arr = ak.unflatten(Cm.ak_array("m", sig, rows), [2, 0, 3, 1])
    else:
        # records that carry the momentum SPELLING as the field name (ak.zip(..., with_name=...)): the lowering picks a getter per spelling
        import numpy
        spell = {"x": ["x", "px"], "y": ["y", "py"], "rho": ["rho", "pt"], "phi": ["phi"], "z": ["z", "pz"], "theta": ["theta"], "eta": ["eta"],
                 "t": ["t", "E", "e", "energy"], "tau": ["tau", "M", "m", "mass"]}
        names = [r.choice(spell[c]) for c in Cm.signames(sig)]
        arr = ak.unflatten(ak.zip({nm: numpy.array([row[j] for row in rows]) for j, nm in enumerate(names)}, with_name="Momentum4D"), [2, 0, 3, 1])
        sig = list(sig) + names
    ns = {}
    exec(src, ns)
    f = ns["f"]
    try:
        i = ("s", float(f(arr)))
    except Exception as e:  # noqa: BLE001
        i = ("raises", type(e).__name__)
    try:
        c = ("s", float(numba.njit(f)(arr)))
    except Exception as e:  # noqa: BLE001
        c = ("raises", type(e).__name__)
    return src, list(sig), i, c


def split_top(body):
    """split 'e1, e2(a, b), e3' at top-level commas"""
    out, depth, cur = [], 0, ""
    for ch in body:
        if ch in "([":
            depth += 1
        elif ch in ")]":
            depth -= 1
        if ch == "," and depth == 0:
            out.append(cur.strip())
            cur = ""
        else:
            cur += ch
    if cur.strip():
        out.append(cur.strip())
    return out


MUTATIONS = {
    2: [("v.rho = 10.0", lambda v: setattr(v, "rho", 10.0)), ("v.x = -3.5", lambda v: setattr(v, "x", -3.5)), ("v *= 2.5", None), ("v += w", None), ("v.phi = 0.25", lambda v: setattr(v, "phi", 0.25))],
    3: [("v.z = 4.0", lambda v: setattr(v, "z", 4.0)), ("v.theta = 0.5", lambda v: setattr(v, "theta", 0.5)), ("v.eta = -0.75", lambda v: setattr(v, "eta", -0.75)),
        ("v.rho = 10.0", lambda v: setattr(v, "rho", 10.0)), ("v /= 4", None), ("v -= w", None)],
    4: [("v.t = 40.0", lambda v: setattr(v, "t", 40.0)), ("v.tau = 5.0", lambda v: setattr(v, "tau", 5.0)), ("v.eta = 0.5", lambda v: setattr(v, "eta", 0.5)),
        ("v.x = 2.0", lambda v: setattr(v, "x", 2.0)), ("v *= 2.5", None), ("v += w", None)],
}


def mutation_probe_worker(job):
    """one object passed to compiled code, then MUTATED through the public setters / in-place operators (which may change its stored
    coordinate system or the Python type of its coordinates), then passed to compiled code again: the compiled function must see the
    object as it is now.  job = (token of v, token of w, mutation label, integer-valued coordinates?) -> (label, interpreted, compiled)"""
    tok, tokw, label, ints = job
    import numba
    import vector
    from harness import common as Cm
    v, w = mkarg(tok), mkarg(tokw)
    if ints:
        v = type(v)(**{n: int(round(float(x))) or 1 for n, x in zip(Cm.field_names("m" if isinstance(v, vector.Momentum) else "g", Cm.sig_of(v)), Cm.stored(v))})
    d = len(Cm.sig_of(v)) + 1

    def f(u):
        return u

    def g(u):
        return u.x, u.y, u.rho, u.phi

    def desc(r):
        if isinstance(r, vector.Vector):
            return (type(r).__name__, Cm.sig_of(r), [float(x) for x in Cm.stored(r)])
        return tuple(float(x) for x in r)
    jf, jg = numba.njit(f), numba.njit(g)
    try:
        jf(v), jg(v)                                    # first contact with compiled code
        mut = dict(MUTATIONS[d])[label]
        if mut is not None:
            mut(v)
        elif label.startswith("v *="):
            v *= float(label.split("=")[1])
        elif label.startswith("v /="):
            v /= float(label.split("=")[1])
        elif label.startswith("v +="):
            v += w
        else:
            v -= w
        interp = (desc(f(v)), desc(g(v)))
        comp = (desc(jf(v)), desc(jg(v)))
    except Exception as e:  # noqa: BLE001
        return label, ("raises", type(e).__name__, str(e)[:80]), ("raises",)
    return label, interp, comp


def same(a, b):
    if type(a) is not type(b) or (isinstance(a, tuple) and len(a) != len(b)):
        return False
    if isinstance(a, tuple) and a and (a[0] == "raises" or (b and b[0] == "raises")):
        return a == b
    if isinstance(a, tuple) and a and a[0] == "s":
        if not (b and b[0] == "s"):
            return False
        x, y = a[1], b[1]
        if x == y or (x != x and y != y):
            return True
        if x in (float("inf"), float("-inf")) or y in (float("inf"), float("-inf")):
            return False              # an infinity equals only itself (a huge finite replacement value is a different answer)
        return abs(x - y) <= 1e-12 * max(1.0, abs(x), abs(y))
    if isinstance(a, tuple) and len(a) == 3 and isinstance(a[2], list):
        return a[0] == b[0] and a[1] == b[1] and all(same(("s", x), ("s", y)) for x, y in zip(a[2], b[2]))
    if isinstance(a, tuple):
        return all(same(x, y) for x, y in zip(a, b))
    return a == b


def correspondence(ctx):
    r = C.rng(ctx.seed, "c07")
    selves = [(fl, s) for fl in "gm" for s in C.ALLSIGS]
    if ctx.tier == "quick":
        selves = r.sample(selves, 12)
    reqs = []
    for fl, s in selves:
        me = symobj.vtoken(fl, s, 1)
        for p in PROPS:
            reqs.append(f"J {p} {me}")
        for m, n in UNARY:
            reqs.append(" ".join(["J", m, me] + ["s=a"] * n))
        others = [(f2, s2) for f2 in "gm" for s2 in C.ALLSIGS]
        for f2, s2 in r.sample(others, 8 if ctx.tier == "quick" else 40):
            for m in BINARY:
                reqs.append(f"J {m} {me} v={symobj.vtoken(f2, s2, 2)}")
    import multiprocessing as mp
    nproc = min(12, os.cpu_count() or 4)
    chunks = [reqs[i::nproc] for i in range(nproc)]
    with mp.get_context("spawn").Pool(nproc) as pool:
        parts = pool.map(typing_chunk, chunks)
    real = [None] * len(reqs)
    for i, part in enumerate(parts):
        real[i::nproc] = part
    model = leanio.run_driver("GlueSym", reqs, build=["VectorModel.Gen.Exec.All", "VectorModel.Exec.Sym", "VectorModel.Glue.Numba"])
    dis, fails = [], []
    unsupported = 0
    for q, a, b in zip(reqs, real, model):
        bt = model_type(b)
        if bt == "!! Unmodelled":
            # method not supported in compiled code according to the model: numba must refuse it too
            unsupported += 1
            if not a.startswith("!!"):
                dis.append(f"{q}: numba types it as {a}, the model says unsupported")
            continue
        if a.startswith("!!") and bt.startswith("!!"):
            continue
        if a != bt:
            dis.append(f"typing {q}: numba {a}, model {bt}")
            fails.append({"key": "numba-typing:" + q.split()[1], "what": dis[-1], "code": None})
    # compile-and-run probes
    jobs = []
    # (source, operand dimensions) — every supported family, operands in independently chosen coordinate systems (same flavor)
    progs = [("def f(v):\n    return v.rotateZ(0.3).rho\n", (0,)), ("def f(v, w):\n    return v.add(w)\n", (0, 0)),
             ("def f(v, w):\n    return v.dot(w)\n", (0, 0)), ("def f(v):\n    return v.to_xyz().scale(2.0)\n", (3,)),
             ("def f(v, w):\n    return v.add(w).unit().phi\n", (0, 0)), ("def f(v):\n    return v.x, v.phi\n", (0,)),
             ("def f(v, w):\n    return v.subtract(w).to_rhophieta().eta\n", (3, 3)), ("def f(v, w):\n    return v.deltaR(w)\n", (3, 3)),
             ("def f(v, w):\n    return v.equal(w)\n", (0, 0)), ("def f(v, w):\n    return v.rotate_axis(w, 0.7)\n", (3, 3)),
             ("def f(v, w):\n    return v.rotate_axis(w, -1.2)\n", (4, 3)), ("def f(v, w):\n    return v.cross(w)\n", (3, 3)),
             ("def f(v, w):\n    return v.boost_p4(w)\n", (4, 4)), ("def f(v, w):\n    return v.boost_beta3(w.to_beta3())\n", (4, 4)),
             ("def f(v, w):\n    return v.deltaangle(w), v.deltaeta(w), v.deltaphi(w)\n", (3, 4)),
             ("def f(v, w):\n    return v.is_parallel(w), v.is_perpendicular(w), v.isclose(w)\n", (3, 3)),
             ("def f(v):\n    return v.rotateX(0.4).rotateY(-0.9).mag\n", (3,)), ("def f(v):\n    return v.boostX(beta=0.3).boostZ(gamma=1.5)\n", (4,)),
             ("def f(v):\n    return v.rotate_euler(0.1, 0.2, 0.3, 'yxz'), v.rotate_quaternion(0.5, 0.5, 0.5, 0.5)\n", (3,)),
             ("def f(v):\n    return v.to_rhophithetatau().tau, v.rapidity, v.gamma, v.Et if False else v.beta\n", (4,)),
             ("def f(v, w):\n    return v.deltaRapidityPhi(w), v.boostCM_of_p4(w).t\n", (4, 4)),
             ("def f(v):\n    return v.to_Vector2D(), v.to_Vector3D(), v.neg3D, v.is_timelike()\n", (4,))]
    reps = 2 if ctx.tier == "quick" else 10
    for src, dims in progs:
        for _ in range(reps):
            fl = r.choice("gm")
            d0 = r.choice((2, 3, 4))
            toks = [symobj.vtoken(fl, r.choice(C.SIGS[d or d0]), i + 1) for i, d in enumerate(dims)]    # same flavor: mixed flavor is the known finding
            jobs.append((src, toks))
    jobs.append(("def f(v, w):\n    return v.add(w)\n", ["g:xy:-:-:1", "m:rhophi:-:-:2"]))       # the known finding, for the record
    jobs += closeness_jobs(r, ctx.tier)
    jobs += angle_jobs(r, ctx.tier)
    jobs += singular_jobs(r, ctx.tier)
    ajobs, n_api_expr, untemplated = api_jobs(r, ctx.tier)
    with mp.get_context("spawn").Pool(min(14, os.cpu_count() or 4)) as pool:
        results = pool.map(probe_worker, jobs)
        ares = pool.map(probe_worker, ajobs, chunksize=1)
        # second pass: a chunk that differs is split into its single expressions to name the member that differs
        single = []
        for src, toks, interp, comp in ares:
            if not same(interp, comp):
                body = src.split("return (", 1)[1].rsplit(",)", 1)[0]
                head = src.split("return (", 1)[0]
                single += [(head + f"return {e}\n", toks) for e in split_top(body)]
        results += pool.map(probe_worker, single, chunksize=1) if single else []
        akjobs = [(src, r.choice(C.SIG4), 2 * (ctx.seed + k)) for k, src in enumerate(AK_PROBES)] + \
                 [(src, r.choice(C.SIG4), 2 * (ctx.seed + 7 * k + j) + 1) for k, src in enumerate(AK_PROBES) for j in range(2 if ctx.tier == "quick" else 8)]
        akjobs += [(AK_PROBES[k % len(AK_PROBES) if ctx.tier != "quick" else 0], sg, ctx.seed, cs) for k, (sg, cs) in enumerate(AK_CASES)]
        akres = pool.map(ak_probe_worker, akjobs)
        mjobs = []
        for d in (2, 3, 4):
            for label, _ in MUTATIONS[d]:
                fl = r.choice("gm")
                # start from a stored system the step CHANGES (v.rho = on an x-y vector, v.tau = on a t-stored one, ...)
                avoid = {"v.rho": "rhophi", "v.phi": "rhophi", "v.x =": "xy", "v.z =": "z", "v.the": "theta", "v.eta": "eta", "v.t =": "t", "v.tau": "tau"}.get(label[:5])
                starts = [sg for sg in C.SIGS[d] if avoid not in sg] or C.SIGS[d]
                for ints in ((False, True) if label[2] in "*/" else (False,)):
                    mjobs.append((symobj.vtoken(fl, r.choice(starts), 1), symobj.vtoken(fl, r.choice(C.SIGS[d]), 2), label, ints))
        mres = pool.map(mutation_probe_worker, mjobs)
    for (tok, tokw, label, ints), (_, interp, comp) in zip(mjobs, mres):
        if interp and interp[0] == "raises" and len(comp) == 1:
            continue          # the interpreter itself rejects the step (e.g. a setter the class does not have): nothing to compare
        if not same(interp, comp):
            dis.append(f"object {tok}{' (integer coordinates)' if ints else ''} passed to compiled code, then `{label}`, then passed again: interpreter sees {str(interp)[:140]}, compiled code {str(comp)[:140]}")
            fails.append({"key": "numba-after-mutation:" + label, "what": dis[-1][:300], "code": (
                "import sys; sys.path.insert(0, %r); sys.path.insert(0, %r)\nfrom harness import c07\n"
                "_, i, c = c07.mutation_probe_worker(%r)\nassert c07.same(i, c), f'interpreter {i} compiled {c}'\n" % (C.VERIF, C.VERIF + "/tools", (tok, tokw, label, ints)))})
    for src, sig, interp, comp in akres:
        if interp[0] == "raises" and comp[0] == "raises":
            continue          # the interpreter itself rejects the program: nothing to compare
        if not same(interp, comp):
            dis.append(f"awkward-in-numba probe on {sig}: interpreter {interp}, compiled {comp}: {src.strip()[:80]!r}")
            fails.append({"key": "numba-awkward-probe", "what": dis[-1][:300], "code": None})
    known = 0
    for src, toks, interp, comp in results:
        mixed = len({t[2:][0] if t.startswith("B:") else t[0] for t in toks if not t.startswith(("T:", "V:", "W:"))}) > 1
        if not same(interp, comp):
            if mixed:
                known += 1
                fails.append({"key": "numba-flavor-mixed", "what": "mixed flavor", "code": None})
                continue
            dis.append(f"probe {src.strip()!r} on {toks}: interpreter {interp}, compiled {comp}")
            fails.append({"key": "numba-probe:" + src.split("return")[1].strip()[:30], "what": dis[-1][:300], "code": probe_replay(src, toks)})
    return {"ok": not dis, "disagreements": dis[:12], "failing_inputs": fails[:8],
            "stats": {"traces_validated_against_impl": len(reqs) + len(jobs), "typing_resolutions": len(reqs), "unsupported_by_model": unsupported,
                      "compile_and_run_probes": len(jobs), "mutation_between_compiled_calls_probes": len(mjobs), "awkward_in_numba_probes": len(akjobs), "known_mixed_flavor_probes": known,
                      "api_sweep_programs": len(ajobs), "api_sweep_expressions": n_api_expr, "api_names_without_template": untemplated},
            "samples": [{"request": reqs[i], "numba": real[i], "model": model_type(model[i])} for i in (0, len(reqs) // 2, len(reqs) - 1)]}


def probe_replay(src, toks):
    return ("import sys; sys.path.insert(0, %r); sys.path.insert(0, %r)\nfrom harness import c07\n"
            "_, _, i, c = c07.probe_worker((%r, %r))\nassert c07.same(i, c), f'interpreter {i} compiled {c}'\n" % (C.VERIF, C.VERIF + "/tools", src, toks))
