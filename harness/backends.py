"""Cross-backend correspondences at float64 (object / NumPy / Awkward array / Awkward record):

* `type_lattice`: result backend, flavor, dimension and coordinate system of every call, compared EXACTLY with the
  prediction of the Lean glue model (GlueSym driver, type part of the answer);
* `value_lattice`: element i of an array result compared with the object-backend result for element i
  (tolerance: a few ulp of the largest operand magnitude; NaN positions must coincide), structure compared exactly.
"""
from __future__ import annotations

import itertools
import math

import numpy

import vector
from harness import common as C
from harness import leanio, symobj

TAGS = ["", "N.", "A.", "R."]


def operand(tag, fl, sig, rows):
    """vector in backend `tag` whose element i stores rows[i]; record/object use rows[0]"""
    if tag == "":
        return C.obj_vec(fl, sig, rows[0])
    if tag == "N.":
        return C.np_array(fl, sig, rows)
    if tag == "A.":
        return C.ak_array(fl, sig, rows)
    if tag == "R.":
        return C.ak_array(fl, sig, rows)[0]
    raise ValueError(tag)


def type_of(r):
    """'-> <prefix><g|m><dim> az lon tmp' | '-> scalar' | '-> plain:<type>'"""
    import awkward as ak
    if isinstance(r, vector.backends.object.VectorObject):
        sig = C.sig_of(r)
        fl = "m" if isinstance(r, vector.Momentum) else "g"
        return f"-> {fl}{len(sig) + 1} " + sigstr(sig)
    if isinstance(r, vector.backends.numpy.VectorNumpy):
        names = r.dtype.names
        fl = "m" if isinstance(r, vector.Momentum) else "g"
        sig = sig_from_names(names)
        return f"-> N.{fl}{len(sig) + 1} " + sigstr(sig)
    if isinstance(r, (ak.Array, ak.Record)):
        if isinstance(r, vector.backends.awkward.VectorAwkward):
            fl = "m" if isinstance(r, vector.Momentum) else "g"
            sig = sig_from_names(ak.fields(r))
            dim = 2 if isinstance(r, vector.Vector2D) else 3 if isinstance(r, vector.Vector3D) else 4
            if dim != len(sig) + 1:
                return f"-> A.{fl}{dim} fields={ak.fields(r)}"
            return f"-> A.{fl}{len(sig) + 1} " + sigstr(sig)
        if ak.fields(r):
            return f"-> plain:{type(r).__name__}:{ak.fields(r)}"
        return "-> scalar"
    return "-> scalar"


def sigstr(sig):
    return f"{sig[0]} {sig[1] if len(sig) > 1 else '-'} {sig[2] if len(sig) > 2 else '-'}"


GEN = {"px": "x", "py": "y", "pt": "rho", "pz": "z", "E": "t", "e": "t", "energy": "t", "M": "tau", "m": "tau", "mass": "tau"}


def sig_from_names(names):
    ns = [GEN.get(n, n) for n in names]
    sig = []
    if "x" in ns and "y" in ns:
        sig.append("xy")
    elif "rho" in ns and "phi" in ns:
        sig.append("rhophi")
    else:
        sig.append("?")
    for l in ("z", "theta", "eta"):
        if l in ns:
            sig.append(l)
    for t in ("t", "tau"):
        if t in ns:
            sig.append(t)
    return tuple(sig)


UNARY = [("rotateZ", ["f"]), ("rotateX", ["f"]), ("scale", ["f"]), ("unit", []), ("to_beta3", []), ("to_xyz", []),
         ("to_rhophietatau", []), ("to_Vector2D", []), ("to_Vector3D", []), ("to_Vector4D", []), ("neg3D", []),
         ("rotate_quaternion", ["f", "f", "f", "f"]), ("boostX", ["f"])]
BINARY = ["add", "subtract", "dot", "cross", "boost_p4", "boost_beta3", "boost", "deltaR", "equal", "like", "deltaphi", "boostCM_of"]
OPS = ["add", "sub", "eq"]


def real_type(kind, meth, v, args):
    try:
        if kind == "C":
            a = getattr(v, meth)
            r = a(*args) if callable(a) else a
        else:
            o = args[0]
            r = {"add": lambda: v + o, "sub": lambda: v - o, "eq": lambda: v == o, "matmul": lambda: v @ o}[meth]()
        return type_of(r)
    except Exception as e:  # noqa: BLE001
        return "!! " + type(e).__name__


def type_lattice(ctx):
    r = C.rng(ctx.seed, "type-lattice")
    rows = {d: [C.cart_to_stored(C.CARTSIG[d], p) for p in C.strata_points(d, r, n_random=1)[:3]] for d in (2, 3, 4)}
    reqs, real = [], []
    sigs = C.ALLSIGS if ctx.tier == "thorough" else [s for s in C.ALLSIGS if s[0] == "xy" or len(s) == 3][:14]
    selfs = [(t, fl, s) for t in TAGS for fl in "gm" for s in sigs]
    if ctx.tier == "quick":
        selfs = r.sample(selfs, 60)

    def mk(tag, fl, sig, idx):
        d = len(sig) + 1
        rws = [C.cart_to_stored(sig, p) for p in C.strata_points(d, C.rng(ctx.seed, f"{tag}{fl}{sig}{idx}"), n_random=1)[:3]]
        return operand(tag, fl, sig, rws)
    for tag, fl, sig in selfs:
        v = mk(tag, fl, sig, 1)
        me = tag + symobj.vtoken(fl, sig, 1)
        for m, a in UNARY:
            reqs.append(" ".join(["C", m, me] + [f"s=a{i}" for i in range(len(a))]))
            real.append(real_type("C", m, v, [0.3 + 0.1 * i for i in range(len(a))]))
        others = [(t, f, s) for t in TAGS for f in "gm" for s in sigs]
        same = [o for o in others if len(o[2]) == len(sig)]        # same dimension: where add/subtract/dot/equal/cross are defined
        k_same, k_any = (10, 3) if ctx.tier == "quick" else (40, 12)
        for tag2, fl2, sig2 in r.sample(same, min(k_same, len(same))) + r.sample(others, k_any):
            w = mk(tag2, fl2, sig2, 2)
            ot = tag2 + symobj.vtoken(fl2, sig2, 2)
            for m in BINARY:
                reqs.append(f"C {m} {me} v={ot}")
                real.append(real_type("C", m, v, [w]))
            reqs.append(f"C rotate_axis {me} v={ot} s=a")
            real.append(real_type("C", "rotate_axis", v, [w, 0.4]))
            for op in OPS:
                reqs.append(f"O {op} {me} v={ot}")
                real.append(real_type("O", op, v, [w]))
    model = leanio.run_driver("GlueSym", reqs, build=["VectorModel.Gen.Exec.All", "VectorModel.Exec.Sym", "VectorModel.Glue.Methods"])
    bad = []
    for q, a, b in zip(reqs, real, model):
        bt = b.split("::")[0].strip() if b.startswith("->") and "::" in b else ("-> scalar" if b.startswith("->") else b)
        if a != bt:
            bad.append((q, a, bt))
    return reqs, bad


C.CARTSIG = {2: ("xy",), 3: ("xy", "z"), 4: ("xy", "z", "t")}


# ------------------------------------------------------------------------------------------------ known-finding classes
def classify(q, real, model, registered):
    """name of the known-finding class a type-lattice disagreement belongs to, or None"""
    toks = q.split()
    kind, meth, me = toks[0], toks[1], toks[2]
    other = toks[3][2:] if len(toks) > 3 and toks[3].startswith("v=") else ""

    def tag(t):
        return t.split(".")[0] + "." if "." in t else "o"
    t1, t2 = tag(me), (tag(other) if other else "-")
    if not registered and "R." in (t1, t2):
        return "ak-record-unregistered"
    if kind == "O" and meth in ("eq", "ne") and "R." in (t1, t2) and real.startswith("!! AssertionError"):
        return "ak-record-eq-operator"
    if kind == "O" and meth in ("add", "sub") and {t1, t2} in ({"A.", "N."}, {"R.", "N."}) and real.startswith("-> A.g") and model.startswith("-> A.m"):
        return "operator-flavor-awkward-numpy"
    if meth.startswith("boost") and t1 == "o" and t2 in ("A.", "R.") and ":tau:" in me and real.startswith("!! TypeError"):
        return "object-tau-boost-by-awkward"
    return None


def type_lattice_classified(ctx, registered):
    """run the type lattice in this process (unregistered) or a subprocess (registered) -> (n requests, [(q, real, model, class)])"""
    if not registered:
        reqs, bad = type_lattice(ctx)
        return len(reqs), [(q, a, b, classify(q, a, b, False)) for q, a, b in bad]
    import json
    import subprocess
    import sys
    code = ("import sys, json; sys.path.insert(0, %r); sys.path.insert(0, %r)\nimport vector; vector.register_awkward()\n"
            "from harness import backends as Bk\nclass X: seed=%d; tier=%r\nreqs, bad = Bk.type_lattice(X)\n"
            "print('JSON' + json.dumps([len(reqs), bad]))\n" % (C.VERIF, C.VERIF + "/tools", ctx.seed, ctx.tier))
    p = subprocess.run([sys.executable, "-c", code], capture_output=True, text=True, timeout=1800)
    line = [l for l in p.stdout.splitlines() if l.startswith("JSON")]
    if not line:
        raise RuntimeError("registered-mode type lattice failed: " + p.stderr[-400:])
    n, bad = json.loads(line[0][4:])
    return n, [(q, a, b, classify(q, a, b, True)) for q, a, b in bad]


# ------------------------------------------------------------------------------------------------ C03: values
VAL_UNARY = ["x", "y", "rho", "phi", "z", "theta", "eta", "mag", "costheta", "t", "tau", "beta", "gamma", "rapidity", "mag2", "tau2"]
VAL_UNARY_VEC = [("rotateZ", [0.7]), ("rotateX", [-1.1]), ("scale", [-1.5]), ("scale", [2.0]), ("unit", []), ("to_xyz", []),
                 ("to_rhophieta", []), ("to_beta3", []), ("boostX", [0.4]), ("rotate_euler", [0.3, 1.2, -0.4, "yxz"]),
                 ("to_Vector4D", []), ("neg3D", []), ("to_rhophithetatau", []), ("to_xyzt", [])]
VAL_BINARY = ["add", "subtract", "dot", "deltaR", "deltaphi", "deltaangle", "cross", "boost_p4", "boost_beta3", "equal", "isclose", "is_parallel"]


def close64(a, b, scale):
    if isinstance(a, (bool, numpy.bool_)) or isinstance(b, (bool, numpy.bool_)):
        return bool(a) == bool(b)
    a, b = float(a), float(b)
    if math.isnan(a) or math.isnan(b):
        return math.isnan(a) and math.isnan(b)
    if math.isinf(a) or math.isinf(b):
        return a == b
    return abs(a - b) <= 1e-12 * max(1.0, abs(a), abs(b), scale)


def elem_value(r):
    """canonical form of one element of a result: ('v', names, values) or ('s', value)"""
    import awkward as ak
    if isinstance(r, vector.backends.object.VectorObject):
        return ("v", tuple(C.signames(C.sig_of(r))), [float(x) for x in C.stored(r)])
    if isinstance(r, ak.Record):
        names = tuple(GEN.get(n, n) for n in ak.fields(r))
        return ("v", names, [float(r[n]) for n in ak.fields(r)])
    if isinstance(r, numpy.void):
        names = tuple(GEN.get(n, n) for n in r.dtype.names)
        return ("v", names, [float(r[n]) for n in r.dtype.names])
    return ("s", r)


def flatten_result(res, n):
    """list of per-element results of an array-valued result of length n"""
    import awkward as ak
    if isinstance(res, vector.backends.numpy.VectorNumpy):
        return [elem_value(res.view(numpy.ndarray)[i]) for i in range(n)]
    if isinstance(res, numpy.ndarray):
        return [("s", res[i]) for i in range(n)]
    if isinstance(res, ak.Array):
        if ak.fields(res):
            names = tuple(GEN.get(f, f) for f in ak.fields(res))
            cols = [ak.to_list(res[f]) for f in ak.fields(res)]
            return [("v", names, [float(c[i]) for c in cols]) if all(c[i] is not None for c in cols) else None for i in range(n)]
        return [("s", x) if x is not None else None for x in ak.to_list(res)]
    return [elem_value(res)] * n   # scalar / single object broadcast


def compare_elem(a, b, scale):
    if a is None or b is None:
        return a is None and b is None
    if a[0] != b[0]:
        return False
    if a[0] == "s":
        return close64(a[1], b[1], scale)
    return a[1] == b[1] and all(close64(x, y, scale) for x, y in zip(a[2], b[2]))


def value_lattice(ctx):
    """element i of an array result == object-backend result for element i  (C03)"""
    import awkward as ak
    r = C.rng(ctx.seed, "value-lattice")
    bad, n_calls, n_elems, samples = [], 0, 0, []
    dist = {}
    for dim in (2, 3, 4):
        dsigs = C.SIGS[dim]          # every stored system in every tier; the quick tier draws one flavor per system
        for sig in dsigs:
            for fl in ("g", "m") if ctx.tier == "thorough" else (r.choice("gm"),):
                pts = C.strata_points(dim, r, n_random=4)
                r.shuffle(pts)
                rows = [C.cart_to_stored(sig, p) for p in pts[:6]]
                scale = max(abs(x) for row in rows for x in row)
                objs = [C.obj_vec(fl, sig, row) for row in rows]
                arrs = {"N.": C.np_array(fl, sig, rows), "A.": C.ak_array(fl, sig, rows),
                        "J.": ak.unflatten(C.ak_array(fl, sig, rows), [2, 0, 3, 1]),
                        "O.": ak.mask(C.ak_array(fl, sig, rows), [True, True, False, True, True, False])}
                # second operand
                sig2 = r.choice(C.SIGS[dim])
                fl2 = r.choice("gm")
                rows2 = [C.cart_to_stored(sig2, p) for p in C.strata_points(dim, r, n_random=8)[-6:]]
                objs2 = [C.obj_vec(fl2, sig2, row) for row in rows2]
                arrs2 = {"N.": C.np_array(fl2, sig2, rows2), "A.": C.ak_array(fl2, sig2, rows2), "o": objs2[0]}
                b3rows = [[0.1 * x for x in C.cart_to_stored(("xy", "z"), p)] for p in C.strata_points(3, r, n_random=8)[-6:]]
                for tag, arr in arrs.items():
                    flat = ak.flatten(arr, axis=None) if False else arr
                    calls = [(m, [], False) for m in VAL_UNARY] + [(m, a, False) for m, a in VAL_UNARY_VEC]
                    for m, a, _ in calls:
                        if not hasattr(objs[0], m):
                            continue
                        n_calls += 1
                        try:
                            at = getattr(arr, m)
                            res = at(*a) if callable(at) else at
                        except Exception as e:  # noqa: BLE001
                            bad.append((f"{m}{a} on {tag}{fl}:{sig}", f"array backend raises {type(e).__name__}: {str(e)[:80]}", "values:" + tag + m))
                            continue
                        want = []
                        for o in objs:
                            ao = getattr(o, m)
                            want.append(elem_value(ao(*a) if callable(ao) else ao))
                        if tag == "J.":
                            if [len(x) for x in ak.to_list(res if not ak.fields(res) else res[ak.fields(res)[0]])] != [2, 0, 3, 1]:
                                bad.append((f"{m} on jagged {fl}:{sig}", "list structure not preserved", "structure:" + m))
                                continue
                            res = ak.flatten(res)
                        if tag == "O.":
                            want = [w if i not in (2, 5) else None for i, w in enumerate(want)]
                        got = flatten_result(res, len(rows))
                        for i, (g, w) in enumerate(zip(got, want)):
                            n_elems += 1
                            if not compare_elem(g, w, scale):
                                bad.append((f"{m}{a} on {tag}{fl}:{sig} element {i} stored {rows[i]}", f"array {g} object {w}", f"values:{tag}{m}"))
                                break
                        dist[tag] = dist.get(tag, 0) + 1
                    # scalar arguments given as ARRAYS of numbers (NumPy array, Awkward array, list): element i uses scalar i
                    if tag in ("N.", "A.", "J."):
                        ks = [0.5 + 0.25 * i for i in range(len(rows))]
                        forms = {"numpy": numpy.array(ks)} if tag == "N." else \
                            {"numpy": numpy.array(ks), "awkward": ak.Array(ks)} if tag == "A." else {"awkward-jagged": ak.unflatten(ak.Array(ks), [2, 0, 3, 1])}
                        acalls = [("scale", "pos"), ("rotateZ", "pos")] + ([("rotateX", "pos"), ("rotateY", "pos")] if len(sig) >= 2 else []) + \
                            ([("boostX", "beta"), ("boostZ", "beta")] if len(sig) == 3 else []) + \
                            ([("to_Vector3D", "z")] if len(sig) == 1 else []) + ([("to_Vector4D", "t")] if len(sig) == 2 else [])
                        for fname, kv in forms.items():
                            for m, how in acalls:
                                if fname == "list" and m.startswith("to_"):
                                    continue
                                n_calls += 1
                                sc_ = [0.1 * k for k in ks] if how == "beta" else ks
                                arg = kv if how != "beta" else (kv * 0.1 if not isinstance(kv, list) else [0.1 * k for k in kv])
                                try:
                                    res = getattr(arr, m)(arg) if how == "pos" else getattr(arr, m)(**{how: arg})
                                    want = [elem_value(getattr(o, m)(k) if how == "pos" else getattr(o, m)(**{how: k})) for o, k in zip(objs, sc_)]
                                except Exception as e:  # noqa: BLE001
                                    bad.append((f"{m}({fname} array) on {tag}{fl}:{sig}", f"raises {type(e).__name__}: {str(e)[:80]}", f"values:array-arg:{tag}{m}"))
                                    continue
                                if tag == "J.":
                                    res = ak.flatten(res)
                                got = flatten_result(res, len(rows))
                                for i, (g, w) in enumerate(zip(got, want)):
                                    n_elems += 1
                                    if not compare_elem(g, w, scale):
                                        bad.append((f"{m}({fname} array of scalars) on {tag}{fl}:{sig} element {i} stored {rows[i]} scalar {sc_[i]}",
                                                    f"array {g} object {w}", f"values:array-arg:{tag}{m}"))
                                        break
                                dist[tag + "array-arg"] = dist.get(tag + "array-arg", 0) + 1
                    if tag in ("J.", "O."):
                        continue
                    for t2, other in arrs2.items():
                        for m in VAL_BINARY:
                            if not hasattr(objs[0], m):
                                continue
                            if m == "boost_beta3":
                                other_b = {"N.": C.np_array("g", ("xy", "z"), b3rows), "A.": C.ak_array("g", ("xy", "z"), b3rows),
                                           "o": C.obj_vec("g", ("xy", "z"), b3rows[0])}[t2]
                                oth_objs = [C.obj_vec("g", ("xy", "z"), rw) for rw in b3rows]
                            else:
                                other_b, oth_objs = other, objs2
                            n_calls += 1
                            try:
                                res = getattr(arr, m)(other_b)
                                raised = None
                            except Exception as e:  # noqa: BLE001
                                raised = type(e).__name__
                            try:
                                want = [elem_value(getattr(o, m)(oth_objs[0] if t2 == "o" else oth_objs[i])) for i, o in enumerate(objs)]
                                wraised = None
                            except Exception as e:  # noqa: BLE001
                                wraised = type(e).__name__
                            if raised or wraised:
                                if raised != wraised:
                                    bad.append((f"{m} {tag}{fl}:{sig} with {t2}{fl2}:{sig2}", f"array raises {raised}, object raises {wraised}", f"raises:{tag}{t2}{m}"))
                                continue
                            got = flatten_result(res, len(rows))
                            for i, (g, w) in enumerate(zip(got, want)):
                                n_elems += 1
                                if not compare_elem(g, w, scale):
                                    bad.append((f"{m} {tag}{fl}:{sig} with {t2}{fl2}:{sig2} element {i}: {rows[i]} / {rows2[i]}", f"array {g} object {w}", f"values:{tag}{t2}{m}"))
                                    break
                            dist[tag + t2] = dist.get(tag + t2, 0) + 1
                if len(samples) < 3:
                    samples.append({"sig": sig, "flavor": fl, "rows": rows[:2], "second": [sig2, fl2]})
    return bad, {"calls": n_calls, "elements_compared": n_elems, "backend_distribution": dist}, samples


# ------------------------------------------------------------------------------------------------ C04/C03: dimension changes on arrays
KW_LON = [("z", 2.5), ("theta", 0.75), ("eta", -1.25)]
KW_TMP = [("t", 7.75), ("tau", 0.13957)]
KW_TMP_MOM = [("E", 7.75), ("e", 6.5), ("energy", 5.25), ("M", 0.13957), ("m", 0.511), ("mass", 1.875)]
INT_RANGES = {"x": (-5, 5), "y": (-5, 5), "rho": (1, 6), "phi": (-3, 3), "z": (-4, 4), "theta": (1, 3), "eta": (-2, 2), "t": (9, 14), "tau": (0, 5)}


def int_rows(r, sig, n):
    return [[r.randint(*INT_RANGES[c]) or 1 for c in C.signames(sig)] for _ in range(n)]


def typed_array(tag, fl, sig, rows, dtype):
    names = C.field_names(fl, sig)
    cols = {nm: numpy.array([row[j] for row in rows], dtype=dtype) for j, nm in enumerate(names)}
    return vector.array(cols) if tag == "N." else vector.zip(cols)


def dimension_lattice(ctx):
    """to_Vector2D/3D/4D, to_2D/3D/4D, like and to_<system>(keyword) on NumPy and Awkward arrays whose stored columns are float64,
    int64 or float32: element i must equal the object-backend result for element i — retained stored coordinates and imputed
    keyword values EXACTLY (C04: bit-for-bit), computed coordinates within rounding.  -> (bad, stats)"""
    r = C.rng(ctx.seed, "dimension-lattice")
    bad, n_calls, n_elems = [], 0, 0
    dist = {}
    thorough = True          # the whole signature set in every tier (2 s)
    for dtype in (numpy.float64, numpy.int64, numpy.float32):
        for tag in ("N.", "A."):
            for dim in (2, 3, 4):
                sigs = C.SIGS[dim] if thorough else r.sample(C.SIGS[dim], min(3, len(C.SIGS[dim])))
                for sig in sigs:
                    for fl in (("g", "m") if thorough else (r.choice("gm"),)):
                        rows = int_rows(r, sig, 4)
                        if dtype is numpy.float64:
                            rows = [[x + 0.5 if c in ("x", "y", "z", "eta") else x + 0.25 for x, c in zip(row, C.signames(sig))] for row in rows]
                        arr = typed_array(tag, fl, sig, rows, dtype)
                        objs = [C.obj_vec(fl, sig, row) for row in rows]
                        calls = []
                        kl, vl = r.choice(KW_LON)
                        kt, vt = r.choice(KW_TMP + (KW_TMP_MOM if fl == "m" else []))
                        if fl == "m" and kl == "z" and r.random() < 0.5:
                            kl = "pz"
                        if dim == 2:
                            calls += [("to_Vector3D", {kl: vl}, True), ("to_3D", {kl: vl}, True), ("to_Vector3D", {}, True),
                                      ("to_Vector4D", {kl: vl, kt: vt}, True), ("to_4D", {kt: vt}, True), ("to_Vector4D", {kl: vl}, True),
                                      ("to_xyz", {"z": 0.5}, False), ("to_rhophieta", {"eta": -0.75}, False),
                                      ("to_xythetatau", {"theta": 1.25, "tau": 0.3}, False), ("to_rhophizt", {"z": 1.5}, False)]
                            if fl == "m":
                                calls += [("to_ptphietamass", {"eta": 0.625, "mass": 0.13957}, False), ("to_pxpypzenergy", {"pz": 1.5, "energy": 9.25}, False)]
                        if dim == 3:
                            calls += [("to_Vector4D", {kt: vt}, True), ("to_4D", {kt: vt}, True), ("to_Vector4D", {}, True), ("to_Vector2D", {}, True),
                                      ("to_2D", {}, True), ("to_Vector3D", {}, True), ("to_xyzt", {"t": 7.5}, False), ("to_rhophietatau", {"tau": 0.3}, False)]
                            if fl == "m":
                                calls += [("to_ptphietamass", {"mass": 0.13957}, False), ("to_pxpythetaenergy", {"energy": 9.25}, False)]
                        if dim == 4:
                            calls += [("to_Vector3D", {}, True), ("to_3D", {}, True), ("to_Vector2D", {}, True), ("to_Vector4D", {}, True)]
                        # like(): projection / embedding with zeros, other operand in either backend
                        for d2 in (2, 3, 4):
                            s2 = r.choice(C.SIGS[d2])
                            other = C.obj_vec(r.choice("gm"), s2, int_rows(r, s2, 1)[0])
                            calls.append(("like", other, True))
                        # an imputed coordinate given as an array of values
                        if dim == 2 and tag == "N.":
                            calls.append(("to_Vector3D", {"z": numpy.array([0.5, 1.5, 2.5, 3.5])}, True))
                        for m, kw, exact in calls:
                            n_calls += 1
                            key = f"dimension:{tag}{numpy.dtype(dtype).name}:{m}"
                            desc = f"{m}({kw if isinstance(kw, dict) else 'other=' + str(kw)}) on {tag}{fl}:{sig} dtype {numpy.dtype(dtype).name}"
                            try:
                                res = getattr(arr, m)(**kw) if isinstance(kw, dict) else getattr(arr, m)(kw)
                                want = []
                                for i, o in enumerate(objs):
                                    kwi = {k: (float(v[i]) if isinstance(v, numpy.ndarray) else v) for k, v in kw.items()} if isinstance(kw, dict) else None
                                    want.append(elem_value(getattr(o, m)(**kwi) if kwi is not None else getattr(o, m)(kw)))
                            except Exception as e:  # noqa: BLE001
                                bad.append((desc, f"raises {type(e).__name__}: {str(e)[:100]}", key))
                                continue
                            got = flatten_result(res, len(rows))
                            for i, (g, w) in enumerate(zip(got, want)):
                                n_elems += 1
                                same = g is not None and g[0] == w[0] == "v" and g[1] == w[1] and (
                                    all(float(x) == float(y) for x, y in zip(g[2], w[2])) if exact and dtype is not numpy.float32
                                    else all(close64(x, y, 10.0) if dtype is not numpy.float32 else abs(float(x) - float(y)) <= 1e-5 * max(1.0, abs(float(y)))
                                             for x, y in zip(g[2], w[2])))
                                if exact and dtype is numpy.float32 and same:
                                    # float32 storage: retained columns are float32 values (exactly representable), imputed values exact
                                    same = all(float(x) == float(y) for x, y in zip(g[2], w[2]))
                                if not same:
                                    bad.append((f"{desc} element {i} stored {rows[i]}", f"array {g} object {w}", key))
                                    break
                            dist[tag + numpy.dtype(dtype).name] = dist.get(tag + numpy.dtype(dtype).name, 0) + 1
    return bad, {"dimension_calls": n_calls, "dimension_elements": n_elems, "dimension_distribution": dist}


# ------------------------------------------------------------------------------------------------ C03: column dtypes other than float64
DT_UNARY_VEC = [("scale", [0.5]), ("scale", [-1.25]), ("rotateZ", [0.7]), ("rotateX", [-1.1]), ("rotateY", [0.4]), ("unit", []), ("boostX", [0.6]),
                ("boostY", [-0.3]), ("boostZ", [0.45]), ("rotate_axis", None), ("rotate_euler", [0.3, 1.2, -0.4]), ("rotate_quaternion", [0.5, 0.5, 0.5, 0.5]),
                ("transform2D", None), ("neg2D", []), ("neg3D", []), ("neg4D", []), ("to_beta3", []), ("scale2D", [1.5]), ("scale3D", [2.5])]
DT_BINARY = ["add", "subtract", "cross", "boost_p4", "boost_beta3", "dot", "deltaphi", "deltaR", "deltaangle", "equal", "not_equal"]
DT_OPS = [("v * 0.5", lambda v: v * 0.5), ("0.25 * v", lambda v: 0.25 * v), ("v / 4", lambda v: v / 4), ("-v", lambda v: -v), ("+v", lambda v: +v),
          ("abs(v)", abs), ("v ** 2", lambda v: v ** 2)]


def dtype_value_lattice(ctx):
    """every vector-valued method and operator on NumPy / Awkward arrays whose stored columns are int64, int32, float32 or
    mixed (one int column among float64 ones): element i must equal the object-backend result for the same (integral) coordinates —
    freshly computed coordinates must not be cast back into the operand's column types.  -> (bad, stats)"""
    import awkward as ak
    r = C.rng(ctx.seed, "dtype-value-lattice")
    bad, n_calls, n_elems, dist = [], 0, 0, {}

    def tol_ok(g, w, f32):
        def near(x, y):
            x, y = float(x), float(y)
            if math.isnan(x) or math.isnan(y):
                return math.isnan(x) and math.isnan(y)
            if math.isinf(x) or math.isinf(y):
                return x == y
            return abs(x - y) <= (2e-5 if f32 else 1e-12) * max(1.0, abs(y), 10.0)
        if g is None or w is None or g[0] != w[0]:
            return False
        if g[0] == "s":
            if isinstance(w[1], (bool, numpy.bool_)) or isinstance(g[1], (bool, numpy.bool_)):
                return bool(g[1]) == bool(w[1])
            return near(g[1], w[1])
        return g[1] == w[1] and all(near(x, y) for x, y in zip(g[2], w[2]))

    for dtname in ("int64", "int32", "float32", "mixed"):
        for tag in ("N.", "A."):
            for dim in (2, 3, 4):
                for sig in C.SIGS[dim]:
                    fl = r.choice("gm")
                    rows = int_rows(r, sig, 4)
                    names = C.field_names(fl, sig)
                    if dtname == "mixed":
                        j = r.randrange(len(names))
                        cols = {nm: numpy.array([row[i] for row in rows], dtype=numpy.int64 if i == j else numpy.float64) for i, nm in enumerate(names)}
                    else:
                        cols = {nm: numpy.array([row[i] for row in rows], dtype=getattr(numpy, dtname)) for i, nm in enumerate(names)}
                    arr = vector.array(cols) if tag == "N." else vector.zip(cols)
                    objs = [C.obj_vec(fl, sig, [float(x) for x in row]) for row in rows]
                    f32 = dtname == "float32"
                    sig2 = r.choice(C.SIGS[dim])
                    rows2 = int_rows(r, sig2, 4)
                    other = C.obj_vec(r.choice("gm"), sig2, [float(x) + 0.5 for x in rows2[0]])
                    axis = C.obj_vec("g", ("xy", "z"), [1.0, -2.0, 0.5])
                    beta = C.obj_vec("g", ("xy", "z"), [0.25, -0.125, 0.5])
                    thunks = []
                    for m, a in DT_UNARY_VEC:
                        if not hasattr(objs[0], m):
                            continue
                        if m == "rotate_axis":
                            a = [axis, 0.9]
                        if m == "transform2D":
                            a = [{"xx": 0.5, "xy": 1.5, "yx": -0.25, "yy": 2.0}]
                        thunks.append((f"{m}{tuple(x for x in a if not hasattr(x, 'azimuthal'))}", (lambda v, m=m, a=a: (getattr(v, m)(*a) if callable(getattr(v, m)) else getattr(v, m)))))
                    for m in DT_BINARY:
                        if not hasattr(objs[0], m):
                            continue
                        o2 = beta if m == "boost_beta3" else other
                        if m == "cross" and dim != 3:
                            continue
                        thunks.append((f"{m}(object)", (lambda v, m=m, o2=o2: getattr(v, m)(o2))))
                    thunks += DT_OPS
                    for label, fn in thunks:
                        n_calls += 1
                        key = f"dtype:{tag}{dtname}:{label.split('(')[0]}"
                        desc = f"{label} on {tag}{fl}:{sig} columns {dtname}"
                        try:
                            res = fn(arr)
                            want = [elem_value(fn(o)) for o in objs]
                        except Exception as e:  # noqa: BLE001
                            bad.append((desc, f"raises {type(e).__name__}: {str(e)[:100]}", key))
                            continue
                        got = flatten_result(res, len(rows))
                        for i, (g, w) in enumerate(zip(got, want)):
                            n_elems += 1
                            if not tol_ok(g, w, f32):
                                # an azimuthal difference of exactly +-pi sits on the branch cut of the wrap into [-pi, pi]: float32 and
                                # float64 arithmetic may legitimately land on opposite ends (ill-conditioned, not a disagreement)
                                if label.startswith("deltaphi") and g and w and g[0] == w[0] == "s" and \
                                        abs(abs(float(g[1])) - math.pi) < 1e-5 and abs(abs(float(w[1])) - math.pi) < 1e-5:
                                    continue
                                # float32 columns: is the operation WELL-CONDITIONED at this element?  Perturb the stored coordinates by one float32
                                # ulp (relative 1.2e-7) in float64 on the object backend: if that alone moves the result by more than a tenth of the
                                # tolerance (cancellation, e.g. unit() of a nearly light-like vector: tau2 = t^2 - p^2), float32 and float64
                                # arithmetic may legitimately differ here - "well-conditioned values" is the property's own proviso
                                if f32:
                                    try:
                                        moved = False
                                        for sgn in ((1, -1, 1, -1), (-1, 1, 1, -1), (1, 1, -1, -1)):
                                            o_p = C.obj_vec(fl, sig, [float(x) * (1 + 1.2e-7 * sg) for x, sg in zip(rows[i], sgn)])
                                            w_p = elem_value(fn(o_p))
                                            if w_p is None or w is None or w_p[0] != w[0]:
                                                continue
                                            a_, b_ = ([w_p[1]], [w[1]]) if w[0] == "s" else (list(w_p[2]), list(w[2]))
                                            if any(abs(float(x) - float(y)) > 2e-6 * max(10.0, abs(float(y))) for x, y in zip(a_, b_) if not isinstance(y, (bool, numpy.bool_))):
                                                moved = True
                                        if moved:
                                            dist["ill-conditioned-float32-skipped"] = dist.get("ill-conditioned-float32-skipped", 0) + 1
                                            continue
                                    except Exception:  # noqa: BLE001
                                        pass
                                bad.append((f"{desc} element {i} stored {rows[i]}", f"array {g} object {w}", key))
                                break
                        dist[tag + dtname] = dist.get(tag + dtname, 0) + 1
    return bad, {"dtype_calls": n_calls, "dtype_elements": n_elems, "dtype_distribution": dist}


def function_form_lattice(ctx):
    """the NumPy FUNCTION forms with the operands in EITHER order and of either flavor - numpy.isclose / allclose / equal / not_equal / add /
    subtract / matmul / multiply(k, v) given (object, array), (array, object), (generic array, momentum array), (momentum array, generic
    array): element i equals the object-backend result for element i (NumPy dispatches on the subclass / on whichever operand is an array,
    which need not be the first)  -> (bad, stats)"""
    r = C.rng(ctx.seed, "function-forms")
    bad, n = [], 0
    for dim in (2, 3, 4):
        for sig in (C.SIGS[dim] if ctx.tier == "thorough" else r.sample(C.SIGS[dim], 2)):
            sig2 = r.choice(C.SIGS[dim])
            rows = [C.cart_to_stored(sig, p) for p in C.strata_points(dim, r, n_random=2)[:4]]
            rows2 = [C.cart_to_stored(sig2, p) for p in C.strata_points(dim, r, n_random=2)[:4]]
            rows2[1] = [float(x) for x in C.stored(getattr(C.obj_vec("g", sig, rows[1]), "to_" + "".join(C.signames(sig2)))())]     # one equal element
            for fa, fb in (("g", "m"), ("m", "g"), ("g", "g")):
                A, B = C.np_array(fa, sig, rows), C.np_array(fb, sig2, rows2)
                oa, ob = [C.obj_vec(fa, sig, x) for x in rows], [C.obj_vec(fb, sig2, x) for x in rows2]
                forms = [("numpy.isclose", lambda u, v: numpy.isclose(u, v), lambda u, v: u.isclose(v)), ("numpy.equal", lambda u, v: numpy.equal(u, v), lambda u, v: u.equal(v)),
                         ("numpy.not_equal", lambda u, v: numpy.not_equal(u, v), lambda u, v: u.not_equal(v)), ("numpy.add", lambda u, v: numpy.add(u, v), lambda u, v: u.add(v)),
                         ("numpy.subtract", lambda u, v: numpy.subtract(u, v), lambda u, v: u.subtract(v)), ("numpy.matmul", lambda u, v: numpy.matmul(u, v), lambda u, v: u.dot(v)),
                         ("numpy.isclose(rtol=0.5)", lambda u, v: numpy.isclose(u, v, rtol=0.5, atol=0.25), lambda u, v: u.isclose(v, rtol=0.5, atol=0.25))]
                pairings = [("array, array", A, B, oa, ob), ("array, object", A, ob[1], oa, [ob[1]] * 4), ("object, array", oa[1], B, [oa[1]] * 4, ob)]
                for fname, ff, fm in forms:
                    for pname, u, v, ou, ov in pairings:
                        n += 1
                        key = f"function-form:{fname}:{pname}:{fa}{fb}"
                        try:
                            want = [elem_value(fm(x, y)) for x, y in zip(ou, ov)]
                        except Exception:  # noqa: BLE001
                            continue
                        try:
                            got = flatten_result(ff(u, v), 4)
                        except Exception as e:  # noqa: BLE001
                            bad.append((f"{fname}({pname}) {fa}:{sig} / {fb}:{sig2}", f"raises {type(e).__name__}: {str(e)[:80]} while the method form works", key))
                            continue
                        for i, (g, w) in enumerate(zip(got, want)):
                            if not compare_elem(g, w, 10.0):
                                bad.append((f"{fname}({pname}) {fa}:{sig} / {fb}:{sig2} element {i}", f"function form {g}, method form on the elements {w}", key))
                                break
                # allclose in every pairing
                for pname, u, v, ou, ov in [("array, array", A, B, oa, ob), ("array, object", A, ob[1], oa, [ob[1]] * 4), ("object, array", oa[1], B, [oa[1]] * 4, ob)]:
                    n += 1
                    try:
                        want = all(bool(x.isclose(y)) for x, y in zip(ou, ov))
                        got = bool(numpy.allclose(u, v))
                        if got != want:
                            bad.append((f"numpy.allclose({pname}) {fa}:{sig} / {fb}:{sig2}", f"{got}, all(isclose) of the elements is {want}", f"function-form:numpy.allclose:{pname}:{fa}{fb}"))
                    except Exception as e:  # noqa: BLE001
                        bad.append((f"numpy.allclose({pname}) {fa}:{sig} / {fb}:{sig2}", f"raises {type(e).__name__}: {str(e)[:80]}", f"function-form:numpy.allclose:{pname}:{fa}{fb}"))
    return bad, {"function_form_calls": n}


# ------------------------------------------------------------------------------------------------ C05/C11: operators and ufuncs = methods (values)
def _canon(res, n):
    """per-element canonical values of a result (array of vectors / numbers, or single vector / number)"""
    import awkward as ak
    if isinstance(res, ak.Array) and res.ndim > 1:
        res = ak.flatten(res)
    return flatten_result(res, n)


def operator_value_lattice(ctx):
    """every operator / numpy ufunc form gives the value AND type of the method it stands for, on the object, NumPy and Awkward
    (flat and jagged) backends: * / unary - + abs ** numpy.{absolute,square,sqrt,cbrt,power,multiply,divide,negative,positive}
    against scale / rho|mag|tau / rho2|mag2|tau2, and + - @ == != numpy.{add,subtract,matmul,equal,not_equal} against
    add / subtract / dot / equal / not_equal.   -> (bad, stats)"""
    import awkward as ak
    r = C.rng(ctx.seed, "operator-values")
    bad, n_forms, n_elems = [], 0, 0
    dist = {}
    thorough = True          # every stored system in every tier (11 s)
    for dim in (2, 3, 4):
        nrm = {2: "rho", 3: "mag", 4: "tau"}[dim]
        nrm2 = nrm + "2"
        sigs = C.SIGS[dim] if thorough else r.sample(C.SIGS[dim], min(3, len(C.SIGS[dim])))
        for sig in sigs:
            for fl in "gm":
                pts = C.strata_points(dim, r, n_random=2)
                r.shuffle(pts)
                rows = [C.cart_to_stored(sig, p) for p in pts[:6]]
                sig2 = r.choice(C.SIGS[dim])
                fl2 = r.choice("gm")
                rows2 = [C.cart_to_stored(sig2, p) for p in C.strata_points(dim, r, n_random=6)[-6:]]
                n = len(rows)
                ops = {"": (C.obj_vec(fl, sig, rows[0]), C.obj_vec(fl2, sig2, rows2[0]), 1),
                       "N.": (C.np_array(fl, sig, rows), C.np_array(fl2, sig2, rows2), n),
                       "A.": (C.ak_array(fl, sig, rows), C.ak_array(fl2, sig2, rows2), n),
                       "J.": (ak.unflatten(C.ak_array(fl, sig, rows), [2, 0, 3, 1]), ak.unflatten(C.ak_array(fl2, sig2, rows2), [2, 0, 3, 1]), n)}
                for tag, (v, w, cnt) in ops.items():
                    k = r.choice([2.5, -1.5, 0.25])
                    forms = [
                        ("v * k", lambda: v * k, lambda: v.scale(k)), ("k * v", lambda: k * v, lambda: v.scale(k)),
                        ("numpy.multiply(v, k)", lambda: numpy.multiply(v, k), lambda: v.scale(k)),
                        ("v / k", lambda: v / k, lambda: v.scale(1 / k)), ("numpy.true_divide(v, k)", lambda: numpy.true_divide(v, k), lambda: v.scale(1 / k)),
                        ("-v", lambda: -v, lambda: v.scale(-1)), ("numpy.negative(v)", lambda: numpy.negative(v), lambda: v.scale(-1)),
                        ("+v", lambda: +v, lambda: v),
                        ("abs(v)", lambda: abs(v), lambda: getattr(v, nrm)), ("numpy.absolute(v)", lambda: numpy.absolute(v), lambda: getattr(v, nrm)),
                        ("v ** 2", lambda: v ** 2, lambda: getattr(v, nrm2)), ("numpy.square(v)", lambda: numpy.square(v), lambda: getattr(v, nrm2)),
                        ("numpy.power(v, 2)", lambda: numpy.power(v, 2), lambda: getattr(v, nrm2)),
                        ("v ** 3", lambda: v ** 3, lambda: getattr(v, nrm) ** 3), ("v ** 0.5", lambda: v ** 0.5, lambda: getattr(v, nrm) ** 0.5),
                        ("v ** -1", lambda: v ** -1, lambda: getattr(v, nrm) ** -1.0),
                        ("numpy.power(v, 1.5)", lambda: numpy.power(v, 1.5), lambda: getattr(v, nrm) ** 1.5),
                        ("numpy.sqrt(v)", lambda: numpy.sqrt(v), lambda: getattr(v, nrm) ** 0.5),
                        ("numpy.cbrt(v)", lambda: numpy.cbrt(v), lambda: getattr(v, nrm) ** (1 / 3)),
                        ("v + w", lambda: v + w, lambda: v.add(w)), ("numpy.add(v, w)", lambda: numpy.add(v, w), lambda: v.add(w)),
                        ("v - w", lambda: v - w, lambda: v.subtract(w)), ("numpy.subtract(v, w)", lambda: numpy.subtract(v, w), lambda: v.subtract(w)),
                        ("v @ w", lambda: v @ w, lambda: v.dot(w)), ("numpy.matmul(v, w)", lambda: numpy.matmul(v, w), lambda: v.dot(w)),
                        ("v == w", lambda: v == w, lambda: v.equal(w)), ("v != w", lambda: v != w, lambda: v.not_equal(w)),
                        ("v == v", lambda: v == v, lambda: v.equal(v)),
                        ("numpy.equal(v, w)", lambda: numpy.equal(v, w), lambda: v.equal(w)),
                        ("numpy.not_equal(v, w)", lambda: numpy.not_equal(v, w), lambda: v.not_equal(w)),
                    ]
                    scale = max(abs(x) for row in rows + rows2 for x in row)
                    from harness.arrays import snapshot
                    snap_v, snap_w = snapshot(v), snapshot(w)
                    for name, fo, fm in forms:
                        n_forms += 1
                        key = f"operator:{tag}{name}"
                        desc = f"{name} on {tag or 'object '}{fl}:{sig}" + (f" with {fl2}:{sig2}" if " w" in name else "") + (f" k={k}" if "k" in name else "")
                        try:
                            want = fm()
                        except Exception:  # noqa: BLE001  (method itself undefined here: nothing to compare)
                            continue
                        try:
                            got = fo()
                        except Exception as e:  # noqa: BLE001
                            if tag in ("A.", "J.") and "matmul" in name + str(e) and isinstance(e, NotImplementedError):
                                key = "awkward-matmul"
                            bad.append((desc, f"operator form raises {type(e).__name__}: {str(e)[:80]}; the method returns a value", key))
                            continue
                        finally:
                            if snapshot(v) != snap_v or snapshot(w) != snap_w:     # C16: no operator form may touch its operands
                                bad.append((desc, "an operand's stored data changed (coordinates, dtype, shape, flags or fields)", f"operand-modified:{tag}{name}"))
                                snap_v, snap_w = snapshot(v), snapshot(w)
                        tg, tw = type_of(got), type_of(want)
                        if tg != tw:
                            bad.append((desc, f"operator form returns {tg}, method returns {tw}", key))
                            continue
                        cg, cw = _canon(got, cnt), _canon(want, cnt)
                        for i, (g, w_) in enumerate(zip(cg, cw)):
                            n_elems += 1
                            if not compare_elem(g, w_, scale ** 3):
                                bad.append((f"{desc} element {i}: {rows[i]}", f"operator form {g}, method {w_}", key))
                                break
                        dist[tag or "obj"] = dist.get(tag or "obj", 0) + 1
    return bad, {"operator_forms": n_forms, "operator_elements": n_elems, "operator_distribution": dist}


# ------------------------------------------------------------------------------------------------ documented signatures: keyword = positional
def keyword_lattice(ctx):
    """For every public method of the DOCUMENTED protocol classes (vector._methods.VectorProtocol*, read with inspect.signature) the
    call with the documented parameter NAMES as keywords, in reversed order, gives the same result as the positional call in the
    documented ORDER, and documented defaults equal passing the default explicitly — on the object, NumPy and Awkward backends.
    -> (bad, stats)"""
    import inspect
    from vector import _methods as M
    r = C.rng(ctx.seed, "keyword-lattice")
    bad, n = [], 0
    protos = {2: (M.VectorProtocol, M.VectorProtocolPlanar), 3: (M.VectorProtocol, M.VectorProtocolPlanar, M.VectorProtocolSpatial),
              4: (M.VectorProtocol, M.VectorProtocolPlanar, M.VectorProtocolSpatial, M.VectorProtocolLorentz)}
    NUM = {"factor": 2.5, "angle": 0.7, "phi": 0.4, "theta": -1.2, "psi": 2.1, "yaw": 0.3, "pitch": -0.8, "roll": 1.9, "u": 0.5, "i": 0.1, "j": -0.7, "k": 0.5,
           "tolerance": 0.01, "rtol": 1e-3, "atol": 1e-6, "equal_nan": False, "beta": 0.3, "order": "yzx"}
    for dim in (2, 3, 4):
        sig = r.choice(C.SIGS[dim])
        fl = r.choice("gm")
        rows = [C.cart_to_stored(sig, p) for p in C.strata_points(dim, r, n_random=2)[:4]]
        rows2 = [C.cart_to_stored(sig, p) for p in C.strata_points(dim, r, n_random=4)[-4:]]
        axis_rows = [C.cart_to_stored(("xy", "z"), p) for p in C.strata_points(3, r, n_random=4)[-4:]]
        beta_rows = [[0.1 * x for x in row] for row in axis_rows]
        for tag in ("", "N.", "A."):
            v, w = operand(tag, fl, sig, rows), operand(tag, fl, sig, rows2)
            extra = {"other": w, "axis": operand(tag, "g", ("xy", "z"), axis_rows), "beta3": operand(tag, "g", ("xy", "z"), beta_rows), "p4": w, "booster": w,
                     "obj": {k: round(0.3 + 0.17 * i * (-1) ** i, 3) for i, k in enumerate([a + b for a in "xyzt"[:dim] for b in "xyzt"[:dim]])}}
            methods = {}
            for P in protos[dim]:
                for name, f in vars(P).items():
                    if not name.startswith("_") and callable(f):
                        methods[name] = f            # later (more specific) protocol classes override
            for name, f in sorted(methods.items()):
                try:
                    params = list(inspect.signature(f).parameters.values())[1:]
                except (TypeError, ValueError):
                    continue
                if not params or name.startswith(("to_", "from_")) or (name.startswith("transform") and int(name[9]) != dim):
                    continue
                if name.startswith("boost") and name[5:6] in "XYZ":
                    params = [p for p in params if p.name == "beta"]
                vals = {}
                for p in params:
                    vals[p.name] = extra[p.name] if p.name in extra else NUM.get(p.name)
                if any(x is None for x in vals.values()):
                    bad.append((f"{name} on {tag}{dim}D", f"documented parameter without a test value: {[p.name for p in params]}", f"keyword:untested:{name}"))
                    continue
                n += 1
                desc = f"{name}({', '.join(p.name for p in params)}) on {tag or 'object '}{fl}:{sig}"
                try:
                    pos = getattr(v, name)(*[vals[p.name] for p in params])
                except Exception as e:  # noqa: BLE001  (undefined for this dimension: nothing to compare)
                    continue
                try:
                    kw = getattr(v, name)(**{p.name: vals[p.name] for p in reversed(params)})
                except Exception as e:  # noqa: BLE001
                    bad.append((desc, f"keyword call with the documented names raises {type(e).__name__}: {str(e)[:80]}", f"keyword:{name}"))
                    continue
                if type_of(pos) != type_of(kw) or any(not compare_elem(a_, b_, 10.0) for a_, b_ in zip(_canon(pos, len(rows)), _canon(kw, len(rows)))):
                    bad.append((desc, f"keyword call gives {str(_canon(kw, len(rows))[0])[:90]}, positional call in the documented order gives {str(_canon(pos, len(rows))[0])[:90]}",
                                f"keyword:{name}"))
                    continue
                # documented defaults
                dflt = [p for p in params if p.default is not inspect.Parameter.empty and p.default is not None]
                if dflt and not (name.startswith("boost") and name[5:6] in "XYZ"):
                    req = [p for p in params if p not in dflt]
                    try:
                        a_ = getattr(v, name)(*[vals[p.name] for p in req])
                        b_ = getattr(v, name)(*[vals[p.name] for p in req], **{p.name: p.default for p in dflt})
                    except Exception as e:  # noqa: BLE001
                        bad.append((desc, f"call with the documented defaults raises {type(e).__name__}: {str(e)[:80]}", f"default:{name}"))
                        continue
                    n += 1
                    if type_of(a_) != type_of(b_) or any(not compare_elem(x_, y_, 10.0) for x_, y_ in zip(_canon(a_, len(rows)), _canon(b_, len(rows)))):
                        bad.append((desc, f"omitting {[p.name for p in dflt]} differs from passing the documented defaults {[p.default for p in dflt]}", f"default:{name}"))
    return bad, {"keyword_calls": n}


# ------------------------------------------------------------------------------------------------ _wrap_result called directly, exhaustively
def wrap_lattice(ctx):
    """`_wrap_result` of every backend (object, NumPy, Awkward array, Awkward record, SymPy) called DIRECTLY with every declared result
    shape that can occur ([az], [az, None], [az, lon], [az, lon, None], [az, lon, tmp] over all coordinate types), every stored system
    of the handler `self` and both flavors of the class passed in: result class (backend, flavor, dimension), coordinate system and the
    SOURCE of every coordinate (raw tuple element r_i or a stored coordinate of self passed through) compared exactly with the Lean
    model `wrapVec` (GlueSym request kind W).  This is the whole finite lattice, every run.  -> (bad, stats)"""
    import awkward as ak
    import sympy
    import vector.backends.sympy as VS
    from vector import _methods as M
    AZ = {"xy": M.AzimuthalXY, "rhophi": M.AzimuthalRhoPhi}
    LON = {"z": M.LongitudinalZ, "theta": M.LongitudinalTheta, "eta": M.LongitudinalEta}
    TMP = {"t": M.TemporalT, "tau": M.TemporalTau}
    shapes = []
    for a in AZ:
        shapes.append(([AZ[a]], f"az={a}"))
        shapes.append(([AZ[a], None], f"az={a},none"))
        for l_ in LON:
            shapes.append(([AZ[a], LON[l_]], f"az={a},lon={l_}"))
            shapes.append(([AZ[a], LON[l_], None], f"az={a},lon={l_},none"))
            for t_ in TMP:
                shapes.append(([AZ[a], LON[l_], TMP[t_]], f"az={a},lon={l_},tmp={t_}"))
    reqs, reals = [], []
    n = 3
    # `_wrap_result` is a PRIVATE interface: if its shape changes (a refactoring, not a property violation) this lattice cannot be
    # driven and says so instead of raising an alarm; the public-API lattices still cover the behaviour
    import inspect
    from vector.backends import object as _O
    try:
        if list(inspect.signature(_O.VectorObject2D._wrap_result).parameters) != ["self", "cls", "result", "returns", "num_vecargs"]:
            raise AttributeError("signature")
    except (AttributeError, TypeError, ValueError):
        if hasattr(ctx, "notes"):
            ctx.notes.append("_wrap_result no longer has the signature (self, cls, result, returns, num_vecargs): direct lattice skipped")
        return [], {"wrap_result_calls": 0}

    def src_name(val, table):
        for k, v in table.items():
            if abs(float(val) - v) < 1e-9:
                return k
        return f"?{float(val)}"
    for tag in ("", "N.", "A.", "S."):      # (single Awkward records: see the type lattice in registered mode; unregistered is a known finding)
        for fl in "gm":
            for sig in C.ALLSIGS:
                names = C.signames(sig)
                stored = {f"{nm}1": 11.0 + j for j, nm in enumerate(names)}
                raw = {f"r{i}": 101.0 + i for i in range(4)}
                table = dict(stored, **raw)
                if tag == "S.":
                    syms = [sympy.Symbol(f"{nm}1", real=True) for nm in names]
                    az = {"xy": VS.AzimuthalSympyXY, "rhophi": VS.AzimuthalSympyRhoPhi}[sig[0]](syms[0], syms[1])
                    kw = {"azimuthal": az}
                    if len(sig) >= 2:
                        kw["longitudinal"] = {"z": VS.LongitudinalSympyZ, "theta": VS.LongitudinalSympyTheta, "eta": VS.LongitudinalSympyEta}[sig[1]](syms[2])
                    if len(sig) == 3:
                        kw["temporal"] = {"t": VS.TemporalSympyT, "tau": VS.TemporalSympyTau}[sig[2]](syms[3])
                    self_ = getattr(VS, ("Momentum" if fl == "m" else "Vector") + f"Sympy{len(sig) + 1}D")(**kw)
                else:
                    self_ = operand(tag, fl, sig, [[11.0 + j for j in range(len(names))]] * n)
                for flag in (0, 1):
                    cls = type(self_).MomentumClass if flag else type(self_).GenericClass
                    for returns, spec in shapes:
                        width = 2 + sum(1 for r_ in returns[1:] if r_ is not None)
                        if tag == "S.":
                            result = tuple(sympy.Symbol(f"r{i}", real=True) for i in range(width))
                        elif tag in ("N.",):
                            result = tuple(numpy.full(n, 101.0 + i) for i in range(width))
                        elif tag == "A.":
                            result = tuple(ak.Array(numpy.full(n, 101.0 + i), behavior=self_.behavior) for i in range(width))
                        else:
                            result = tuple(101.0 + i for i in range(width))
                        reqs.append(f"W {spec} {tag}{symobj.vtoken(fl, sig, 1)} {flag}")
                        try:
                            out = self_._wrap_result(cls, result, list(returns), 1)
                            if tag == "S.":
                                osig = __import__("harness.c08", fromlist=["sym_sig"]).sym_sig(out)
                                coords = list(out.azimuthal.elements) + (list(out.longitudinal.elements) if hasattr(out, "longitudinal") else []) + \
                                    (list(out.temporal.elements) if hasattr(out, "temporal") else [])
                                srcs = [str(c_) for c_ in coords]
                                desc = f"-> S.{'m' if isinstance(out, vector.Momentum) else 'g'}{len(osig) + 1} {osig[0]} {osig[1] if len(osig) > 1 else '-'} {osig[2] if len(osig) > 2 else '-'}"
                            else:
                                ev_ = _canon(out, n)[0]
                                osig = sig_from_names(ev_[1])
                                srcs = [src_name(v_, table) for v_ in ev_[2]]
                                t_ = type_of(out)
                                desc = t_.split("::")[0].strip() if "::" in t_ else t_
                            reals.append(f"{desc} :: " + " | ".join(srcs))
                        except Exception as e:  # noqa: BLE001
                            reals.append("!! " + type(e).__name__)
    model = leanio.run_driver("GlueSym", reqs, build=["VectorModel.Gen.Exec.All", "VectorModel.Exec.Sym", "VectorModel.Glue.Methods"])
    bad = []
    for q, a, b in zip(reqs, reals, model):
        if a.replace("R.", "A.") != b.replace("R.", "A."):
            bad.append((q, f"real {a} ; rule {b}", "wrap:" + q.split()[2].split(".")[0] + ":" + q.split()[1]))
    return bad, {"wrap_result_calls": len(reqs)}


# ------------------------------------------------------------------------------------------------ C01 on the array backends
def storage_independence_lattice(ctx):
    """C01 through the NumPy and Awkward glue: the same geometric vectors stored in every coordinate system give the same scalar
    results and vector results with the same Cartesian components (x, y, z, t read from the RESULT), compared with the result for
    Cartesian storage in the same backend (float64, 1e-9 relative).  -> (bad, stats)"""
    import awkward as ak
    r = C.rng(ctx.seed, "storage-independence")
    bad, n = [], 0
    scal = {2: ["x", "y", "rho", "phi"], 3: ["x", "y", "z", "rho", "phi", "theta", "eta", "mag", "costheta"],
            4: ["x", "y", "z", "t", "rho", "phi", "eta", "mag", "tau", "beta", "gamma", "rapidity", "mass2" if False else "tau2"]}
    vecm = {2: [("rotateZ", [0.7]), ("scale", [2.5]), ("unit", []), ("neg2D", [])],
            3: [("rotateZ", [0.7]), ("rotateX", [-1.1]), ("rotateY", [0.4]), ("scale", [2.5]), ("unit", []), ("neg2D", []), ("neg3D", []),
                ("rotate_euler", [0.3, 1.2, -0.4, "yxz"]), ("to_Vector2D", []), ("to_Vector4D", [])],
            4: [("rotateZ", [0.7]), ("rotateX", [-1.1]), ("scale", [2.5]), ("unit", []), ("neg2D", []), ("neg3D", []), ("boostX", [0.4]), ("boostZ", [-0.3]),
                ("to_beta3", []), ("to_Vector3D", []), ("to_Vector2D", [])]}

    def carts(res, k):
        comps = []
        for c_ in ("x", "y", "z", "t"):
            if hasattr(res, c_):
                v_ = getattr(res, c_)
                comps.append(numpy.asarray(ak.to_numpy(v_) if isinstance(v_, ak.Array) else v_, dtype=float).reshape(-1))
        return comps
    for dim in (2, 3, 4):
        pts = C.strata_points(dim, r, n_random=2)[:6]
        for tag in ("N.", "A."):
            mk = C.np_array if tag == "N." else C.ak_array
            fl = r.choice("gm")
            base = mk(fl, C.CARTSIG[dim], [C.cart_to_stored(C.CARTSIG[dim], p) for p in pts])
            for sig in C.SIGS[dim]:
                arr = mk(fl, sig, [C.cart_to_stored(sig, p) for p in pts])
                for m in scal[dim]:
                    n += 1
                    try:
                        a = numpy.asarray(ak.to_numpy(getattr(arr, m)) if tag == "A." else getattr(arr, m), dtype=float)
                        b = numpy.asarray(ak.to_numpy(getattr(base, m)) if tag == "A." else getattr(base, m), dtype=float)
                        ok = numpy.allclose(a, b, rtol=1e-9, atol=1e-9)
                        why = f"{a.tolist()[:3]} vs {b.tolist()[:3]}"
                    except Exception as e:  # noqa: BLE001
                        ok, why = False, f"{type(e).__name__}: {str(e)[:60]}"
                    if not ok:
                        bad.append((f"{m} on {tag}{fl}:{sig}", f"differs from the same vectors in Cartesian storage: {why}", f"storage:{tag}{m}"))
                for m, a_ in vecm[dim]:
                    if sig[-1] == "tau" and m in ("boostX", "boostZ") and False:
                        continue
                    n += 1
                    try:
                        ra, rb = getattr(arr, m)(*a_) if a_ or callable(getattr(arr, m)) else getattr(arr, m), \
                            getattr(base, m)(*a_) if a_ or callable(getattr(base, m)) else getattr(base, m)
                        ca, cb = carts(ra, len(pts)), carts(rb, len(pts))
                        ok = len(ca) == len(cb) and all(numpy.allclose(x_, y_, rtol=1e-9, atol=1e-9) for x_, y_ in zip(ca, cb))
                        why = f"Cartesian components {[c_.tolist()[:2] for c_ in ca]} vs {[c_.tolist()[:2] for c_ in cb]} ({type(ra).__name__} vs {type(rb).__name__})"
                    except Exception as e:  # noqa: BLE001
                        ok, why = False, f"{type(e).__name__}: {str(e)[:60]}"
                    if not ok:
                        bad.append((f"{m}{a_} on {tag}{fl}:{sig}", f"does not denote the same vector as for Cartesian storage: {why}"[:300], f"storage:{tag}{m}"))
    return bad, {"storage_independence_calls": n}
