"""Cross-backend correspondences at float64 (object / NumPy / Awkward array / Awkward record):

* `type_lattice`: result backend, flavor, dimension and coordinate system of every call, compared EXACTLY with the
  prediction of the Lean glue model (GlueSym driver, type part of the answer);
* `value_lattice`: element i of an array result compared with the object-backend result for element i
  (tolerance: a few ulp of the largest operand magnitude; NaN positions must coincide), structure compared exactly.
"""
from __future__ import annotations

import itertools
import math

import numpy

import vector
from harness import common as C
from harness import leanio, symobj

TAGS = ["", "N.", "A.", "R."]


def operand(tag, fl, sig, rows):
    """vector in backend `tag` whose element i stores rows[i]; record/object use rows[0]"""
    if tag == "":
        return C.obj_vec(fl, sig, rows[0])
    if tag == "N.":
        return C.np_array(fl, sig, rows)
    if tag == "A.":
        return C.ak_array(fl, sig, rows)
    if tag == "R.":
        return C.ak_array(fl, sig, rows)[0]
    raise ValueError(tag)


def type_of(r):
    """'-> <prefix><g|m><dim> az lon tmp' | '-> scalar' | '-> plain:<type>'"""
    import awkward as ak
    if isinstance(r, vector.backends.object.VectorObject):
        sig = C.sig_of(r)
        fl = "m" if isinstance(r, vector.Momentum) else "g"
        return f"-> {fl}{len(sig) + 1} " + sigstr(sig)
    if isinstance(r, vector.backends.numpy.VectorNumpy):
        names = r.dtype.names
        fl = "m" if isinstance(r, vector.Momentum) else "g"
        sig = sig_from_names(names)
        return f"-> N.{fl}{len(sig) + 1} " + sigstr(sig)
    if isinstance(r, (ak.Array, ak.Record)):
        if isinstance(r, vector.backends.awkward.VectorAwkward):
            fl = "m" if isinstance(r, vector.Momentum) else "g"
            sig = sig_from_names(ak.fields(r))
            dim = 2 if isinstance(r, vector.Vector2D) else 3 if isinstance(r, vector.Vector3D) else 4
            if dim != len(sig) + 1:
                return f"-> A.{fl}{dim} fields={ak.fields(r)}"
            return f"-> A.{fl}{len(sig) + 1} " + sigstr(sig)
        if ak.fields(r):
            return f"-> plain:{type(r).__name__}:{ak.fields(r)}"
        return "-> scalar"
    return "-> scalar"


def sigstr(sig):
    return f"{sig[0]} {sig[1] if len(sig) > 1 else '-'} {sig[2] if len(sig) > 2 else '-'}"


GEN = {"px": "x", "py": "y", "pt": "rho", "pz": "z", "E": "t", "e": "t", "energy": "t", "M": "tau", "m": "tau", "mass": "tau"}


def sig_from_names(names):
    ns = [GEN.get(n, n) for n in names]
    sig = []
    if "x" in ns and "y" in ns:
        sig.append("xy")
    elif "rho" in ns and "phi" in ns:
        sig.append("rhophi")
    else:
        sig.append("?")
    for l in ("z", "theta", "eta"):
        if l in ns:
            sig.append(l)
    for t in ("t", "tau"):
        if t in ns:
            sig.append(t)
    return tuple(sig)


UNARY = [("rotateZ", ["f"]), ("rotateX", ["f"]), ("scale", ["f"]), ("unit", []), ("to_beta3", []), ("to_xyz", []),
         ("to_rhophietatau", []), ("to_Vector2D", []), ("to_Vector3D", []), ("to_Vector4D", []), ("neg3D", []),
         ("rotate_quaternion", ["f", "f", "f", "f"]), ("boostX", ["f"])]
BINARY = ["add", "subtract", "dot", "cross", "boost_p4", "boost_beta3", "boost", "deltaR", "equal", "like", "deltaphi", "boostCM_of"]
OPS = ["add", "sub", "eq"]


def real_type(kind, meth, v, args):
    try:
        if kind == "C":
            a = getattr(v, meth)
            r = a(*args) if callable(a) else a
        else:
            o = args[0]
            r = {"add": lambda: v + o, "sub": lambda: v - o, "eq": lambda: v == o, "matmul": lambda: v @ o}[meth]()
        return type_of(r)
    except Exception as e:  # noqa: BLE001
        return "!! " + type(e).__name__


def type_lattice(ctx):
    r = C.rng(ctx.seed, "type-lattice")
    rows = {d: [C.cart_to_stored(C.CARTSIG[d], p) for p in C.strata_points(d, r, n_random=1)[:3]] for d in (2, 3, 4)}
    reqs, real = [], []
    sigs = C.ALLSIGS if ctx.tier == "thorough" else [s for s in C.ALLSIGS if s[0] == "xy" or len(s) == 3][:14]
    selfs = [(t, fl, s) for t in TAGS for fl in "gm" for s in sigs]
    if ctx.tier == "quick":
        selfs = r.sample(selfs, 60)

    def mk(tag, fl, sig, idx):
        d = len(sig) + 1
        rws = [C.cart_to_stored(sig, p) for p in C.strata_points(d, C.rng(ctx.seed, f"{tag}{fl}{sig}{idx}"), n_random=1)[:3]]
        return operand(tag, fl, sig, rws)
    for tag, fl, sig in selfs:
        v = mk(tag, fl, sig, 1)
        me = tag + symobj.vtoken(fl, sig, 1)
        for m, a in UNARY:
            reqs.append(" ".join(["C", m, me] + [f"s=a{i}" for i in range(len(a))]))
            real.append(real_type("C", m, v, [0.3 + 0.1 * i for i in range(len(a))]))
        others = [(t, f, s) for t in TAGS for f in "gm" for s in sigs]
        for tag2, fl2, sig2 in r.sample(others, 10 if ctx.tier == "quick" else 40):
            w = mk(tag2, fl2, sig2, 2)
            ot = tag2 + symobj.vtoken(fl2, sig2, 2)
            for m in BINARY:
                reqs.append(f"C {m} {me} v={ot}")
                real.append(real_type("C", m, v, [w]))
            reqs.append(f"C rotate_axis {me} v={ot} s=a")
            real.append(real_type("C", "rotate_axis", v, [w, 0.4]))
            for op in OPS:
                reqs.append(f"O {op} {me} v={ot}")
                real.append(real_type("O", op, v, [w]))
    model = leanio.run_driver("GlueSym", reqs, build=["VectorModel.Gen.Exec.All", "VectorModel.Exec.Sym", "VectorModel.Glue.Methods"])
    bad = []
    for q, a, b in zip(reqs, real, model):
        bt = b.split("::")[0].strip() if b.startswith("->") and "::" in b else ("-> scalar" if b.startswith("->") else b)
        if a != bt:
            bad.append((q, a, bt))
    return reqs, bad


C.CARTSIG = {2: ("xy",), 3: ("xy", "z"), 4: ("xy", "z", "t")}
