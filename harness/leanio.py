"""Talk to the Lean drivers (line protocol, `lake env lean --run`)."""
from __future__ import annotations

import os
import struct
import subprocess

VERIF = os.path.dirname(os.path.dirname(os.path.abspath(__file__)))
LEANDIR = os.path.join(VERIF, "lean")


def bits(v: float) -> int:
    return struct.unpack("<Q", struct.pack("<d", float(v)))[0]


def unbits(b: int) -> float:
    return struct.unpack("<d", struct.pack("<Q", int(b)))[0]


def run_driver(driver: str, lines: list[str], timeout=900, build: list[str] | None = None) -> list[str]:
    if build:
        p = subprocess.run(["lake", "build"] + build, cwd=LEANDIR, capture_output=True, text=True, timeout=1500)
        if p.returncode != 0:
            raise RuntimeError("lake build failed for driver: " + (p.stdout + p.stderr)[-500:])
    p = subprocess.run(["lake", "env", "lean", "--run", f"VectorModel/Driver/{driver}.lean"], cwd=LEANDIR,
                       input="\n".join(lines) + "\n", capture_output=True, text=True, timeout=timeout)
    if p.returncode != 0:
        raise RuntimeError(f"driver {driver} failed: " + (p.stdout[-300:] + p.stderr[-500:]))
    out = p.stdout.splitlines()
    if len(out) != len(lines):
        raise RuntimeError(f"driver {driver}: {len(lines)} requests, {len(out)} answers; tail: {out[-3:]}")
    return out


def eval_float(reqs):
    """reqs: list of (module id, key tuple, [floats]) -> list of ('v', [floats]) | ('b', bool) | ('none',)"""
    lines = [f"{m} {','.join(k)} " + " ".join(str(bits(x)) for x in a) for m, k, a in reqs]
    out = []
    for ans in run_driver("EvalFloat", lines, build=["VectorModel.Gen.Exec.All", "VectorModel.Exec.FloatInst"]):
        t = ans.split()
        if t[0] == "v":
            out.append(("v", [unbits(b) for b in t[1:]]))
        elif t[0] == "b":
            out.append(("b", t[1] == "1"))
        else:
            out.append((ans,))
    return out
