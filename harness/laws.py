"""Failing-input searches on the REAL code (never a proof): the laws of C01, C02, C09, C10, C11, C13 evaluated through
the public API of object vectors whose coordinates are 50-digit mpmath numbers (a subclass family of the real classes
with an mpmath `lib` adapter, harness/common.py), over every coordinate-system signature and stratified operands.

Every check is a named function taking a JSON-serialisable argument dict, so a failing input is replayed by
`replay({"check": name, "args": {...}})` (raises AssertionError when the law is violated).
"""
from __future__ import annotations

import itertools
import json

from harness import common as C

TOL = "1e-38"
CHECKS = {}
CART = {2: ("xy",), 3: ("xy", "z"), 4: ("xy", "z", "t")}
EXEMPT = {"scale2D", "scale3D", "transform2D", "transform3D"}


class NotRepresentable(Exception):
    pass


def check(fn):
    CHECKS[fn.__name__] = fn
    return fn


def ctx():
    fam, mp = C.mpfam(50)
    return fam, mp


def M(mp, xs):
    return [mp.mpf(x) for x in xs]


def vec(sig, cart, flavor="g"):
    fam, mp = ctx()
    return C.from_cart(fam, flavor, tuple(sig), M(mp, cart), mp)


def close(a, b, scale=1):
    fam, mp = ctx()
    tol = mp.mpf(TOL)
    if isinstance(a, (bool,)) or isinstance(b, (bool,)):
        return bool(a) == bool(b)
    if mp.isnan(a) or mp.isnan(b):
        return False
    return abs(a - b) <= tol * (1 + abs(a) + abs(b) + scale)


def same_result(r1, r2):
    """two results of the same call on differently stored operands denote the same thing"""
    import vector
    if isinstance(r1, vector.Vector) or isinstance(r2, vector.Vector):
        if not (isinstance(r1, vector.Vector) and isinstance(r2, vector.Vector)):
            return False, "one result is not a vector"
        c1, c2 = C.cart(r1), C.cart(r2)
        if len(c1) != len(c2):
            return False, f"dimension {len(c1)} vs {len(c2)}"
        sc = max(abs(x) for x in c1 + c2)
        bad = [(i, str(a)[:30], str(b)[:30]) for i, (a, b) in enumerate(zip(c1, c2)) if not close(a, b, sc)]
        return (not bad), f"cartesian components differ: {bad}"
    return close(r1, r2), f"{str(r1)[:40]} vs {str(r2)[:40]}"


def scal(mp, args):
    return [mp.mpf(a) if isinstance(a, str) else a for a in args]


# ------------------------------------------------------------------------------------------------ C01
@check
def c01_unary(a):
    """method `m` on a vector stored as `sig` agrees with the same vector stored in Cartesian coordinates"""
    fam, mp = ctx()
    v, ref = vec(a["sig"], a["p"], a.get("fl", "g")), vec(CART[len(a["p"])], a["p"], a.get("fl", "g"))
    args, kw = scal(mp, a.get("args", []) if not isinstance(a.get("args"), str) else []), {k: mp.mpf(x) for k, x in a.get("kw", {}).items()}
    if isinstance(a.get("args"), str):
        args = [tdict(mp, int(a["args"][1:]))]
    if a.get("order"):
        args = args + [a["order"]]

    def get(x):
        at = getattr(x, a["m"])
        return at(*args, **kw) if callable(at) else at
    want = get(ref)
    import vector as _v
    if a["sig"][-1] == "tau" and isinstance(want, _v.Vector) and hasattr(want, "temporal") and want.t < 0:
        raise NotRepresentable("exact result has negative time: not representable in tau storage")
    ok, why = same_result(get(v), want)
    assert ok, f"C01 {a['m']} on {a['sig']} at {a['p']}: {why}"


@check
def c01_alias_sequence(a):
    """a vector-valued call followed by an in-place operator on its RESULT: what the OPERAND denotes afterwards must not depend on the
    system it is stored in (a result may alias its operand - to_Vector4D, like and unary + do, for every storage alike - but not for
    some storages only)"""
    fam, mp = ctx()
    outs = []
    for sig in (a["sig"], CART[len(a["p"])]):
        v = vec(sig, a["p"], a.get("fl", "g"))
        at = getattr(v, a["m"])
        q = at() if callable(at) else at
        q *= mp.mpf("2.5")
        outs.append(C.cart(v))
    sc = max(abs(x) for x in outs[1]) + 1
    bad = [(i, str(x)[:20], str(y)[:20]) for i, (x, y) in enumerate(zip(*outs)) if not close(x, y, sc)]
    assert not bad, f"C01 {a['m']} then `*= 2.5` on the result: the operand stored as {a['sig']} now denotes {[str(x)[:12] for x in outs[0]]}, stored as Cartesian {[str(x)[:12] for x in outs[1]]}"


@check
def c01_binary(a):
    fam, mp = ctx()
    d1, d2 = len(a["p1"]), len(a["p2"])
    v, w = vec(a["s1"], a["p1"]), vec(a["s2"], a["p2"], a.get("fl2", "g"))
    rv, rw = vec(CART[d1], a["p1"]), vec(CART[d2], a["p2"], a.get("fl2", "g"))
    args = scal(mp, a.get("args", []))
    if a["m"] in ("iadd", "isub"):
        # in-place operators: the object keeps ITS stored system; what it denotes afterwards must not depend on either operand's system
        import operator as _op
        f_ = _op.iadd if a["m"] == "iadd" else _op.isub
        want = f_(rv, rw)
        got = f_(v, w)
        if a["s1"][-1] == "tau" and want.t < 0:
            raise NotRepresentable("exact result has negative time: not representable in tau storage")
        ok, why = same_result(got, want)
        assert ok and C.sig_of(got) == tuple(a["s1"]), f"C01 {a['m']} on {a['s1']} x {a['s2']} at {a['p1']} {a['p2']}: {why}; stored system afterwards {C.sig_of(got)}"
        return
    want = getattr(rv, a["m"])(rw, *args)
    import vector as _v
    if a["s1"][-1] == "tau" and isinstance(want, _v.Vector) and hasattr(want, "temporal") and want.t < 0:
        raise NotRepresentable("exact result has negative time: not representable in tau storage")
    ok, why = same_result(getattr(v, a["m"])(w, *args), want)
    assert ok, f"C01 {a['m']} on {a['s1']} x {a['s2']} at {a['p1']} {a['p2']}: {why}"


UNARY = {2: ["x", "y", "rho", "rho2", "phi", "unit"],
         3: ["x", "y", "rho", "rho2", "phi", "z", "theta", "eta", "costheta", "cottheta", "mag", "mag2", "unit"],
         4: ["x", "y", "rho", "rho2", "phi", "z", "theta", "eta", "costheta", "cottheta", "mag", "mag2", "t", "t2", "tau",
             "tau2", "beta", "gamma", "rapidity", "unit", "to_beta3", "neg3D", "neg2D", "neg4D"]}
SPACELIKE_UNARY = ["unit", "tau", "tau2", "t", "t2", "beta", "mag", "z", "eta", "theta", "to_beta3", "neg4D", "Et", "Et2", "Mt2", "mass",
                   "is_timelike", "is_spacelike", "is_lightlike"]
MOM4 = ["Et", "Et2", "Mt", "Mt2", "pt", "mass", "energy", "pseudorapidity"]
UNARY_ARGS = {2: [("rotateZ", ["0.7"]), ("scale", ["-1.3"]), ("scale", ["2.5"])],
              3: [("rotateZ", ["0.7"]), ("rotateX", ["-1.1"]), ("rotateY", ["2.9"]), ("scale", ["-1.3"]), ("scale", ["0.4"]),
                  ("rotate_quaternion", ["0.5", "0.1", "-0.7", "0.5"]), ("rotate_nautical", ["0.3", "-0.8", "1.9"]),
                  ("transform3D", "M9")],
              4: [("rotateZ", ["0.7"]), ("rotateX", ["-1.1"]), ("rotateY", ["2.9"]), ("scale", ["1.7"]), ("scale4D", ["0.3"]),
                  ("rotate_quaternion", ["0.5", "0.1", "-0.7", "0.5"]), ("transform4D", "M16"),
                  ("is_timelike", []), ("is_spacelike", []), ("is_lightlike", [])]}
BOOSTS = [("boostX", {"beta": "0.6"}), ("boostY", {"beta": "-0.35"}), ("boostZ", {"beta": "0.91"}),
          ("boostX", {"gamma": "1.8"}), ("boostY", {"gamma": "-2.5"}), ("boostZ", {"gamma": "1.05"})]
BINARY = {2: ["add", "subtract", "dot", "deltaphi", "is_parallel", "is_antiparallel", "is_perpendicular"],
          3: ["add", "subtract", "dot", "deltaphi", "cross", "deltaangle", "deltaeta", "deltaR", "deltaR2", "is_parallel",
              "is_antiparallel", "is_perpendicular"],
          4: ["add", "subtract", "dot", "deltaphi", "deltaangle", "deltaeta", "deltaR", "deltaR2", "deltaRapidityPhi",
              "deltaRapidityPhi2", "boost_p4", "boostCM_of_p4", "is_parallel"]}
ORDERS = ["xzx", "xyx", "yxy", "yzy", "zyz", "zxz", "xzy", "xyz", "yxz", "yzx", "zyx", "zxy"]


TNAMES = {4: ["xx", "xy", "yx", "yy"], 9: [a + b for a in "xyz" for b in "xyz"], 16: [a + b for a in "xyzt" for b in "xyzt"]}


def tdict(mp, n):
    """asymmetric n-entry transform matrix as the mapping transform2D/3D/4D expect"""
    return {k: mp.mpf(v) for k, v in zip(TNAMES[n], tmat(n))}


def tmat(n):
    return [str(round(0.3 + 0.17 * i * (-1) ** i, 3)) for i in range(n)]


def points(dim, r, n):
    return [[repr(x) for x in p] for p in C.strata_points(dim, r, n_random=n)]


def run(fn, a, out, limit):
    try:
        fn(a)
        return True
    except AssertionError as e:
        if len([o for o in out if not o.get("is_known")]) < limit or a.get("known"):
            out.append({"key": a.get("known") or f"{fn.__name__}:{a.get('m', '')}:{','.join(a.get('sig', a.get('s1', [])))}"
                               + (":" + ",".join(a["s2"]) if "s2" in a and not a.get("known") else ""),
                        "what": str(e)[:300], "code": replay_code(fn.__name__, a), "is_known": bool(a.get("known"))})
        return False
    except Exception as e:  # noqa: BLE001  (singular input for this signature: not a verdict)
        return None


def replay_code(name, a):
    return ("import sys; sys.path.insert(0, %r); sys.path.insert(0, %r)\nfrom harness import laws\nlaws.replay(%r)\n"
            % (C.VERIF, C.VERIF + "/tools", json.dumps({"check": name, "args": a})))


def replay(s):
    d = json.loads(s) if isinstance(s, str) else s
    CHECKS[d["check"]](d["args"])


def search_c01(seed, tier, only_modules=None, limit=5):
    """every operation x every signature (pairs sampled for 4D binaries in the quick tier)"""
    r = C.rng(seed, "c01")
    out, n = [], 0
    npts = 1 if tier == "quick" else 3
    for dim in (2, 3, 4):
        pts = points(dim, r, npts)
        if tier == "quick":
            pts = pts[:3] + pts[-2:]
        for sig in C.SIGS[dim]:
            for p in pts:
                for m in UNARY[dim]:
                    if m == "neg4D" and sig[-1] == "tau":
                        continue        # exact result (negative time) is not representable in tau storage
                    n += 1
                    run(c01_unary, {"m": m, "sig": list(sig), "p": p}, out, limit)
                for m, args in UNARY_ARGS[dim] + ([("transform2D", "M4")] if dim == 2 else []):
                    n += 1
                    run(c01_unary, {"m": m, "sig": list(sig), "p": p, "args": args}, out, limit)
                if dim >= 3:
                    for o in (ORDERS if p is pts[0] else ORDERS[:2]):
                        n += 1
                        run(c01_unary, {"m": "rotate_euler", "sig": list(sig), "p": p, "args": ["0.4", "-1.2", "2.1"], "order": o}, out, limit)
                if p is pts[0]:
                    convs = ["to_" + "".join(C.signames(s_)) for s_ in C.SIGS[dim]] + [f"to_Vector{dim}D", f"to_{dim}D", "unit", "neg2D"]
                    for m in convs:
                        n += 1
                        run(c01_alias_sequence, {"m": m, "sig": list(sig), "p": p}, out, limit)
                if dim == 4:
                    for m in MOM4:
                        n += 1
                        run(c01_unary, {"m": m, "sig": list(sig), "p": p, "fl": "m"}, out, limit)
                    for m, kw in BOOSTS:
                        n += 1
                        run(c01_unary, {"m": m, "sig": list(sig), "p": p, "kw": kw}, out, limit)
        if dim == 4:
            # spacelike vectors with t >= 0: representable in every 4D system (tau storage encodes them with tau < 0)
            sp = []
            for q in points(3, r, 1)[: (3 if tier == "quick" else 8)]:
                mag = sum(float(x) ** 2 for x in q) ** 0.5
                sp.append(q + [repr(mag * r.uniform(0.2, 0.8))])
                sp.append(q + [repr(max(abs(float(q[2])) * 1.05, mag * 0.9))])      # spacelike with t > |z|: Mt2 > 0, no clamp involved
            for sig in C.SIGS[4]:
                for p in sp:
                    for m in SPACELIKE_UNARY:
                        if sig[-1] == "tau" and m == "neg4D":
                            continue
                        n += 1
                        a_ = {"m": m, "sig": list(sig), "p": p, "fl": "m" if m in MOM4 else "g"}
                        if sig[-1] == "tau" and m == "Mt2" and float(p[3]) ** 2 < float(p[2]) ** 2:
                            a_["known"] = "Mt2:spacelike:tau-storage"     # t^2 - z^2 < 0: clamped at 0 in tau storage only (known finding)
                        run(c01_unary, a_, out, limit)
                    for m, args in (("scale", ["-1.3"] if sig[-1] == "t" else ["1.7"]), ("rotateY", ["2.9"]), ("rotate_quaternion", ["0.5", "0.1", "-0.7", "0.5"])):
                        n += 1
                        run(c01_unary, {"m": m, "sig": list(sig), "p": p, "args": args}, out, limit)
                    for m, kw in BOOSTS[:3]:
                        n += 1
                        run(c01_unary, {"m": m, "sig": list(sig), "p": p, "kw": kw}, out, limit)
                    s2 = r.choice(C.SIGS[4])
                    for m in ("add", "dot", "boost_p4", "deltaR"):
                        n += 1
                        run(c01_binary, {"m": m, "s1": list(sig), "s2": list(s2), "p1": p, "p2": pts[0]}, out, limit)
        pairs = list(itertools.product(C.SIGS[dim], repeat=2))
        if tier == "quick" and dim == 4:
            pairs = r.sample(pairs, 40)
        for s1, s2 in pairs:
            pp = list(zip(pts[:2], pts[1:3])) if dim == 4 else \
                [(pts[i], pts[i + 1]) if i % 2 == 0 else (pts[i + 1], pts[i]) for i in range(len(pts) - 1)]
            for p1, p2 in pp:
                for m in BINARY[dim] + ["iadd", "isub"]:
                    if m in ("subtract", "isub") and s1[-1] == "tau":
                        if s2[-1] == "tau" or m == "isub":
                            continue       # the difference need not be representable in tau storage
                    n += 1
                    run(c01_binary, {"m": m, "s1": list(s1), "s2": list(s2), "p1": p1, "p2": p2}, out, limit)
        if dim >= 3:
            ax = points(3, r, 0)
            for s1 in C.SIGS[dim]:
                for s2 in C.SIGS[3]:
                    n += 1
                    run(c01_binary, {"m": "rotate_axis", "s1": list(s1), "s2": list(s2), "p1": pts[0], "p2": ax[1], "args": ["1.3"]}, out, limit)
                    if dim == 4:
                        b3 = [repr(float(x) * 0.1) for x in ax[2]]
                        run(c01_binary, {"m": "boost_beta3", "s1": list(s1), "s2": list(s2), "p1": pts[0], "p2": b3}, out, limit)
                        n += 1
    n += neutral_sweep(seed, ("rot", "boost", "vs", "lin"), out, limit)
    return out, n


# ------------------------------------------------------------------------------------------------ neutral parameters (float64, real library)
def _neutral_ops(dim):
    """(family, label, thunk(v)) — operations with the NEUTRAL parameter: the result must be the operand itself"""
    import vector
    ops = [("rot", "rotateZ(0)", lambda v: v.rotateZ(0.0)), ("vs", "scale(1)", lambda v: v.scale(1.0)), ("vs", "v*1", lambda v: v * 1.0), ("vs", "v/1", lambda v: v / 1.0),
           ("vs", "scale2D(1)", lambda v: v.scale2D(1.0)),
           ("lin", "transform2D(identity)", lambda v: v.transform2D({"xx": 1.0, "xy": 0.0, "yx": 0.0, "yy": 1.0}))]
    zero = {2: [vector.obj(x=0.0, y=0.0), vector.obj(rho=0.0, phi=0.0)],
            3: [vector.obj(x=0.0, y=0.0, z=0.0), vector.obj(rho=0.0, phi=0.0, z=0.0)],
            4: [vector.obj(x=0.0, y=0.0, z=0.0, t=0.0), vector.obj(rho=0.0, phi=0.0, z=0.0, t=0.0), vector.obj(x=0.0, y=0.0, z=0.0, tau=0.0)]}[dim]
    for i, z in enumerate(zero):
        ops += [("vs", f"add(zero#{i})", lambda v, z=z: v.add(z)), ("vs", f"subtract(zero#{i})", lambda v, z=z: v.subtract(z)), ("vs", f"v+zero#{i}", lambda v, z=z: v + z)]
    if dim >= 3:
        ax = [vector.obj(x=0.3, y=-1.2, z=0.5), vector.obj(rho=1.5, phi=0.4, eta=-0.7), vector.obj(x=1.0, y=2.0, theta=0.8)]
        ops += [("rot", "rotateX(0)", lambda v: v.rotateX(0.0)), ("rot", "rotateY(0)", lambda v: v.rotateY(0.0)),
                ("rot", "rotate_nautical(0,0,0)", lambda v: v.rotate_nautical(0.0, 0.0, 0.0)),
                ("rot", "rotate_quaternion(1,0,0,0)", lambda v: v.rotate_quaternion(1.0, 0.0, 0.0, 0.0)),
                ("vs", "scale3D(1)", lambda v: v.scale3D(1.0)),
                ("lin", "transform3D(identity)", lambda v: v.transform3D({a + b: float(a == b) for a in "xyz" for b in "xyz"}))]
        ops += [("rot", f"rotate_euler(0,0,0,{o})", lambda v, o=o: v.rotate_euler(0.0, 0.0, 0.0, o)) for o in ORDERS]
        ops += [("rot", f"rotate_axis(axis#{i},0)", lambda v, a=a: v.rotate_axis(a, 0.0)) for i, a in enumerate(ax)]
    if dim == 4:
        z3 = [vector.obj(x=0.0, y=0.0, z=0.0), vector.obj(rho=0.0, phi=0.0, z=0.0)]
        rest = [vector.obj(x=0.0, y=0.0, z=0.0, t=2.5), vector.obj(x=0.0, y=0.0, z=0.0, tau=2.5), vector.obj(rho=0.0, phi=0.0, z=0.0, t=0.75),
                vector.obj(rho=0.0, phi=0.0, z=0.0, tau=0.75)]
        ops += [("boost", f"boost{a}(beta=0)", lambda v, a=a: getattr(v, "boost" + a)(beta=0.0)) for a in "XYZ"]
        ops += [("boost", f"boost{a}(gamma=1)", lambda v, a=a: getattr(v, "boost" + a)(gamma=1.0)) for a in "XYZ"]
        for i, z in enumerate(z3):
            ops += [("boost", f"boost_beta3(zero#{i})", lambda v, z=z: v.boost_beta3(z)), ("boost", f"boost(zero3#{i})", lambda v, z=z: v.boost(z)),
                    ("boost", f"boostCM_of_beta3(zero#{i})", lambda v, z=z: v.boostCM_of_beta3(z)), ("boost", f"boostCM_of(zero3#{i})", lambda v, z=z: v.boostCM_of(z))]
        for i, q in enumerate(rest):
            ops += [("boost", f"boost_p4(rest#{i})", lambda v, q=q: v.boost_p4(q)), ("boost", f"boost(rest#{i})", lambda v, q=q: v.boost(q)),
                    ("boost", f"boostCM_of_p4(rest#{i})", lambda v, q=q: v.boostCM_of_p4(q)), ("boost", f"boostCM_of(rest#{i})", lambda v, q=q: v.boostCM_of(q))]
        ops += [("vs", "scale4D(1)", lambda v: v.scale4D(1.0)),
                ("lin", "transform4D(identity)", lambda v: v.transform4D({a + b: float(a == b) for a in "xyzt" for b in "xyzt"}))]
    return ops


@check
def neutral(a):
    """an operation with the neutral parameter (zero velocity / zero angle / factor one / identity matrix / zero vector) returns the operand (float64)"""
    import math
    import vector
    sig, st = tuple(a["sig"]), [float(x) for x in a["stored"]]
    v = vector.obj(**dict(zip(C.signames(sig), st)))
    fn = next(f for _, lab, f in _neutral_ops(len(sig) + 1) if lab == a["op"])
    r = fn(v)
    want = [float(v.x), float(v.y)] + ([float(v.z)] if len(sig) >= 2 else []) + ([float(v.t)] if len(sig) == 3 else [])
    got = [float(r.x), float(r.y)] + ([float(r.z)] if len(sig) >= 2 else []) + ([float(r.t)] if len(sig) == 3 else [])
    sc = max(1.0, max(abs(x) for x in want))
    bad = [(i, g, w) for i, (g, w) in enumerate(zip(got, want)) if math.isnan(g) or abs(g - w) > 1e-9 * sc]
    assert not bad, f"{a['op']} on {sig} stored {st}: Cartesian components {got}, the operand has {want}"


@check
def zero_factor(a):
    """scaling by a factor of exactly zero gives the zero vector (all Cartesian components 0, no NaN) in every stored system (float64)"""
    import math
    import vector
    sig, st = tuple(a["sig"]), [float(x) for x in a["stored"]]
    v = vector.obj(**dict(zip(C.signames(sig), st)))
    forms = {"scale(0.0)": lambda: v.scale(0.0), "v * 0": lambda: v * 0, "0.0 * v": lambda: 0.0 * v, "v * -0.0": lambda: v * -0.0,
             "scale(numpy.float64(0))": lambda: v.scale(__import__("numpy").float64(0.0))}
    r = forms[a["op"]]()
    comps = [float(r.x), float(r.y)] + ([float(r.z)] if len(sig) >= 2 else []) + ([float(r.t)] if len(sig) == 3 and sig[2] == "t" else [])
    assert all((not math.isnan(c)) and c == 0.0 for c in comps), f"{a['op']} on {sig} stored {st}: Cartesian components {comps}, expected zeros"


def neutral_sweep(seed, families, out, limit):
    """float64 objects in every stored system (timelike, spacelike-with-tau<0 for 4D) x every neutral-parameter operation of the families"""
    r = C.rng(seed, "neutral")
    n = 0
    for dim in (2, 3, 4):
        pts = [[float(x) for x in p] for p in points(dim, r, 1)[:3]]
        if dim == 4:
            q = pts[0][:3]
            mag = sum(x * x for x in q) ** 0.5
            pts.append(q + [0.6 * mag])          # spacelike, t > 0
        for sig in C.SIGS[dim]:
            for p in pts:
                try:
                    st = C.cart_to_stored(sig, p)
                except Exception:  # noqa: BLE001
                    continue
                for fam_, lab, _ in _neutral_ops(dim):
                    if fam_ not in families:
                        continue
                    n += 1
                    run(neutral, {"op": lab, "sig": list(sig), "stored": [repr(x) for x in st]}, out, limit)
                if "vs" in families and (len(sig) < 3 or sig[2] == "t") and (len(sig) < 2 or sig[1] != "theta" or True):
                    for lab in ("scale(0.0)", "v * 0", "0.0 * v", "v * -0.0", "scale(numpy.float64(0))"):
                        n += 1
                        run(zero_factor, {"op": lab, "sig": list(sig), "stored": [repr(x) for x in st]}, out, limit)
    return n


# ------------------------------------------------------------------------------------------------ C02: reference model
def ref_unary(mp, m, p, args):
    """independent reference, written from the documentation, on Cartesian components"""
    x, y = p[0], p[1]
    z = p[2] if len(p) > 2 else None
    t = p[3] if len(p) > 3 else None
    rho2 = x * x + y * y
    rho = mp.sqrt(rho2)
    if m == "x":
        return x
    if m == "y":
        return y
    if m == "rho":
        return rho
    if m == "rho2":
        return rho2
    if m == "phi":
        return mp.atan2(y, x)
    if z is not None:
        mag2 = rho2 + z * z
        mag = mp.sqrt(mag2)
        if m == "z":
            return z
        if m == "theta":
            return mp.acos(z / mag)
        if m == "eta":
            return mp.asinh(z / rho)
        if m == "costheta":
            return z / mag
        if m == "cottheta":
            return z / rho
        if m == "mag":
            return mag
        if m == "mag2":
            return mag2
    if t is not None:
        s = t * t - mag2
        if m == "t":
            return t
        if m == "t2":
            return t * t
        if m == "tau2":
            return s
        if m == "tau":
            return mp.sqrt(s) if s >= 0 else -mp.sqrt(-s)
        if m == "beta":
            return mag / t
        if m == "gamma":
            return t / mp.sqrt(s)
        if m == "rapidity":
            return mp.log((t + z) / (t - z)) / 2
        if m == "Et2":
            return t * t * rho2 / mag2
        if m == "Et":
            return mp.sqrt(t * t * rho2 / mag2)
        if m == "Mt2":
            return t * t - z * z
        if m == "Mt":
            return mp.sqrt(t * t - z * z)
    return None


def rotmat(mp, axis, a):
    c, s = mp.cos(a), mp.sin(a)
    return {"x": [[1, 0, 0], [0, c, -s], [0, s, c]], "y": [[c, 0, s], [0, 1, 0], [-s, 0, c]],
            "z": [[c, -s, 0], [s, c, 0], [0, 0, 1]]}[axis]


def matvec(Mx, v):
    return [sum(Mx[i][j] * v[j] for j in range(len(v))) for i in range(len(Mx))]


def ref_vector(mp, m, p, args, order=None):
    x, y = p[0], p[1]
    sp = list(p[:3]) if len(p) >= 3 else None
    if m == "rotateZ":
        a = args[0]
        return [x * mp.cos(a) - y * mp.sin(a), x * mp.sin(a) + y * mp.cos(a)] + list(p[2:])
    if m in ("rotateX", "rotateY"):
        return matvec(rotmat(mp, m[-1].lower(), args[0]), sp) + list(p[3:])
    if m == "scale":
        return [args[0] * c for c in p]
    if m == "rotate_euler":
        phi, theta, psi = args
        o = order.lower()
        # documented (ROOT, passive) convention: R_{o1}(-psi) R_{o2}(-theta) R_{o3}(-phi)
        v = matvec(rotmat(mp, o[2], -phi), sp)
        v = matvec(rotmat(mp, o[1], -theta), v)
        v = matvec(rotmat(mp, o[0], -psi), v)
        return v + list(p[3:])
    if m == "rotate_nautical":
        yaw, pitch, roll = args
        return ref_vector(mp, "rotate_euler", p, [roll, pitch, yaw], "zyx")
    if m == "rotate_quaternion":
        u, i, j, k = args
        R = [[u * u + i * i - j * j - k * k, 2 * (i * j - u * k), 2 * (i * k + u * j)],
             [2 * (i * j + u * k), u * u - i * i + j * j - k * k, 2 * (j * k - u * i)],
             [2 * (i * k - u * j), 2 * (j * k + u * i), u * u - i * i - j * j + k * k]]
        return matvec(R, sp) + list(p[3:])
    if m == "unit":
        if len(p) == 4:
            s = p[3] * p[3] - sum(c * c for c in p[:3])
            n = mp.sqrt(abs(s))
        else:
            n = mp.sqrt(sum(c * c for c in p))
        return [c / n for c in p]
    if m == "to_beta3":
        return [c / p[3] for c in p[:3]]
    if m in ("transform2D", "transform3D", "transform4D"):
        k = int(m[9])
        names = "xyzt"[:k]
        T = args[0]
        return [sum(T[names[i] + names[j]] * p[j] for j in range(k)) for i in range(k)] + list(p[k:])
    return None


def boost_ref(mp, p, b):
    bx, by, bz = b
    b2 = bx * bx + by * by + bz * bz
    g = 1 / mp.sqrt(1 - b2)
    x, y, z, t = p
    bp = bx * x + by * y + bz * z
    g2 = (g - 1) / b2 if b2 != 0 else mp.mpf(0)
    return [x + g2 * bp * bx + g * bx * t, y + g2 * bp * by + g * by * t, z + g2 * bp * bz + g * bz * t, g * (t + bp)]


@check
def c02_unary(a):
    """a property/method equals its documented definition (independent mpmath reference on Cartesian components)"""
    fam, mp = ctx()
    v = vec(a["sig"], a["p"], a.get("fl", "g"))
    p = M(mp, a["p"])
    args = scal(mp, a.get("args", [])) if not isinstance(a.get("args"), str) else [tdict(mp, int(a["args"][1:]))]
    at = getattr(v, a["m"])
    call_args = args + ([a["order"]] if a.get("order") else [])
    got = at(*call_args) if callable(at) else at
    import vector
    if isinstance(got, vector.Vector):
        want = ref_vector(mp, a["m"], p, args, a.get("order"))
        assert want is not None, "no reference"
        c = C.cart(got)
        assert len(c) == len(want) and all(close(g, w, max(abs(q) for q in p)) for g, w in zip(c, want)), \
            f"C02 {a['m']} {a['sig']} at {a['p']}: got {[str(q)[:25] for q in c]} want {[str(q)[:25] for q in want]}"
    else:
        want = ref_unary(mp, a["m"], p, args)
        assert want is not None, "no reference"
        assert close(got, want), f"C02 {a['m']} {a['sig']} at {a['p']}: got {str(got)[:40]} want {str(want)[:40]}"


@check
def c02_binary(a):
    fam, mp = ctx()
    v, w = vec(a["s1"], a["p1"]), vec(a["s2"], a["p2"])
    p, q = M(mp, a["p1"]), M(mp, a["p2"])
    got = getattr(v, a["m"])(w)
    m = a["m"]
    d = len(p)
    if m == "add":
        want = [x + y for x, y in zip(p, q)]
    elif m == "subtract":
        want = [x - y for x, y in zip(p, q)]
    elif m == "dot":
        want = sum(x * y for x, y in zip(p[:3], q[:3])) if d < 4 else p[3] * q[3] - sum(x * y for x, y in zip(p[:3], q[:3]))
    elif m == "cross":
        want = [p[1] * q[2] - p[2] * q[1], p[2] * q[0] - p[0] * q[2], p[0] * q[1] - p[1] * q[0]]
    elif m == "deltaphi":
        dphi = mp.atan2(p[1], p[0]) - mp.atan2(q[1], q[0])
        want = dphi - 2 * mp.pi * mp.floor((dphi + mp.pi) / (2 * mp.pi))
    elif m == "deltaeta":
        want = mp.asinh(p[2] / mp.sqrt(p[0] ** 2 + p[1] ** 2)) - mp.asinh(q[2] / mp.sqrt(q[0] ** 2 + q[1] ** 2))
    elif m == "deltaangle":
        want = mp.acos(sum(x * y for x, y in zip(p[:3], q[:3])) / mp.sqrt(sum(x * x for x in p[:3]) * sum(x * x for x in q[:3])))
    elif m in ("deltaR", "deltaR2"):
        dphi = mp.atan2(p[1], p[0]) - mp.atan2(q[1], q[0])
        dphi = dphi - 2 * mp.pi * mp.floor((dphi + mp.pi) / (2 * mp.pi))
        deta = mp.asinh(p[2] / mp.sqrt(p[0] ** 2 + p[1] ** 2)) - mp.asinh(q[2] / mp.sqrt(q[0] ** 2 + q[1] ** 2))
        want = dphi ** 2 + deta ** 2
        want = mp.sqrt(want) if m == "deltaR" else want
    elif m == "boost_p4":
        want = boost_ref(mp, p, [c / q[3] for c in q[:3]])
    elif m == "boost_beta3":
        want = boost_ref(mp, p, q)
    else:
        raise AssertionError("no reference for " + m)
    import vector
    if isinstance(got, vector.Vector):
        c = C.cart(got)
        sc = max(abs(x) for x in p + q)
        assert len(c) == len(want) and all(close(g, w, sc) for g, w in zip(c, want)), \
            f"C02 {m} {a['s1']}x{a['s2']}: got {[str(x)[:25] for x in c]} want {[str(x)[:25] for x in want]}"
    else:
        assert close(got, want), f"C02 {m} {a['s1']}x{a['s2']} at {a['p1']} {a['p2']}: got {str(got)[:40]} want {str(want)[:40]}"


@check
def c02_float64(a):
    """float64 result of the object backend vs the 50-digit result on EXACTLY the same stored binary inputs (well-conditioned operands)"""
    import vector
    fam, mp = ctx()
    st = [float(x) for x in a["stored"]]
    vf = C.make(C.FLOATFAM, a.get("fl", "g"), tuple(a["sig"]), st)
    vm = C.make(fam, a.get("fl", "g"), tuple(a["sig"]), [mp.mpf(x) for x in st])
    args = [float(x) for x in a.get("args", [])]
    af, am = getattr(vf, a["m"]), getattr(vm, a["m"])
    rf = af(*args) if callable(af) else af
    rm = am(*[mp.mpf(x) for x in args]) if callable(am) else am
    scale = max(1.0, max(abs(x) for x in st))
    tol = 1e-9 * scale
    if isinstance(rm, vector.Vector):
        cf, cm = [float(x) for x in C.stored(rf)], C.stored(rm)
        assert C.sig_of(rf) == C.sig_of(rm), "float64 and 50-digit results are stored in different systems"
        bad = [(i, x, str(y)[:22]) for i, (x, y) in enumerate(zip(cf, cm)) if abs(mp.mpf(x) - y) > tol * (1 + abs(y))]
        assert not bad, f"C02 float64 {a['m']} on {a['sig']} stored {st}: float64 vs exact differ: {bad}"
    else:
        assert abs(mp.mpf(float(rf)) - rm) <= tol * (1 + abs(rm)), f"C02 float64 {a['m']} on {a['sig']} stored {st}: {rf} vs {str(rm)[:30]}"


@check
def c02_float64_binary(a):
    """float64 result of a two-vector operation vs the 50-digit result on EXACTLY the same stored binary inputs; operands are
    well-conditioned by construction (a highly relativistic booster is only used in tau storage, where its mass is an input)"""
    import vector
    fam, mp = ctx()
    s1, s2 = [float(x) for x in a["st1"]], [float(x) for x in a["st2"]]
    vf, wf = C.make(C.FLOATFAM, "g", tuple(a["s1"]), s1), C.make(C.FLOATFAM, "m", tuple(a["s2"]), s2)
    vm, wm = C.make(fam, "g", tuple(a["s1"]), [mp.mpf(x) for x in s1]), C.make(fam, "m", tuple(a["s2"]), [mp.mpf(x) for x in s2])
    rf, rm = getattr(vf, a["m"])(wf), getattr(vm, a["m"])(wm)
    if isinstance(rm, vector.Vector):
        cf, cm = [float(x) for x in C.cart(rf)], C.cart(rm)
    else:
        cf, cm = [float(rf)], [rm]
    scale = max(abs(y) for y in cm) + mp.mpf("1e-300")
    err = max(abs(mp.mpf(x) - y) for x, y in zip(cf, cm)) / scale
    assert err <= mp.mpf(a.get("rel", "2e-12")), \
        f"C02 float64 {a['m']} of {a['s1']} {s1} by/with {a['s2']} {s2}: relative error {float(err):.2e} (float64 {cf}, exact {[str(y)[:20] for y in cm]})"


def search_c02(seed, tier, limit=5):
    r = C.rng(seed, "c02")
    out, n = [], 0
    # spacelike vectors with |z| < t (t >= 0): the documented definitions on every stored system, tau storage encoding them with tau < 0
    for q in points(3, r, 1)[: (3 if tier == "quick" else 8)]:
        mag = sum(float(x) ** 2 for x in q) ** 0.5
        p_sp = q + [repr(max(abs(float(q[2])) * 1.05, mag * 0.9))]
        for sig in C.SIG4:
            for m in ("t", "t2", "tau", "tau2", "beta", "Et", "Et2", "Mt2", "Mt", "mag", "eta", "unit", "to_beta3"):
                n += 1
                run(c02_unary, {"m": m, "sig": list(sig), "p": p_sp, "fl": "m" if m in ("Et", "Et2", "Mt", "Mt2") else "g"}, out, limit)
    # float64 clause for two-vector operations, incl. highly relativistic boosters given by (.., mass)
    import math
    pts4 = points(4, r, 2)
    for s2 in C.SIG4:
        gammas = (1.3, 30.0, 640.0) if s2[-1] == "tau" else (1.3, 2.5)
        for g in gammas:
            d = [r.uniform(0.2, 1.0) * sg for sg in (1, -1, 1)]
            nd = math.sqrt(sum(x * x for x in d))
            m_ = r.choice([0.105, 0.938, 5.0])
            pmag = m_ * math.sqrt(g * g - 1.0)
            P = [pmag * x / nd for x in d] + [m_ * g]
            st2 = C.cart_to_stored(s2, P)
            if s2[-1] == "tau":
                st2[-1] = m_                      # the mass is an exact input of tau storage
            for s1 in (C.SIG4 if tier == "thorough" else r.sample(C.SIG4, 2)):
                st1 = C.cart_to_stored(s1, [float(x) for x in pts4[0]])
                for m in ("boost_p4", "boostCM_of_p4", "boost", "dot", "add"):
                    if m == "add" and g > 3:
                        continue
                    n += 1
                    run(c02_float64_binary, {"m": m, "s1": list(s1), "s2": list(s2), "st1": [repr(x) for x in st1], "st2": [repr(x) for x in st2],
                                             "rel": "2e-12" if g < 100 else "1e-11"}, out, limit)
    for dim in (2, 3, 4):
        pts = points(dim, r, 2)
        pts = pts[:4] + pts[-2:] if tier == "quick" else pts
        sigs = C.SIGS[dim] if tier == "thorough" else [CART[dim]] + r.sample(C.SIGS[dim], min(3, len(C.SIGS[dim])))
        for sig in sigs:
            for p in pts:
                for m in [u for u in UNARY[dim] if u not in ("neg2D", "neg3D", "neg4D")]:
                    n += 1
                    run(c02_unary, {"m": m, "sig": list(sig), "p": p}, out, limit)
                if dim == 4:
                    for m in ("Et", "Et2", "Mt", "Mt2"):
                        n += 1
                        run(c02_unary, {"m": m, "sig": list(sig), "p": p, "fl": "m"}, out, limit)
                for m, args in UNARY_ARGS[dim] + ([("transform2D", "M4")] if dim == 2 else []):     # transformND on an N-dimensional vector only
                    if m.startswith("is_") or m == "scale4D":
                        continue
                    n += 1
                    run(c02_unary, {"m": m, "sig": list(sig), "p": p, "args": args}, out, limit)
                if dim >= 3:
                    for o in ORDERS:
                        n += 1
                        run(c02_unary, {"m": "rotate_euler", "sig": list(sig), "p": p, "args": ["0.4", "-1.2", "2.1"],
                                        "order": o.upper() if n % 2 else o}, out, limit)
            # float64 clause (sampled, never a proof): well-conditioned strata only
            for p in pts[:3]:
                st = [repr(x) for x in C.cart_to_stored(sig, [float(x) for x in p])]
                for m in [u for u in UNARY[dim] if u not in ("neg2D", "neg3D", "neg4D", "rapidity", "gamma", "beta", "tau", "tau2")]:
                    n += 1
                    run(c02_float64, {"m": m, "sig": list(sig), "stored": st}, out, limit)
                for m, args in UNARY_ARGS[dim]:
                    if isinstance(args, str) or m.startswith("is_"):
                        continue
                    n += 1
                    run(c02_float64, {"m": m, "sig": list(sig), "stored": st, "args": args}, out, limit)
            for s2 in (sigs if tier == "quick" else C.SIGS[dim]):
                for m in [b for b in BINARY[dim] if not b.startswith("is_") and not b.startswith("boostCM") and not b.startswith("deltaRap")]:
                    if m == "subtract" and sig[-1] == "tau" and s2[-1] == "tau":
                        continue        # the difference of two forward timelike vectors need not be representable with tau
                    n += 1
                    run(c02_binary, {"m": m, "s1": list(sig), "s2": list(s2), "p1": pts[0], "p2": pts[1]}, out, limit)
                # the in-place spellings of add / subtract compute the same documented sums (the object keeps its stored system)
                for m in ("iadd", "isub"):
                    if sig[-1] == "tau" and m == "isub":
                        continue
                    n += 1
                    run(c01_binary, {"m": m, "s1": list(sig), "s2": list(s2), "p1": pts[0], "p2": pts[1]}, out, limit)
    n += neutral_sweep(seed, ("rot", "boost", "vs", "lin"), out, limit)
    return out, n


# ------------------------------------------------------------------------------------------------ C09 / C10 / C11 / C13
def mdot(p, q):
    return p[3] * q[3] - p[0] * q[0] - p[1] * q[1] - p[2] * q[2]


@check
def c09_laws(a):
    """boost laws on operands stored as s1 (vector), s2 (second vector), sb (booster)"""
    fam, mp = ctx()
    v, w = vec(a["s1"], a["p1"]), vec(a["s2"], a["p2"])
    p, q = M(mp, a["p1"]), M(mp, a["p2"])
    b = M(mp, a["b"])
    b3, nb3 = vec(a["sb"], a["b"]), vec(a["sb"], [str(-x) for x in b])
    bv, bw = v.boost_beta3(b3), w.boost_beta3(b3)
    assert close(mdot(C.cart(bv), C.cart(bw)), mdot(p, q), 10), "boost_beta3 does not preserve the Minkowski product"
    back = C.cart(bv.boost_beta3(nb3))
    assert all(close(x, y, 10) for x, y in zip(back, p)), "boost by -beta does not undo boost by beta"
    assert all(close(x, y, 10) for x, y in zip(C.cart(v.boost(b3)), C.cart(bv))), "boost(3D) != boost_beta3"
    P = vec(a["s2"], a["pb"])
    r1, r2 = C.cart(v.boost_p4(P)), C.cart(v.boost_beta3(P.to_beta3()))
    assert all(close(x, y, 10) for x, y in zip(r1, r2)), "boost_p4(p) != boost_beta3(p.to_beta3())"
    assert all(close(x, y, 10) for x, y in zip(C.cart(v.boost(P)), r1)), "boost(4D) != boost_p4"
    for ax, i in (("X", 0), ("Y", 1), ("Z", 2)):
        be = mp.mpf(a["beta"])
        e = [mp.mpf(0)] * 3
        e[i] = be
        r1 = C.cart(getattr(v, "boost" + ax)(beta=be))
        r2 = C.cart(v.boost_beta3(vec(("xy", "z"), [str(x) for x in e])))
        assert all(close(x, y, 10) for x, y in zip(r1, r2)), f"boost{ax}(beta) != boost_beta3 along the axis"
        g = 1 / mp.sqrt(1 - be * be) * (1 if be >= 0 else -1)
        r3 = C.cart(getattr(v, "boost" + ax)(gamma=g))
        assert all(close(x, y, 10) for x, y in zip(r1, r3)), f"boost{ax}(gamma) != boost{ax}(beta) for the matching gamma"
        b2 = mp.mpf(a["beta2"])
        r4 = C.cart(getattr(getattr(v, "boost" + ax)(beta=be), "boost" + ax)(beta=b2))
        r5 = C.cart(getattr(v, "boost" + ax)(beta=(be + b2) / (1 + be * b2)))
        assert all(close(x, y, 10) for x, y in zip(r4, r5)), f"boost{ax} does not compose by velocity addition"
    cm = v.boostCM_of_p4(v)
    assert close(cm.x, 0, 10) and close(cm.y, 0, 10) and close(cm.z, 0, 10) and close(cm.t, v.tau, 10), \
        "v.boostCM_of_p4(v) is not (0,0,0,tau)"
    cm2 = v.boostCM_of(v)
    assert close(cm2.t, v.tau, 10) and close(cm2.x, 0, 10), "boostCM_of(v) differs"
    assert close(bv.tau, v.tau, 10), "boost changes proper time"


def search_c09(seed, tier, limit=5):
    r = C.rng(seed, "c09")
    out, n = [], 0
    pts = points(4, r, 2)
    for s1 in C.SIG4:
        others = C.SIG4 if tier == "thorough" else r.sample(C.SIG4, 3)
        for s2 in others:
            for sb in (C.SIG3 if tier == "thorough" else r.sample(C.SIG3, 2)):
                k = r.randrange(len(pts) - 2)
                beta = r.choice([0.3, -0.6, 0.95, 0.999])
                b = [r.uniform(-0.5, 0.5) for _ in range(3)]
                n += 1
                run(c09_laws, {"s1": list(s1), "s2": list(s2), "sb": list(sb), "p1": pts[k], "p2": pts[k + 1],
                               "pb": pts[k + 2], "b": [repr(x) for x in b], "beta": repr(beta), "beta2": repr(-0.4)}, out, limit)
    # spacelike vectors (t >= 0; tau storage encodes them with tau < 0) boosted by timelike boosters: every spelling must agree
    # with the same boost of the Cartesian copy (skipped when the exact result has negative time and the storage is tau)
    sp = []
    for q in points(3, r, 1)[: (3 if tier == "quick" else 8)]:
        mag = sum(float(x) ** 2 for x in q) ** 0.5
        sp.append(q + [repr(mag * r.uniform(0.2, 0.8))])
    for s1 in C.SIG4:
        for p in sp:
            s2 = r.choice(C.SIG4)
            sb = r.choice(C.SIG3)
            b = [repr(r.uniform(-0.5, 0.5)) for _ in range(3)]
            for m, s_, p_ in (("boost_p4", s2, pts[0]), ("boost", s2, pts[1]), ("boostCM_of_p4", s2, pts[2]), ("boost_beta3", sb, b), ("boost", sb, b)):
                n += 1
                run(c01_binary, {"m": m, "s1": list(s1), "s2": list(s_), "p1": p, "p2": p_}, out, limit)
    n += neutral_sweep(seed, ("boost",), out, limit)
    return out, n


def dot3(p, q):
    return sum(x * y for x, y in zip(p[:3], q[:3]))


def cross3(p, q):
    return [p[1] * q[2] - p[2] * q[1], p[2] * q[0] - p[0] * q[2], p[0] * q[1] - p[1] * q[0]]


@check
def c10_laws(a):
    fam, mp = ctx()
    v, w = vec(a["s1"], a["p1"]), vec(a["s2"], a["p2"])
    p, q = M(mp, a["p1"]), M(mp, a["p2"])
    ang, ang2 = mp.mpf(a["a"]), mp.mpf(a["a2"])
    n = M(mp, a["n"])
    axis = vec(a["sn"], a["n"])
    nn = mp.sqrt(sum(x * x for x in n))
    rots = {
        "rotateX": lambda u: u.rotateX(ang), "rotateY": lambda u: u.rotateY(ang), "rotateZ": lambda u: u.rotateZ(ang),
        "rotate_axis": lambda u: u.rotate_axis(axis, ang),
        "rotate_quaternion": lambda u: u.rotate_quaternion(mp.cos(ang / 2), *[c / nn * mp.sin(ang / 2) for c in n]),
        "rotate_nautical": lambda u: u.rotate_nautical(ang, ang2, mp.mpf("0.77")),
    }
    for o in a["orders"]:
        rots["euler_" + o] = (lambda o: lambda u: u.rotate_euler(ang, ang2, mp.mpf("-2.3"), o))(o)
    for name, R in rots.items():
        rv, rw = C.cart(R(v)), C.cart(R(w))
        assert close(dot3(rv, rw), dot3(p, q), 10), f"{name} does not preserve the dot product"
        assert all(close(x, y, 10) for x, y in zip(cross3(rv, rw), C.cart(R(vec(("xy", "z"), [str(c) for c in cross3(p, q)]))))), \
            f"{name} does not preserve handedness (R(a x b) != Ra x Rb)"
        if len(p) == 4:
            assert close(rv[3], p[3], 10), f"{name} changes the time component"
    for ax, e in (("X", [1, 0, 0]), ("Y", [0, 1, 0]), ("Z", [0, 0, 1])):
        r1 = C.cart(getattr(v, "rotate" + ax)(ang))
        r2 = C.cart(v.rotate_axis(vec(("xy", "z"), [str(2.5 * c) for c in e]), ang))
        assert all(close(x, y, 10) for x, y in zip(r1, r2)), f"rotate_axis about e_{ax} != rotate{ax}"
        r3 = C.cart(getattr(getattr(v, "rotate" + ax)(ang), "rotate" + ax)(ang2))
        r4 = C.cart(getattr(v, "rotate" + ax)(ang + ang2))
        assert all(close(x, y, 10) for x, y in zip(r3, r4)), f"rotate{ax} is not additive in the angle"
        r5 = C.cart(getattr(getattr(v, "rotate" + ax)(ang), "rotate" + ax)(-ang))
        assert all(close(x, y, 10) for x, y in zip(r5, p)), f"rotate{ax}(-a) does not invert rotate{ax}(a)"
    r1 = C.cart(v.rotate_axis(axis, ang))
    r2 = C.cart(rots["rotate_quaternion"](v))
    assert all(close(x, y, 10) for x, y in zip(r1, r2)), "rotate_quaternion(cos a/2, n sin a/2) != rotate_axis(n, a)"
    r3 = C.cart(v.rotate_axis(vec(a["sn"], [str(3 * c) for c in n]), ang))
    assert all(close(x, y, 10) for x, y in zip(r1, r3)), "rotate_axis depends on the axis length"
    r4 = C.cart(v.rotate_nautical(ang, ang2, mp.mpf("0.77")))
    r5 = C.cart(v.rotate_euler(mp.mpf("0.77"), ang2, ang, "zyx"))
    assert all(close(x, y, 10) for x, y in zip(r4, r5)), "rotate_nautical(y,p,r) != rotate_euler(r,p,y,'zyx')"
    for o in a["orders"]:
        got = C.cart(v.rotate_euler(ang, ang2, mp.mpf("-2.3"), o.upper()))
        want = ref_vector(mp, "rotate_euler", p, [ang, ang2, mp.mpf("-2.3")], o)
        assert all(close(x, y, 10) for x, y in zip(got, want)), f"rotate_euler order {o} is not the documented product of axis rotations"


def search_c10(seed, tier, limit=5):
    r = C.rng(seed, "c10")
    out, n = [], 0
    for dim in (3, 4):
        pts = points(dim, r, 2)
        for s1 in C.SIGS[dim]:
            for s2 in (C.SIGS[dim] if tier == "thorough" else r.sample(C.SIGS[dim], 2)):
                sn = r.choice(C.SIG3)
                k = r.randrange(len(pts) - 1)
                n += 1
                run(c10_laws, {"s1": list(s1), "s2": list(s2), "sn": list(sn), "p1": pts[k], "p2": pts[k + 1],
                               "n": [repr(r.uniform(-2, 2)) for _ in range(3)], "a": repr(r.choice([0.9, -2.4, 3.7, 7.1])),
                               "a2": repr(r.uniform(-3, 3)), "orders": ORDERS if (tier == "thorough" or n % 4 == 1) else r.sample(ORDERS, 3)},
                    out, limit)
    n += neutral_sweep(seed, ("rot",), out, limit)
    return out, n


@check
def c11_laws(a):
    fam, mp = ctx()
    u, v, w = vec(a["s1"], a["p1"]), vec(a["s2"], a["p2"]), vec(a["s3"], a["p3"])
    p, q, s = M(mp, a["p1"]), M(mp, a["p2"]), M(mp, a["p3"])
    k, k2 = mp.mpf(a["k"]), mp.mpf(a["k2"])
    d = len(p)
    sc = 10 * max(abs(x) for x in p + q + s)

    def eq(a_, b_, msg):
        assert all(close(x, y, sc) for x, y in zip(C.cart(a_), C.cart(b_))) and len(C.cart(a_)) == len(C.cart(b_)), msg
    eq(u + v, v + u, "addition is not commutative")
    eq((u + v) + w, u + (v + w), "addition is not associative")
    eq((u + v) - v, u, "subtraction does not invert addition")
    # the in-place spellings are the same operations (the object keeps its own stored system; skipped where the intermediate value is
    # not representable in it: tau storage cannot hold a non-causal difference)
    if not (d == 4 and a["s1"][-1] == "tau"):
        w1 = vec(a["s1"], a["p1"])
        w1 += v
        eq(w1, u + v, "`+=` is not `+`")
        w1 -= v
        eq(w1, u, "`+=` followed by `-=` of the same vector does not give the vector back")
        w2 = vec(a["s1"], a["p1"])
        w2 -= v
        eq(w2, u - v, "`-=` is not `-`")
        w2 *= k
        eq(w2, (u - v) * k, "`*=` is not `*`")
    if d < 4 or True:
        eq((u + v) * k, u * k + v * k, "scaling does not distribute over addition")
        eq((u * k) * k2, u * (k * k2), "scaling does not compose multiplicatively")
        eq(-u, u * (-1), "negation is not scaling by -1")
        eq(u / k, u * (1 / k), "division is not scaling by the inverse")
    assert close(u.dot(v), v.dot(u), sc), "dot is not symmetric"
    assert close((u + v).dot(w), u.dot(w) + v.dot(w), sc * sc), "dot is not additive"
    assert close((u * k).dot(v), k * u.dot(v), sc * sc), "dot is not homogeneous"
    nrm2 = {2: "rho2", 3: "mag2", 4: "tau2"}[d]
    nrm = {2: "rho", 3: "mag", 4: "tau"}[d]
    assert close(u.dot(u), getattr(u, nrm2), sc * sc), f"v.dot(v) != {nrm2}"
    assert close(u @ v, u.dot(v), sc), "@ is not dot"
    assert close(abs(u), getattr(u, nrm), sc), "abs(v) is not the norm"
    assert close(u ** 2, getattr(u, nrm2), sc * sc), "v**2 is not the squared norm"
    if d == 3:
        c = u.cross(v)
        eq(c, (v.cross(u)) * (-1), "cross is not antisymmetric")
        assert close(c.dot(u), 0, sc ** 3) and close(c.dot(v), 0, sc ** 3), "cross product not orthogonal to its factors"
        assert close(c.mag2, u.mag2 * v.mag2 - u.dot(v) ** 2, sc ** 4), "|a x b|^2 != |a|^2|b|^2 - (a.b)^2"
        eq((u + w).cross(v), u.cross(v) + w.cross(v), "cross is not additive")
    un = u.unit()
    assert close(getattr(un, nrm), 1, 1), "unit() does not have norm one"
    cu, cp = C.cart(un), C.cart(u)
    n0 = getattr(u, nrm)
    assert all(close(x * n0, y, sc) for x, y in zip(cu, cp)), "unit() is not parallel to the original"


@check
def c11_unit_any(a):
    """unit() is a POSITIVE multiple of the original with |norm| one, also for spacelike 4D vectors (norm = sqrt|tau2|)"""
    fam, mp = ctx()
    u = vec(a["sig"], a["p"])
    d = len(a["p"])
    n2 = getattr(u, {2: "rho2", 3: "mag2", 4: "tau2"}[d])
    n0 = mp.sqrt(abs(n2))
    un = u.unit()
    sc = 10 * max(abs(x) for x in M(mp, a["p"]))
    assert all(close(x * n0, y, sc) for x, y in zip(C.cart(un), C.cart(u))), \
        f"unit() of {a['p']} stored as {a['sig']} is not the original divided by its (absolute) norm: {[str(x)[:12] for x in C.cart(un)]}"


def search_c11(seed, tier, limit=5):
    r = C.rng(seed, "c11")
    out, n = [], 0
    for q in points(3, r, 1)[: (3 if tier == "quick" else 8)]:
        mag = sum(float(x) ** 2 for x in q) ** 0.5
        for sig in C.SIGS[4]:
            if sig[-1] == "t":
                n += 1
                run(c11_unit_any, {"sig": list(sig), "p": q + [repr(mag * r.uniform(0.2, 0.8))]}, out, limit)
    for dim in (2, 3, 4):
        pts = points(dim, r, 3)
        for s1 in C.SIGS[dim]:
            for s2 in (C.SIGS[dim] if tier == "thorough" else r.sample(C.SIGS[dim], min(2, len(C.SIGS[dim])))):
                s3 = r.choice(C.SIGS[dim])
                # every consecutive triple of the stratified points (all sign patterns / quadrants meet each other, in both orders)
                for k in range(len(pts) - 2):
                    n += 1
                    kk = r.choice([0.7, 2.5]) if (dim == 4) else r.choice([-1.7, 0.4, 3.0])
                    trip = (pts[k], pts[k + 1], pts[k + 2]) if k % 2 == 0 else (pts[k + 2], pts[k], pts[k + 1])
                    run(c11_laws, {"s1": list(s1), "s2": list(s2), "s3": list(s3), "p1": trip[0], "p2": trip[1], "p3": trip[2],
                                   "k": repr(kk), "k2": repr(r.choice([1.5, 0.25]))}, out, limit)
    n += neutral_sweep(seed, ("vs", "lin"), out, limit)
    return out, n


@check
def c13_laws(a):
    fam, mp = ctx()
    v, w = vec(a["s1"], a["p1"]), vec(a["s2"], a["p2"])
    p, q = M(mp, a["p1"]), M(mp, a["p2"])
    d = len(p)
    pi = mp.pi
    eps = mp.mpf("1e-40")
    assert -pi - eps <= v.phi <= pi + eps, "phi outside [-pi, pi]"
    dphi = v.deltaphi(w)
    assert -pi - eps <= dphi <= pi + eps, "deltaphi outside [-pi, pi]"
    assert v.rho >= 0 and v.rho2 >= 0, "rho/rho2 negative"
    tol = mp.mpf(a["tol"])
    if d >= 3:
        assert -eps <= v.theta <= pi + eps, "theta outside [0, pi]"
        assert -eps <= v.deltaangle(w) <= pi + eps, "deltaangle outside [0, pi]"
        assert v.mag >= 0 and v.mag2 >= 0, "mag/mag2 negative"
        z = p[2]
        assert mp.sign(v.costheta) == mp.sign(z) and mp.sign(v.cottheta) == mp.sign(z), "costheta/cottheta do not have the sign of z"
    # the same ranges on the RESULTS of vector-valued operations (a result stored in polar / theta form must be stored in range)
    k1, k2, ang = mp.mpf("-1.3"), mp.mpf("2.5"), mp.mpf("2.9")
    results = [("scale(-1.3)", lambda: v.scale(k1)), ("scale(2.5)", lambda: v.scale(k2)), ("-v", lambda: -v), ("v * -1.3", lambda: v * k1), ("v / -1.3", lambda: v / k1),
               ("rotateZ(2.9)", lambda: v.rotateZ(ang)), ("rotateZ(-2.9)", lambda: v.rotateZ(-ang)), ("unit()", lambda: v.unit()),
               ("to_rhophi()", lambda: v.to_rhophi())]
    if len(p) == len(q):
        results += [("add", lambda: v.add(w)), ("subtract", lambda: v.subtract(w)), ("w.subtract(v)", lambda: w.subtract(v))]
    if d >= 3:
        results += [("rotateX(2.9)", lambda: v.rotateX(ang)), ("rotateY(-2.9)", lambda: v.rotateY(-ang)), ("to_rhophitheta()", lambda: v.to_rhophitheta()),
                    ("scale3D(-1.3)", lambda: v.scale3D(k1)), ("scale2D(-1.3)", lambda: v.scale2D(k1)), ("neg3D", lambda: v.neg3D), ("neg2D", lambda: v.neg2D)]
    if d == 4 and a["s1"][-1] == "t":
        results += [("boostX(0.6)", lambda: v.boostX(beta=mp.mpf("0.6"))), ("boostZ(-0.8)", lambda: v.boostZ(beta=mp.mpf("-0.8"))), ("neg4D", lambda: v.neg4D)]
    for label, thunk in results:
        try:
            r_ = thunk()
        except Exception:  # noqa: BLE001   (singular / not representable for this storage: not a verdict)
            continue
        assert -pi - eps <= r_.phi <= pi + eps, f"phi of {label} = {str(r_.phi)[:24]} outside [-pi, pi]"
        assert r_.rho >= -eps, f"rho of {label} negative"
        if hasattr(r_, "theta") and d >= 3 and hasattr(r_, "longitudinal"):
            assert -eps <= r_.theta <= pi + eps, f"theta of {label} = {str(r_.theta)[:24]} outside [0, pi]"
    na = mp.sqrt(sum(x * x for x in p[:3]))
    nb = mp.sqrt(sum(x * x for x in q[:3]))
    cosang = sum(x * y for x, y in zip(p[:3], q[:3])) / (na * nb)
    margin = mp.mpf("1e-30")
    for name, truth, dist in (("is_parallel", cosang > 1 - tol, abs(cosang - (1 - tol))),
                              ("is_antiparallel", cosang < tol - 1, abs(cosang - (tol - 1))),
                              ("is_perpendicular", abs(cosang) < tol, abs(abs(cosang) - tol))):
        if dist > margin:
            got = bool(getattr(v, name)(w, tol))
            assert got == bool(truth), f"{name} is {got} but cos(angle)={str(cosang)[:20]} tol={a['tol']}"
    if d == 4:
        s = p[3] ** 2 - sum(x * x for x in p[:3])
        assert v.t2 >= 0, "t2 negative"
        tl, ll, sl = bool(v.is_timelike(tol)), bool(v.is_lightlike(tol)), bool(v.is_spacelike(tol))
        assert tl + ll + sl <= 1, f"causal classes overlap: timelike={tl} lightlike={ll} spacelike={sl}"
        if abs(abs(s) - tol) > margin:
            assert tl == (s > tol) and sl == (s < -tol) and ll == (abs(s) < tol), \
                f"causal class does not follow the sign of t^2-mag^2={str(s)[:20]} (tol {a['tol']}): {tl} {ll} {sl}"
        assert (v.tau < 0) == (s < 0), "tau negative iff spacelike fails"
        if s > 0 and p[3] > 0:
            assert 0 <= v.beta < 1 and v.gamma >= 1, "beta/gamma out of range for a forward timelike vector"
        t_from_tau = vec(("xy", "z", "tau"), a["p1"]).t if s >= 0 else None
        if t_from_tau is not None:
            assert t_from_tau >= 0 and not mp.isnan(t_from_tau), "t derived from tau is negative or NaN"


@check
def c13_float64_ranges(a):
    """the documented RANGES at float64 (the precision users compute in) on boundary operands: exactly parallel / antiparallel pairs,
    axis-aligned vectors: deltaangle in [0, pi] and never NaN, phi/deltaphi in [-pi, pi], theta in [0, pi], costheta in [-1, 1]"""
    import math
    v = C.obj_vec("g", tuple(a["s1"]), C.cart_to_stored(tuple(a["s1"]), [float(x) for x in a["p1"]]))
    w = C.obj_vec("m", tuple(a["s2"]), C.cart_to_stored(tuple(a["s2"]), [float(x) for x in a["p2"]]))
    pi = math.pi
    for name, val, lo, hi in (("phi", v.phi, -pi, pi), ("deltaphi", v.deltaphi(w), -pi, pi), ("deltaphi (reversed)", w.deltaphi(v), -pi, pi)):
        assert lo <= float(val) <= hi, f"{name} = {float(val)!r} outside [{lo}, {hi}] for {a['p1']} as {a['s1']} / {a['p2']} as {a['s2']}"
    if len(a["s1"]) >= 2:
        for name, val, lo, hi in (("theta", v.theta, 0.0, pi), ("costheta", v.costheta, -1.0, 1.0), ("deltaangle", v.deltaangle(w), 0.0, pi),
                                  ("deltaangle (reversed)", w.deltaangle(v), 0.0, pi)):
            assert lo <= float(val) <= hi, f"{name} = {float(val)!r} outside [{lo}, {hi}] for {a['p1']} as {a['s1']} / {a['p2']} as {a['s2']}"


@check
def c13_t_from_tau(a):
    """t and t2 read from a tau-stored vector are non-negative and never NaN for EVERY stored tau, including tau < -|p| (float64)"""
    import math
    import vector
    sig = tuple(a["sig"])
    st = [float(x) for x in a["stored"]]
    for fl in ("g", "m"):
        v = C.obj_vec(fl, sig, st)
        t, t2 = float(v.t), float(v.t2)
        assert not math.isnan(t) and t >= 0.0, f"t = {t!r} from the stored coordinates {st} of {sig}"
        assert not math.isnan(t2) and t2 >= 0.0, f"t2 = {t2!r} from the stored coordinates {st} of {sig}"
        w = v.to_xyzt()
        assert not math.isnan(float(w.t)) and float(w.t) >= 0.0, f"to_xyzt().t = {float(w.t)!r} from the stored coordinates {st} of {sig}"


def search_c13(seed, tier, limit=5):
    r = C.rng(seed, "c13")
    out, n = [], 0
    for sig in C.SIG4:
        if sig[-1] != "tau":
            continue
        for p in points(3, r, 1)[:4]:
            sp = C.cart_to_stored(sig[:2], [float(x) for x in p])
            mag = sum(float(x) ** 2 for x in p) ** 0.5
            for tau in (0.0, 0.5 * mag, -0.5 * mag, -mag, -1.0001 * mag, -2.6 * mag, -40.0 * mag, 3.0 * mag):
                n += 1
                run(c13_t_from_tau, {"sig": list(sig), "stored": [repr(x) for x in sp] + [repr(tau)]}, out, limit)
    # float64 boundary pairs (exactly antiparallel / parallel, several directions) for EVERY pair of coordinate systems
    dirs = [[0.0, 1.0, 2.0], [1.0, 2.0, 2.0], [1.0, 1.0, 1.0], [3.0, 4.0, 5.0], [-2.0, 0.5, 0.25], [0.3, -0.7, 1.9], [1.0, 0.0, 0.0], [0.0, -1.0, 0.0]]
    dirs += [[r.uniform(-3, 3) for _ in range(3)] for _ in range(4 if tier == "quick" else 24)]
    for dim in (2, 3, 4):
        for s1 in C.SIGS[dim]:
            for s2 in C.SIGS[dim]:
                for dvec in dirs:
                    if dim >= 3 and dvec[0] == 0.0 and dvec[1] == 0.0:
                        continue
                    if (abs(dvec[0]) + abs(dvec[1]) == 0.0) or (dim == 2 and dvec[0] == 0.0 and dvec[1] == 0.0):
                        continue
                    for k in (-1.0, -2.5, 1.0, 0.5):
                        if k > 0 and tier == "quick" and dvec is not dirs[0]:
                            continue
                        p1 = dvec[:min(dim, 3)] + ([10.0] if dim == 4 else [])
                        p2 = [k * x for x in dvec[:min(dim, 3)]] + ([12.0] if dim == 4 else [])
                        n += 1
                        run(c13_float64_ranges, {"s1": list(s1), "s2": list(s2), "p1": [repr(x) for x in p1], "p2": [repr(x) for x in p2]}, out, limit)
    for dim in (2, 3, 4):
        pts = points(dim, r, 3)
        if dim == 4:   # add spacelike and near-lightlike points
            for p in points(3, r, 1)[:4]:
                mag = sum(float(x) ** 2 for x in p) ** 0.5
                pts.append(p + [repr(mag * 0.6)])
                pts.append(p + [repr(mag * (1 + 1e-7))])
        for s1 in C.SIGS[dim]:
            for s2 in (C.SIGS[dim] if tier == "thorough" else r.sample(C.SIGS[dim], min(2, len(C.SIGS[dim])))):
                for k in range(0, len(pts) - 1, 2 if tier == "quick" else 1):
                    p1, p2 = pts[k], pts[k + 1]
                    if s1[-1] == "tau" and float(p1[3]) ** 2 < sum(float(x) ** 2 for x in p1[:3]):
                        continue
                    if s2[-1] == "tau" and float(p2[3]) ** 2 < sum(float(x) ** 2 for x in p2[:3]):
                        continue
                    n += 1
                    run(c13_laws, {"s1": list(s1), "s2": list(s2), "p1": p1, "p2": p2, "tol": r.choice(["1e-5", "0.01", "0.3"])}, out, limit)
        # aligned / anti-aligned / orthogonal pairs
        for s1 in C.SIGS[dim]:
            p1 = pts[0]
            par = [repr(2 * float(x)) for x in p1]
            anti = [repr(-1.5 * float(x)) for x in p1[:3]] + p1[3:]
            perp = [repr(-float(p1[1])), repr(float(p1[0]))] + (["0.0"] if dim >= 3 else []) + p1[3:]
            for p2 in (par, anti, perp):
                n += 1
                run(c13_laws, {"s1": list(s1), "s2": list(r.choice(C.SIGS[dim])), "p1": p1, "p2": p2, "tol": "1e-5"}, out, limit)
    return out, n
