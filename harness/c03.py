"""C03 — object, NumPy and Awkward backends compute the same values"""
from harness import common as C

PROPERTY = "C03"
LEAN_TARGETS = ["VectorModel.Props.C03"]
THEOREM_FILES = ["VectorModel/Props/C03.lean"]
NOT_COVERED = ["that a NumPy ufunc on an array equals the ufunc on each element (NumPy's contract, trusted and sampled)",
               "float64 rounding differences below 1e-12 relative"]


def correspondence(ctx):
    from harness import backends
    bad, st, samples = backends.value_lattice(ctx)
    bad2, st2 = backends.dimension_lattice(ctx)     # float64 / int64 / float32 columns, imputed keyword values
    bad3, st3 = backends.dtype_value_lattice(ctx)   # int64 / int32 / float32 / mixed columns through every vector-valued method
    bad4, st4 = backends.function_form_lattice(ctx)   # numpy function forms, operands in either order / of either flavor
    st.update(st4)
    bad = bad + bad2 + bad3 + bad4
    st.update(st2)
    st.update(st3)
    st["elements_compared"] += st2["dimension_elements"] + st3["dtype_elements"]
    # Awkward momentum arrays whose RECORDS keep the raw momentum field names (ak.zip(..., with_name="Momentum4D")): a single-vector operation,
    # then every reader of the result, against the same array spelled geometrically (which value_lattice ties to the object backend)
    from harness import c14
    rb, rn = c14.raw_awkward_spellings("ops")
    st["raw_record_two_step_reads"] = rn
    st["elements_compared"] += rn
    rawcode = c14.RAW_REPLAY.replace("raw_awkward_spellings()", "raw_awkward_spellings('ops')")
    dis = [f"{a} :: {b}" for a, b, _ in bad[:12]]
    fails = []
    seen = set()
    for a, b, k in bad:
        if k in seen:
            continue
        seen.add(k)
        fails.append({"key": k, "what": f"{a}: {b}"[:400], "code": replay_code(ctx.seed, ctx.tier, k)})
    for d in rb[:3]:
        dis.append(d[:300])
        fails.append({"key": "awkward-raw-two-step:" + d.split(":")[1].strip()[:20], "what": d[:400], "code": rawcode})
    st["traces_validated_against_impl"] = st["elements_compared"]
    return {"ok": not bad and not rb, "disagreements": dis, "failing_inputs": fails[:5], "stats": st, "samples": samples}


def replay_code(seed, tier, key):
    return ("import sys; sys.path.insert(0, %r); sys.path.insert(0, %r)\nfrom harness import backends as Bk\n"
            "class X: seed=%d; tier=%r\nbad, st, _ = Bk.value_lattice(X)\nbad += Bk.dimension_lattice(X)[0]\nbad += Bk.dtype_value_lattice(X)[0]\nbad += Bk.function_form_lattice(X)[0]\nhit=[b for b in bad if b[2]==%r]\n"
            "assert not hit, hit[0][0] + ' :: ' + hit[0][1]\n" % (C.VERIF, C.VERIF + "/tools", seed, tier, key))
