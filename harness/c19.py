"""C19 — see harness/arrays.py (c19_run) and DESIGN.md section 4/C19"""
from harness import common as C
from harness import arrays

PROPERTY = "C19"
LEAN_TARGETS = ["VectorModel.Props.C19", "VectorModel.Glue.Heap", "VectorModel.Props.C19Heap"]
THEOREM_FILES = ["VectorModel/Props/C19.lean", "VectorModel/Props/C19Heap.lean"]
NEEDS_TRANSLATOR = False


def correspondence(ctx):
    problems, stats, samples = arrays.c19_run(ctx)
    # HEAP model (Glue/Heap.lean: buffers, views as index maps, copies / pickles as fresh buffers, writes through aliases): random
    # histories over several live variables on the real arrays against the Lean driver, state compared after every operation
    from harness import heap
    hp, hst = heap.run(ctx)
    problems = problems + [("heap:" + k, d) for k, d in hp]
    stats.update({"heap_" + k: v for k, v in hst.items() if isinstance(v, int)})
    stats["heap_ops"] = hst.get("ops")
    seen, fails = set(), []
    for k, d in problems:
        if k in seen:
            continue
        seen.add(k)
        fails.append({"key": k, "what": d[:400], "code": replay_code(ctx.seed, ctx.tier, k) if not k.startswith("heap:") else (
            "import sys; sys.path.insert(0, %r); sys.path.insert(0, %r)\nfrom harness import heap\nclass X: seed=%d; tier=%r\n"
            "problems, _ = heap.run(X)\nassert not problems, problems[0]\n" % (C.VERIF, C.VERIF + "/tools", ctx.seed, ctx.tier))})
    stats["traces_validated_against_impl"] = sum(v for v in stats.values() if isinstance(v, int))
    return {"ok": not problems, "disagreements": [f"{k}: {d}"[:300] for k, d in problems[:12]], "failing_inputs": fails[:6],
            "stats": stats, "samples": samples}


def replay_code(seed, tier, key):
    return ("import sys; sys.path.insert(0, %r); sys.path.insert(0, %r)\nfrom harness import arrays\n"
            "class X: seed=%d; tier=%r\nproblems, _, _ = arrays.c19_run(X)\nhit=[d for k, d in problems if k==%r]\n"
            "assert not hit, hit[0]\n" % (C.VERIF, C.VERIF + "/tools", seed, tier, key))
