"""C05 — result backend, flavor, dimension and coordinate system follow the stated rules"""
from harness import common as C
from harness._compute import symobj_replay

PROPERTY = "C05"
LEAN_TARGETS = ["VectorModel.Props.C05"]
THEOREM_FILES = ["VectorModel/Props/C05.lean"]
NEEDS_TRANSLATOR = True
NOT_COVERED = ["NumPy / Awkward internals (structured views, ak.zip, ak.transform): modelled at their contract, checked differentially"]


def correspondence(ctx):
    from harness import backends, symobj
    r = C.rng(ctx.seed, "c05")
    reqs = symobj.lattice(r, ctx.tier)
    bad, st = symobj.run(reqs)
    dis = [f"object: {q} : real={a[:100]} model={b[:100]}" for q, a, b in bad[:10]]
    fails = [{"key": "glue:" + " ".join(q.split()[:2]), "what": f"object backend: `{q}` gives {a[:100]}, the rule gives {b[:100]}",
              "code": symobj_replay(q, b)} for q, a, b in bad[:3]]
    total = len(reqs)
    classes = {}
    known_hits = []
    for registered in (False, True):
        n, tb = backends.type_lattice_classified(ctx, registered)
        total += n
        for q, a, b, cls in tb:
            classes[cls or "UNCLASSIFIED"] = classes.get(cls or "UNCLASSIFIED", 0) + 1
            if cls is None:
                dis.append(f"backends(registered={registered}): {q} : real={a} rule={b}")
                fails.append({"key": "types:" + " ".join(q.split()[:2]) + (":registered" if registered else ""),
                              "what": f"`{q}` (awkward behaviors registered: {registered}) returns {a}; the documented rule gives {b}",
                              "code": type_replay(q, b, registered, ctx.seed, ctx.tier)})
            elif not any(f["key"] == cls for f in known_hits):
                known_hits.append({"key": cls, "what": cls, "code": None})
    st.update({"traces_validated_against_impl": total, "type_lattice_disagreement_classes": classes})
    return {"ok": not dis, "disagreements": dis[:20], "failing_inputs": fails[:10] + known_hits, "stats": st,
            "samples": [{"request": reqs[i], "answer": symobj.real_answer(reqs[i])[:160]} for i in (0, len(reqs) // 2, len(reqs) - 1)]}


def type_replay(q, want, registered, seed, tier):
    return ("import sys; sys.path.insert(0, %r); sys.path.insert(0, %r)\nimport vector\n%s"
            "from harness import backends as Bk\nclass X: seed=%d; tier=%r\nreqs, bad = Bk.type_lattice(X)\n"
            "hit=[b for b in bad if b[0]==%r]\nassert not hit, 'real: %%s, rule: %%s' %% (hit[0][1], hit[0][2])\n"
            % (C.VERIF, C.VERIF + "/tools", "vector.register_awkward()\n" if registered else "", seed, tier, q))
