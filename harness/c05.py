"""C05 — result backend, flavor, dimension and coordinate system follow the stated rules"""
from harness import common as C
from harness._compute import symobj_replay

PROPERTY = "C05"
LEAN_TARGETS = ["VectorModel.Props.C05", "VectorModel.Glue.Ufunc", "VectorModel.Props.C05Ufunc", "VectorModel.Props.UfuncDenote"]
THEOREM_FILES = ["VectorModel/Props/C05.lean", "VectorModel/Props/C05Ufunc.lean", "VectorModel/Props/UfuncDenote.lean"]
NEEDS_TRANSLATOR = True
NOT_COVERED = ["NumPy / Awkward internals (structured views, ak.zip, ak.transform): modelled at their contract, checked differentially"]


def correspondence(ctx):
    from harness import backends, symobj
    r = C.rng(ctx.seed, "c05")
    reqs = symobj.lattice(r, ctx.tier)
    bad, st = symobj.run(reqs)
    dis = [f"object: {q} : real={a[:100]} model={b[:100]}" for q, a, b in bad[:10]]
    fails = [{"key": "glue:" + " ".join(q.split()[:2]), "what": f"object backend: `{q}` gives {a[:100]}, the rule gives {b[:100]}",
              "code": symobj_replay(q, b)} for q, a, b in bad[:3]]
    total = len(reqs)
    classes = {}
    known_hits = []
    for registered in (False, True):
        n, tb = backends.type_lattice_classified(ctx, registered)
        total += n
        for q, a, b, cls in tb:
            classes[cls or "UNCLASSIFIED"] = classes.get(cls or "UNCLASSIFIED", 0) + 1
            if cls is None:
                dis.append(f"backends(registered={registered}): {q} : real={a} rule={b}")
                fails.append({"key": "types:" + " ".join(q.split()[:2]) + (":registered" if registered else ""),
                              "what": f"`{q}` (awkward behaviors registered: {registered}) returns {a}; the documented rule gives {b}",
                              "code": type_replay(q, b, registered, ctx.seed, ctx.tier)})
            elif not any(f["key"] == cls for f in known_hits):
                known_hits.append({"key": cls, "what": cls, "code": None})
    # operators / ufunc forms = methods, value and type, on object / NumPy / Awkward (flat, jagged)
    obad, ost = backends.operator_value_lattice(ctx)
    total += ost["operator_elements"]
    st.update(ost)
    seen_ = set()
    for a_, b_, k_ in obad:
        if k_ in seen_:
            continue
        seen_.add(k_)
        if k_ == "awkward-matmul":
            known_hits.append({"key": k_, "what": k_, "code": None})
            classes[k_] = classes.get(k_, 0) + 1
            continue
        dis.append(f"operator: {a_} :: {b_}"[:300])
        fails.append({"key": k_, "what": f"{a_}: {b_}"[:400], "code": operator_replay(ctx.seed, ctx.tier, k_)})
    # `_wrap_result` of every backend called directly on the WHOLE finite lattice (declared result shape x stored system of the
    # handler x flavor): class, coordinate system and the source of every coordinate vs the Lean rule `wrapVec`
    wbad, wst = backends.wrap_lattice(ctx)
    total += wst["wrap_result_calls"]
    st.update(wst)
    wseen = set()
    for a_, b_, k_ in wbad:
        if k_ not in wseen:
            wseen.add(k_)
            dis.append(f"_wrap_result: {a_} :: {b_}"[:300])
            fails.append({"key": k_, "what": f"`{a_}`: {b_}"[:400], "code": wrap_replay(a_)})
    # documented parameter names and defaults: keyword call = positional call in the documented order (all backends)
    kbad, kst = backends.keyword_lattice(ctx)
    total += kst["keyword_calls"]
    st.update(kst)
    kseen = set()
    for a_, b_, k_ in kbad:
        if k_ not in kseen:
            kseen.add(k_)
            dis.append(f"signature: {a_} :: {b_}"[:300])
            fails.append({"key": k_, "what": f"{a_}: {b_}"[:400], "code": keyword_replay(ctx.seed, ctx.tier, k_)})
    # the ROUTING model of the four __array_ufunc__ / behavior tables (Glue/Ufunc via Driver/Ufunc): every ufunc x operand-kind list x out=,
    # the Python operator forms and the Awkward key registry; the model's route is evaluated on the real library and compared
    from harness import ufunc as _ufunc
    up, ust = _ufunc.run(ctx)
    useen = set()
    for k_, d_ in up:
        if k_ in useen:
            continue
        useen.add(k_)
        dis.append(f"ufunc-routing: {k_}: {d_}"[:300])
        fails.append({"key": "ufunc:" + str(k_), "what": str(d_)[:400], "code": (
            "import sys; sys.path.insert(0, %r); sys.path.insert(0, %r)\nfrom harness import ufunc\nclass X: seed=%d; tier=%r\n"
            "problems, _ = ufunc.run(X)\nassert not problems, problems[0]\n" % (C.VERIF, C.VERIF + "/tools", ctx.seed, ctx.tier))})
    total += ust.get("requests", 0)
    st.update({"ufunc_routing_" + k_: v_ for k_, v_ in ust.items() if isinstance(v_, (int, float, str, dict)) or v_ is None})
    st.update({"traces_validated_against_impl": total, "type_lattice_disagreement_classes": classes})
    return {"ok": not dis, "disagreements": dis[:20], "failing_inputs": fails[:10] + known_hits, "stats": st,
            "samples": [{"request": reqs[i], "answer": symobj.real_answer(reqs[i])[:160]} for i in (0, len(reqs) // 2, len(reqs) - 1)]}


def type_replay(q, want, registered, seed, tier):
    return ("import sys; sys.path.insert(0, %r); sys.path.insert(0, %r)\nimport vector\n%s"
            "from harness import backends as Bk\nclass X: seed=%d; tier=%r\nreqs, bad = Bk.type_lattice(X)\n"
            "hit=[b for b in bad if b[0]==%r]\nassert not hit, 'real: %%s, rule: %%s' %% (hit[0][1], hit[0][2])\n"
            % (C.VERIF, C.VERIF + "/tools", "vector.register_awkward()\n" if registered else "", seed, tier, q))


def operator_replay(seed, tier, key):
    return ("import sys; sys.path.insert(0, %r); sys.path.insert(0, %r)\nfrom harness import backends as Bk\n"
            "class X: seed=%d; tier=%r\nbad, _ = Bk.operator_value_lattice(X)\nhit=[b for b in bad if b[2]==%r]\n"
            "assert not hit, hit[0][0] + ' :: ' + hit[0][1]\n" % (C.VERIF, C.VERIF + "/tools", seed, tier, key))


def keyword_replay(seed, tier, key):
    return ("import sys; sys.path.insert(0, %r); sys.path.insert(0, %r)\nfrom harness import backends as Bk\n"
            "class X: seed=%d; tier=%r\nbad, _ = Bk.keyword_lattice(X)\nhit=[b for b in bad if b[2]==%r]\n"
            "assert not hit, hit[0][0] + ' :: ' + hit[0][1]\n" % (C.VERIF, C.VERIF + "/tools", seed, tier, key))


def wrap_replay(q):
    return ("import sys; sys.path.insert(0, %r); sys.path.insert(0, %r)\nfrom harness import backends as Bk\n"
            "class X: seed=0; tier='quick'\nbad, _ = Bk.wrap_lattice(X)\nhit=[b for b in bad if b[0]==%r]\n"
            "assert not hit, hit[0][0] + ' :: ' + hit[0][1]\n" % (C.VERIF, C.VERIF + "/tools", q))
