"""C17 — see harness/arrays.py (c17_run) and DESIGN.md section 4/C17"""
from harness import common as C
from harness import arrays

PROPERTY = "C17"
LEAN_TARGETS = ["VectorModel.Props.C17", "VectorModel.Glue.Reduce", "VectorModel.Props.C17Axis"]
THEOREM_FILES = ["VectorModel/Props/C17.lean", "VectorModel/Props/C17Axis.lean"]
NEEDS_TRANSLATOR = True


def correspondence(ctx):
    problems, stats, samples = arrays.c17_run(ctx)
    # AXIS model (Glue/Reduce.lean): shapes up to 3-d incl. length-one and size-0 axes, every axis spelling (omitted / None / ints /
    # negative / tuples / out of range), keepdims, 13 call spellings, jagged Awkward arrays - the Lean driver predicts class, shape /
    # list structure and (integer) values, compared request by request with the real reducers
    from harness import reduce as _reduce
    rp, rst = _reduce.run(ctx)
    problems = problems + [("axis-model:" + str(k), str(d)) for k, d in rp]
    stats.update({"axis_model_" + k: v for k, v in rst.items() if isinstance(v, int)})
    seen, fails = set(), []
    for k, d in problems:
        if k in seen:
            continue
        seen.add(k)
        fails.append({"key": k, "what": d[:400], "code": replay_code(ctx.seed, ctx.tier, k) if not k.startswith("axis-model:") else (
            "import sys; sys.path.insert(0, %r); sys.path.insert(0, %r)\nfrom harness import reduce\nclass X: seed=%d; tier=%r\n"
            "problems, _ = reduce.run(X)\nassert not problems, problems[0]\n" % (C.VERIF, C.VERIF + "/tools", ctx.seed, ctx.tier))})
    stats["traces_validated_against_impl"] = sum(v for v in stats.values() if isinstance(v, int))
    return {"ok": not problems, "disagreements": [f"{k}: {d}"[:300] for k, d in problems[:12]], "failing_inputs": fails[:6],
            "stats": stats, "samples": samples}


def replay_code(seed, tier, key):
    return ("import sys; sys.path.insert(0, %r); sys.path.insert(0, %r)\nfrom harness import arrays\n"
            "class X: seed=%d; tier=%r\nproblems, _, _ = arrays.c17_run(X)\nhit=[d for k, d in problems if k==%r]\n"
            "assert not hit, hit[0]\n" % (C.VERIF, C.VERIF + "/tools", seed, tier, key))
