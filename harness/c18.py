"""C18 — see harness/arrays.py (c18_run) and DESIGN.md section 4/C18"""
from harness import common as C
from harness import arrays

PROPERTY = "C18"
LEAN_TARGETS = ["VectorModel.Props.C18", "VectorModel.Props.C18Layout"]
THEOREM_FILES = ["VectorModel/Props/C18.lean", "VectorModel/Props/C18Layout.lean"]
NEEDS_TRANSLATOR = False


def correspondence(ctx):
    problems, stats, samples = arrays.c18_run(ctx)
    # the Lean LAYOUT model itself (Glue/Awkward.lean: map / zipWith over layout trees, carry rule) against the real Awkward backend:
    # random layouts x methods x second operands, record name / coordinate fields / carried extras / list-and-missing structure
    # predicted by the driver and compared line by line (harness/layout.py)
    from harness import layout
    lp, lst = layout.run(ctx)
    problems = problems + [("layout:" + str(k), str(d)) for k, d in lp]
    stats.update({"layout_" + k: v for k, v in lst.items() if isinstance(v, int)})
    stats["layout_known_deviations"] = lst.get("known_deviations")
    seen, fails = set(), []
    for k, d in problems:
        if k in seen:
            continue
        seen.add(k)
        fails.append({"key": k, "what": d[:400], "code": replay_code(ctx.seed, ctx.tier, k) if not k.startswith("layout:") else (
            "import sys; sys.path.insert(0, %r); sys.path.insert(0, %r)\nfrom harness import layout\nclass X: seed=%d; tier=%r\n"
            "problems, _ = layout.run(X)\nassert not problems, problems[0]\n" % (C.VERIF, C.VERIF + "/tools", ctx.seed, ctx.tier))})
    stats["traces_validated_against_impl"] = sum(v for v in stats.values() if isinstance(v, int))
    return {"ok": not problems, "disagreements": [f"{k}: {d}"[:300] for k, d in problems[:12]], "failing_inputs": fails[:6],
            "stats": stats, "samples": samples}


def replay_code(seed, tier, key):
    return ("import sys; sys.path.insert(0, %r); sys.path.insert(0, %r)\nfrom harness import arrays\n"
            "class X: seed=%d; tier=%r\nproblems, _, _ = arrays.c18_run(X)\nhit=[d for k, d in problems if k==%r]\n"
            "assert not hit, hit[0]\n" % (C.VERIF, C.VERIF + "/tools", seed, tier, key))
