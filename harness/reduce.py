"""C17 — axis correspondence of the reducers: `numpy.sum` / `ndarray.sum` / `numpy.count_nonzero` on n-d NumPy vector arrays and
`ak.sum` / `ak.count_nonzero` / `ak.count` on jagged Awkward vector arrays, against the Lean axis model.

Seeded random integer-valued arrays — every coordinate system, both flavors, shapes up to 3-d with length-one and size-0 axes,
flat / jagged / doubly jagged Awkward layouts with empty lists — are reduced by the REAL library under every spelling
(`numpy.sum(a, axis=…, keepdims=…)`, positional arguments, `a.sum(…)`, omitted axis, `numpy.count_nonzero`, `ak.sum`, `numpy.sum`
on an Awkward array, `ak.count_nonzero`, `ak.count` on the array and on a coordinate field), for `axis` in {omitted, None, every
integer in and just out of range, tuples incl. empty / repeated / out of range} and both `keepdims`.  The same requests go, one per line, through
the Lean driver `Driver/Reduce.lean` (model `Glue/Reduce.lean`, run at the integer Cartesian components) in ONE invocation; per
request the result class (flavor kept), the shape / list structure and the values — or the exception class — are compared.
Cartesian storage: exactly.  Other coordinate systems: the stored floats are the conversion of the integer Cartesian components,
the real result must be within 1e-9 (relative to the magnitude of the inputs) of the model's integers.

    cd /verif && /venv/bin/python -m harness.reduce 1 quick
"""
from __future__ import annotations

import math

import awkward as ak
import numpy

import vector
from harness import common as C
from harness import leanio

PROPERTY = "C17"
LEAN_TARGETS = ["VectorModel.Glue.Reduce", "VectorModel.Props.C17Axis"]
THEOREM_FILES = ["VectorModel/Props/C17Axis.lean"]
NEEDS_TRANSLATOR = False
NOT_COVERED = ["floating-point rounding and summation order (the model is exact: integers), `dtype=` / `out=` / `initial=` / `where=` (rejected by the "
               "library), `mask_identity=True`, option-type / regular / union Awkward layouts, depth > 3, NumPy shapes beyond 3-d, boolean / float axis values"]

COMP = ["x", "y", "z", "t"]

NP_SHAPES = [(), (1,), (4,), (0,), (2, 3), (3, 1), (1, 4), (1, 1), (2, 0), (0, 3), (2, 1, 3), (1, 2, 2), (2, 2, 1), (1, 1, 1), (2, 0, 2), (3, 2, 2)]
AK_LAYOUTS = [("f", 0), ("f", 1), ("f", 5), ("j", []), ("j", [0]), ("j", [0, 0]), ("j", [3]), ("j", [2, 0, 3, 1]), ("j", [1, 1, 1]), ("j", [0, 4, 0]),
              ("k", [1, 0, 3], [2, 0, 3, 1]), ("k", [2, 2], [0, 0, 1, 3]), ("k", [0, 1], [2]), ("k", [], []), ("k", [0, 0], []), ("k", [3], [0, 0, 0]),
              ("k", [2, 1], [1, 2, 3])]
NP_SUM_FORMS = ["numpy.sum-kw", "numpy.sum-pos", "method-kw", "method-pos"]
NP_CNZ_FORMS = ["numpy.count_nonzero-kw", "numpy.count_nonzero-pos"]
AK_SUM_FORMS = ["ak.sum-kw", "ak.sum-pos", "numpy.sum-ak"]
AK_CNZ_FORMS = ["ak.count_nonzero-kw", "ak.count_nonzero-pos"]
AK_CNT_FORMS = ["ak.count-array", "ak.count-field"]


# ------------------------------------------------------------------------------------------------ operands
def rand_cart(r, sig, want_zero):
    """integer Cartesian components, representable under `sig` without a singular coordinate"""
    dim = len(sig) + 1
    if want_zero:
        return [0] * dim
    if r.random() < 0.35:                               # exactly ONE non-zero component (where the system can store it): count_nonzero must see it
        js = [0, 1] + ([2] if dim >= 3 and sig[1] == "z" else []) + ([3] if dim == 4 else [])
        j = r.choice(js)
        c = [0] * dim
        c[j] = r.choice([-2, -1, 1, 2, 3])
        if dim == 4 and sig[2] == "tau":
            c[3] = abs(c[j]) if j != 3 else abs(c[3])   # t >= |p|
        return c
    while True:
        c = [r.randint(-3, 3) for _ in range(min(dim, 3))]
        if dim >= 3 and sig[1] in ("theta", "eta") and c[0] == 0 and c[1] == 0 and c[2] != 0:
            continue                                    # on the z axis: theta = 0 / eta = inf are singular
        break
    if dim == 4:
        if sig[2] == "tau":                             # tau storage: t >= |p| (t is recovered as +sqrt(tau^2 + p^2))
            c.append(math.isqrt(sum(q * q for q in c) - 1) + 1 + r.randint(0, 2) if any(c) else r.randint(0, 2))
        else:
            c.append(r.randint(-3, 3))
    return c


def stored_of(sig, c):
    """stored floats under `sig` of the integer Cartesian components c"""
    x, y = float(c[0]), float(c[1])
    rho = math.hypot(x, y)
    out = [x, y] if sig[0] == "xy" else [rho, math.atan2(y, x)]
    if len(sig) >= 2:
        z = float(c[2])
        if sig[1] == "z":
            out.append(z)
        elif sig[1] == "theta":
            out.append(math.atan2(rho, z) if rho else 1.0)       # rho = 0 (then z = 0): z = 0 / tan(1.0) = 0
        else:
            out.append(math.asinh(z / rho) if rho else 0.0)
        if len(sig) == 3:
            t = float(c[3])
            out.append(t if sig[2] == "t" else math.sqrt(max(t * t - (x * x + y * y + z * z), 0.0)))
    return out


def is_cartesian(sig):
    return sig[0] == "xy" and all(s in ("z", "t") for s in sig[1:])


# ------------------------------------------------------------------------------------------------ rendering
def shp(shape):
    return "x".join(str(d) for d in shape) or "-"


def axis_token(ax):
    if ax == "default":
        return "default"
    if ax is None:
        return "None"
    if isinstance(ax, tuple):
        return "t:" + ",".join(str(i) for i in ax)
    return str(ax)


def layout_token(lay):
    if lay[0] == "f":
        return f"f{lay[1]}"
    cs = lambda l: ",".join(str(i) for i in l) or "-"   # noqa: E731
    if lay[0] == "j":
        return "j" + cs(lay[1])
    return "k" + cs(lay[1]) + "/" + cs(lay[2])


def layout_count(lay):
    return lay[1] if lay[0] == "f" else sum(lay[1]) if lay[0] == "j" else sum(lay[2])


class Req:
    __slots__ = ("be", "op", "fl", "sig", "form", "lay", "ax", "kd", "carts")

    def __init__(self, **kw):
        for k, v in kw.items():
            setattr(self, k, v)

    @property
    def dim(self):
        return len(self.sig) + 1

    def line(self):
        lay = shp(self.lay) if self.be == "np" else layout_token(self.lay)
        return " ".join([self.be, self.op, f"{self.fl}{self.dim}", self.form, lay, axis_token(self.ax), "1" if self.kd else "0"]
                        + [str(x) for c in self.carts for x in c])

    def python(self):
        a = "a" if self.be == "np" else "a"
        ax, kd = self.ax, self.kd
        f = self.form
        axs = "" if ax == "default" else repr(ax)
        if f in ("numpy.sum-kw", "numpy.sum-ak", "ak.sum-kw", "numpy.count_nonzero-kw", "ak.count_nonzero-kw", "ak.count-array", "ak.count-field", "method-kw"):
            fn = {"numpy.sum-ak": "numpy.sum", "method-kw": "a.sum", "ak.count-array": "ak.count", "ak.count-field": "ak.count"}.get(f, f[:-3])
            arg = [] if fn == "a.sum" else [a + (".<first field>" if f == "ak.count-field" else "")]
            return f"{fn}({', '.join(arg + (['axis=' + axs] if axs else []) + (['keepdims=True'] if kd else []))})"
        if f in ("numpy.sum-pos", "method-pos"):
            fn, arg = ("numpy.sum", [a]) if f == "numpy.sum-pos" else ("a.sum", [])
            if not axs:
                return f"{fn}({', '.join(arg + (['keepdims=True'] if kd else []))})"
            return f"{fn}({', '.join(arg + [axs] + (['None', 'None', 'True'] if kd else []))})"
        fn = f[:-4]
        return f"{fn}({', '.join([a] + ([axs] if axs else []) + (['keepdims=True'] if kd else []))})"

    def describe(self):
        lay = f"shape {tuple(self.lay)}" if self.be == "np" else f"layout {layout_token(self.lay)}"
        return (f"{self.python()} on a {'Momentum' if self.fl == 'm' else 'Vector'} {'NumPy' if self.be == 'np' else 'Awkward'} array stored as "
                f"{'-'.join(self.sig)}, {lay}, Cartesian components {self.carts}")


def build(req):
    rows = [stored_of(req.sig, c) for c in req.carts]
    if req.be == "np":
        return C.np_array(req.fl, req.sig, rows).reshape(req.lay)
    a = C.ak_array(req.fl, req.sig, rows)
    if req.lay[0] == "j":
        a = ak.unflatten(a, numpy.array(req.lay[1], dtype=numpy.int64))
    elif req.lay[0] == "k":
        a = ak.unflatten(ak.unflatten(a, numpy.array(req.lay[2], dtype=numpy.int64)), numpy.array(req.lay[1], dtype=numpy.int64))
    return a


def call(req, a):
    ax, kd, f = req.ax, req.kd, req.form
    kw = {} if ax == "default" else {"axis": ax}
    kdkw = {"keepdims": True} if kd else {}
    if f == "numpy.sum-kw":
        return numpy.sum(a, **kw, **kdkw)
    if f == "method-kw":
        return a.sum(**kw, **kdkw)
    if f in ("numpy.sum-pos", "method-pos"):
        fn = (lambda *p, **k: numpy.sum(a, *p, **k)) if f == "numpy.sum-pos" else a.sum
        if ax == "default":
            return fn(**kdkw)
        return fn(ax, None, None, True) if kd else fn(ax)
    if f == "numpy.count_nonzero-kw":
        return numpy.count_nonzero(a, **kw, **kdkw)
    if f == "numpy.count_nonzero-pos":
        return numpy.count_nonzero(a, **kdkw) if ax == "default" else numpy.count_nonzero(a, ax, **kdkw)
    if f == "ak.sum-kw":
        return ak.sum(a, **kw, **kdkw)
    if f == "ak.sum-pos":
        return ak.sum(a, **kdkw) if ax == "default" else ak.sum(a, ax, **kdkw)
    if f == "numpy.sum-ak":
        return numpy.sum(a, **kw, **kdkw)
    if f == "ak.count_nonzero-kw":
        return ak.count_nonzero(a, **kw, **kdkw)
    if f == "ak.count_nonzero-pos":
        return ak.count_nonzero(a, **kdkw) if ax == "default" else ak.count_nonzero(a, ax, **kdkw)
    if f == "ak.count-array":
        return ak.count(a, **kw, **kdkw)
    if f == "ak.count-field":
        return ak.count(a[ak.fields(a)[0]], **kw, **kdkw)
    raise AssertionError(f)


def num(x, tol):
    """an integer-valued result as the model prints it; anything else verbatim (never equal to a model answer)"""
    try:
        x = float(x)
    except Exception:  # noqa: BLE001
        return repr(x)
    if math.isfinite(x) and abs(x - round(x)) <= tol:
        return str(int(round(x)))
    return repr(x)


def nest(cols, tol):
    """zip nested lists of components into the driver's nested rendering"""
    first = cols[0]
    if isinstance(first, list):
        if any(not isinstance(c, list) or len(c) != len(first) for c in cols):
            return "<components of different structure: %r>" % (cols,)
        return "[" + ",".join(nest([c[i] for c in cols], tol) for i in range(len(first))) + "]"
    if first is None:
        return "None"
    return ":".join(num(c, tol) for c in cols)


def render(req, res, tol):
    comp = COMP[:req.dim]
    if req.op == "sum":
        if req.be == "np":
            if not isinstance(res, numpy.ndarray):
                return f"{type(res).__name__} <not an array> {res!r}"[:200]
            cols = [numpy.asarray(getattr(res, c_)) for c_ in comp]
            if any(c.shape != res.shape for c in cols):
                return f"{type(res).__name__} {shp(res.shape)} <component shapes {[c.shape for c in cols]}>"
            flat = [c.reshape(-1).tolist() for c in cols]
            return " ".join([type(res).__name__, shp(res.shape)] + [":".join(num(f[i], tol) for f in flat) for i in range(len(flat[0]))])
        if not isinstance(res, (ak.Array, ak.Record)):
            return f"{type(res).__name__} <not an Awkward array> {res!r}"[:200]
        return type(res).__name__ + " " + nest([ak.to_list(getattr(res, c_)) for c_ in comp], tol)
    if req.be == "np":
        if isinstance(res, numpy.ndarray):
            return " ".join([type(res).__name__, shp(res.shape)] + [num(x, 0) for x in res.reshape(-1).tolist()])
        return f"{type(res).__name__} - {num(res, 0)}"
    if isinstance(res, ak.Array):
        if ak.fields(res):
            return f"{type(res).__name__} <records> {ak.to_list(res)!r}"[:200]
        return type(res).__name__ + " " + nest([ak.to_list(res)], 0)
    return f"{type(res).__name__} {num(res, 0)}"


def real_answer(req):
    """(answer in the driver's format, exception text or None)"""
    try:
        a = build(req)
    except Exception as e:  # noqa: BLE001
        return f"<cannot build: {type(e).__name__}: {e}>"[:200], None
    try:
        res = call(req, a)
    except Exception as e:  # noqa: BLE001
        return "err " + type(e).__name__, str(e)[:120]
    scale = max([1.0] + [abs(float(x)) for c in req.carts for x in c]) * max(1, len(req.carts))
    tol = 0.0 if is_cartesian(req.sig) else 1e-9 * scale
    try:
        return render(req, res, tol), None
    except Exception as e:  # noqa: BLE001
        return f"<cannot read the result: {type(e).__name__}: {e}>"[:200], None


# ------------------------------------------------------------------------------------------------ requests
def np_axes(r, nd):
    axes = ["default", None] + list(range(-nd - 1, nd + 1))
    tuples = [()]
    for k in range(nd):
        tuples.append((k,))
        tuples.append((k - nd,))
    if nd >= 2:
        for i in range(nd):
            for j in range(nd):
                if i != j:
                    tuples.append((i, j - nd))
        tuples.append((0, 0))
        tuples.append((0, -nd))
        tuples.append((nd - 1, nd))
        tuples.append((1, 1, nd))
    if nd == 3:
        tuples += [(0, 1, 2), (2, 0, 1), (-1, -2, -3), (0, 1, 1)]
    if nd == 1:
        tuples += [(0, 0), (1,), (-2,)]
    if nd == 0:
        tuples += [(0,)]
    return axes + tuples


def requests(ctx):
    r = C.rng(ctx.seed, "reduce")
    full = ctx.tier != "quick"
    reqs = []

    def operand(n, sig):
        pz = r.choice([0.0, 0.3, 0.6])
        return [rand_cart(r, sig, r.random() < pz) for _ in range(n)]

    rounds = 3 if full else 1
    for _ in range(rounds):
        for shape in NP_SHAPES:
            n = int(numpy.prod(shape, dtype=int)) if shape else 1
            for ax in np_axes(r, len(shape)):
                for kd in (False, True):
                    for form in NP_SUM_FORMS:
                        sig = r.choice(C.ALLSIGS)
                        reqs.append(Req(be="np", op="sum", fl=r.choice("gm"), sig=sig, form=form, lay=shape, ax=ax, kd=kd, carts=operand(n, sig)))
                    for form in NP_CNZ_FORMS:
                        sig = r.choice(C.ALLSIGS)
                        reqs.append(Req(be="np", op="count_nonzero", fl=r.choice("gm"), sig=sig, form=form, lay=shape, ax=ax, kd=kd, carts=operand(n, sig)))
        lays = list(AK_LAYOUTS)
        for _k in range(6 if full else 3):                   # random layouts
            inner = [r.choice([0, 0, 1, 2, 3]) for _i in range(r.randint(1, 6))]
            lays.append(("j", inner))
            outer, left = [], len(inner)
            while left:
                o = r.randint(0, left)
                outer.append(o)
                left -= o
            if r.random() < 0.5:
                outer.insert(r.randint(0, len(outer)), 0)
            lays.append(("k", outer, inner))
        for lay in lays:
            depth = {"f": 1, "j": 2, "k": 3}[lay[0]]
            n = layout_count(lay)
            for ax in ["default", None] + list(range(-depth - 1, depth + 1)) + [(0,), (0, 1)]:
                for kd in (False, True):
                    # (an Awkward call costs ~5 ms: the quick tier draws ONE spelling per layout x axis x keepdims; the block below
                    # still runs every spelling on every coordinate system and flavor)
                    quick_pick = r.choice(AK_SUM_FORMS * 2 + AK_CNZ_FORMS + AK_CNT_FORMS)
                    for op, forms in (("sum", AK_SUM_FORMS), ("count_nonzero", AK_CNZ_FORMS), ("count", AK_CNT_FORMS)):
                        for form in (forms if full else [f_ for f_ in forms if f_ == quick_pick]):
                            sig = r.choice(C.ALLSIGS)
                            reqs.append(Req(be="ak", op=op, fl=r.choice("gm"), sig=sig, form=form, lay=lay, ax=ax, kd=kd, carts=operand(n, sig)))
    # every coordinate system x flavor x spelling at least once, on the shapes where the seeded defects lived
    for sig in C.ALLSIGS:
        for fl in "gm":
            for form in NP_SUM_FORMS + NP_CNZ_FORMS:
                shape = r.choice([(2, 3), (3, 1), (1, 4), (2, 1, 3)])
                ax = r.choice(np_axes(r, len(shape))[:2 + 2 * len(shape) + 2])
                n = int(numpy.prod(shape, dtype=int))
                reqs.append(Req(be="np", op="sum" if form in NP_SUM_FORMS else "count_nonzero", fl=fl, sig=sig, form=form, lay=shape, ax=ax,
                                kd=r.random() < 0.5, carts=operand(n, sig)))
            for op, forms in (("sum", AK_SUM_FORMS), ("count_nonzero", AK_CNZ_FORMS), ("count", AK_CNT_FORMS)):
                for form in forms:
                    lay = r.choice([("j", [2, 0, 3, 1]), ("k", [1, 0, 3], [2, 0, 3, 1]), ("f", 5)])
                    depth = {"f": 1, "j": 2, "k": 3}[lay[0]]
                    ax = r.choice(["default", None] + list(range(-depth, depth)))
                    reqs.append(Req(be="ak", op=op, fl=fl, sig=sig, form=form, lay=lay, ax=ax, kd=r.random() < 0.5, carts=operand(layout_count(lay), sig)))
    return reqs


def mismatch_kind(real, model):
    rt, mt = real.split(" "), model.split(" ")
    if rt[0] == "err" or mt[0] == "err":
        return "error"
    if rt[0] != mt[0]:
        return "class"
    if len(rt) > 1 and len(mt) > 1 and rt[0].endswith("D") and "Numpy" in rt[0] or rt[0] in ("ndarray", "int64") and len(rt) > 2:
        return "shape" if rt[1] != mt[1] else "values"
    strip = lambda s: "".join(ch for ch in s if ch in "[],")   # noqa: E731
    return "structure" if strip(real) != strip(model) else "values"


def run(ctx):
    reqs = requests(ctx)
    lines = [q.line() for q in reqs]
    got = leanio.run_driver("Reduce", lines, build=["VectorModel.Glue.Reduce"])
    stats = {"requests": len(reqs), "numpy": 0, "awkward": 0, "errors_agreed": 0, "by_op": {}, "by_form": {}, "systems": set(), "noncartesian": 0,
             "keepdims": 0, "tuple_axes": 0, "negative_axes": 0, "omitted_axis": 0, "size0_arrays": 0, "length_one_axes": 0, "empty_lists": 0}
    fails = {}
    for q, model in zip(reqs, got):
        real, etext = real_answer(q)
        stats["numpy" if q.be == "np" else "awkward"] += 1
        stats["by_op"][q.op] = stats["by_op"].get(q.op, 0) + 1
        stats["by_form"][q.form] = stats["by_form"].get(q.form, 0) + 1
        stats["systems"].add((q.fl,) + tuple(q.sig))
        stats["noncartesian"] += not is_cartesian(q.sig)
        stats["keepdims"] += bool(q.kd)
        stats["tuple_axes"] += isinstance(q.ax, tuple)
        stats["negative_axes"] += isinstance(q.ax, int) and q.ax < 0
        stats["omitted_axis"] += q.ax == "default"
        if q.be == "np":
            stats["size0_arrays"] += 0 in q.lay
            stats["length_one_axes"] += 1 in q.lay
        else:
            stats["empty_lists"] += q.lay[0] != "f" and (0 in q.lay[1] or (q.lay[0] == "k" and 0 in q.lay[2]))
        if real == model:
            stats["errors_agreed"] += real.startswith("err ")
            continue
        key = f"reduce:{q.be}:{q.op}:{q.form}:{mismatch_kind(real, model)}"
        fails.setdefault(key, []).append((len(q.carts), len(q.line()), q, real, model, etext))
    stats["systems"] = len(stats["systems"])
    problems = []
    for key in sorted(fails):
        lst = sorted(fails[key], key=lambda t: t[:2])
        _, _, q, real, model, etext = lst[0]                   # the minimal failing request of this kind
        problems.append((key, f"{q.describe()}: the library gives `{real}`{' (' + etext + ')' if etext else ''}, the axis model `{model}`; "
                              f"driver request `{q.line()}`; {len(lst)} request(s) of this kind disagree"))
    return problems, stats


if __name__ == "__main__":
    import sys
    import time

    class _Ctx:
        seed = int(sys.argv[1]) if len(sys.argv) > 1 else 1
        tier = sys.argv[2] if len(sys.argv) > 2 else "quick"
    t0 = time.time()
    p, s = run(_Ctx)
    for k, d in p:
        print(k, "::", d)
    print(len(p), "problems;", s, "; %.1f s" % (time.time() - t0))
