"""C08 — SymPy expressions agree with the numeric backends (on the regular domain: timelike, forward, off-axis)."""
from __future__ import annotations

import itertools

import numpy

from harness import common as C

PROPERTY = "C08"
import glob as _glob
import os as _os

LEAN_TARGETS = ["VectorModel.Gen.Sym.All", "VectorModel.Props.C08", "VectorModel.Props.MethodBackends"]
# property theorems: the hand/script-written ones and the congruence theorems the translator generates for the symbolic copy
THEOREM_FILES = ["VectorModel/Props/C08.lean", "VectorModel/Props/MethodBackends.lean"] + sorted(
    _os.path.relpath(f, _os.path.join(C.VERIF, "lean")) for f in _glob.glob(_os.path.join(C.VERIF, "lean", "VectorModel", "Gen", "Sym", "*.lean"))
    if not f.endswith("All.lean"))
NOT_COVERED = ["SymPy's own constructors and automatic simplification (Add, Pow, atan2, ...): trusted, sampled by .subs().evalf(40)",
               "operands outside the regular domain, where the symbolic backend documents that it drops clamps / NaN replacement / sign conventions"]

UNARY = {2: ["x", "y", "rho", "rho2", "phi"],
         3: ["x", "y", "rho", "phi", "z", "theta", "eta", "costheta", "cottheta", "mag", "mag2"],
         4: ["x", "y", "rho", "phi", "z", "theta", "eta", "mag", "t", "t2", "tau", "tau2", "beta", "gamma", "rapidity"]}
MOM4 = ["Et", "Et2", "Mt", "Mt2", "pt", "mass", "energy"]
UNARY_VEC = {2: [("rotateZ", ["0.7"]), ("scale", ["2.5"]), ("unit", []), ("to_Vector3D", []), ("to_Vector4D", []), ("to_Vector2D", []), ("to_xyz", []),
                 ("to_rhophietatau", [])],
             3: [("rotateZ", ["0.7"]), ("rotateX", ["-1.1"]), ("rotateY", ["2.9"]), ("scale", ["0.4"]), ("unit", []),
                 ("rotate_quaternion", ["0.5", "0.1", "-0.7", "0.5"]), ("to_xyz", []), ("to_rhophieta", []), ("to_rhophitheta", []),
                 ("to_Vector2D", []), ("to_Vector3D", []), ("to_Vector4D", []), ("to_xythetat", []), ("neg2D", [])],
             4: [("rotateZ", ["0.7"]), ("rotateX", ["-1.1"]), ("scale", ["1.7"]), ("unit", []), ("to_beta3", []), ("to_xyzt", []),
                 ("to_rhophietatau", []), ("to_xythetat", []), ("to_Vector3D", []), ("neg3D", []), ("to_Vector2D", []), ("to_Vector4D", []),
                 ("to_rhophi", []), ("neg2D", [])]}
BOOSTS = [("boostX", {"beta": "0.6"}), ("boostZ", {"beta": "-0.35"}), ("boostY", {"gamma": "1.8"})]
BINARY = {2: ["add", "subtract", "dot", "deltaphi"], 3: ["add", "subtract", "dot", "cross", "deltaangle", "deltaeta", "deltaR", "deltaR2"],
          4: ["add", "dot", "deltaR", "boost_p4", "deltaRapidityPhi"]}


def sympy_vec(fl, sig, idx, keywords=False):
    import sympy
    import vector.backends.sympy as VS
    names = C.signames(sig)
    syms = [sympy.Symbol(f"{n}{idx}", real=True) for n in names]
    if keywords:       # the user-facing path: keyword coordinates (momentum spellings for momentum vectors)
        cls = getattr(VS, ("Momentum" if fl == "m" else "Vector") + f"Sympy{len(sig) + 1}D")
        return cls(**{(C.MOMNAME[n] if fl == "m" else n): s_ for n, s_ in zip(names, syms)}), syms
    az = {"xy": VS.AzimuthalSympyXY, "rhophi": VS.AzimuthalSympyRhoPhi}[sig[0]](syms[0], syms[1])
    cls = getattr(VS, ("Momentum" if fl == "m" else "Vector") + f"Sympy{len(sig) + 1}D")
    if len(sig) == 1:
        return cls(azimuthal=az), syms
    lon = {"z": VS.LongitudinalSympyZ, "theta": VS.LongitudinalSympyTheta, "eta": VS.LongitudinalSympyEta}[sig[1]](syms[2])
    if len(sig) == 2:
        return cls(azimuthal=az, longitudinal=lon), syms
    tmp = {"t": VS.TemporalSympyT, "tau": VS.TemporalSympyTau}[sig[2]](syms[3])
    return cls(azimuthal=az, longitudinal=lon, temporal=tmp), syms


def sym_sig(v):
    n = {"AzimuthalSympyXY": "xy", "AzimuthalSympyRhoPhi": "rhophi", "LongitudinalSympyZ": "z", "LongitudinalSympyTheta": "theta",
         "LongitudinalSympyEta": "eta", "TemporalSympyT": "t", "TemporalSympyTau": "tau"}
    s = [n[type(v.azimuthal).__name__]]
    if hasattr(v, "longitudinal"):
        s.append(n[type(v.longitudinal).__name__])
    if hasattr(v, "temporal"):
        s.append(n[type(v.temporal).__name__])
    return tuple(s)


def evalf(expr, subs, mp):
    import sympy
    e = sympy.sympify(expr)
    val = e.subs(subs).evalf(40)
    if val.is_Boolean or isinstance(val, (bool, sympy.logic.boolalg.BooleanAtom)):
        return bool(val)
    if not val.is_real:            # complex / unevaluated: certainly not the (real) number the numeric backends return
        return NotReal(str(val)[:60])
    return mp.mpf(str(val))


class NotReal:
    def __init__(self, text):
        self.text = text


def compare(case, got_sym, got_num, subs, mp, problems, scale):
    import vector
    tol = mp.mpf("1e-11") * (1 + scale)
    if isinstance(got_num, vector.Vector):
        if not isinstance(got_sym, vector.Vector):
            problems.append((f"type:{case[0]}", f"{case}: sympy returns {type(got_sym).__name__}"))
            return
        if sym_sig(got_sym) != C.sig_of(got_num) or isinstance(got_sym, vector.Momentum) != isinstance(got_num, vector.Momentum):
            problems.append((f"type:{case[0]}", f"{case}: sympy result {type(got_sym).__name__} {sym_sig(got_sym)}, numeric {type(got_num).__name__} {C.sig_of(got_num)}"))
            return
        sc = list(got_sym.azimuthal.elements) + (list(got_sym.longitudinal.elements) if hasattr(got_sym, "longitudinal") else []) + \
            (list(got_sym.temporal.elements) if hasattr(got_sym, "temporal") else [])
        for j, (e, nv) in enumerate(zip(sc, C.stored(got_num))):
            v = evalf(e, subs, mp)
            if isinstance(v, NotReal):
                problems.append((f"value:{case[0]}", f"{case} coordinate {j}: the SymPy expression evaluates to the non-real {v.text}, numeric {str(nv)[:24]}; expr {str(e)[:100]}"))
                return
            if abs(v - nv) > tol * (1 + abs(nv)):
                problems.append((f"value:{case[0]}", f"{case} coordinate {j}: sympy {str(v)[:24]} numeric {str(nv)[:24]}; expr {str(e)[:100]}"))
                return
    else:
        v = evalf(got_sym, subs, mp)
        if isinstance(v, NotReal):
            problems.append((f"value:{case[0]}", f"{case}: the SymPy expression evaluates to the non-real {v.text}, numeric {str(got_num)[:24]}; expr {str(got_sym)[:120]}"))
            return
        if isinstance(v, bool) or isinstance(got_num, bool):
            if bool(v) != bool(got_num):
                problems.append((f"value:{case[0]}", f"{case}: sympy {v} numeric {got_num}"))
        elif abs(v - got_num) > tol * (1 + abs(got_num)):
            problems.append((f"value:{case[0]}", f"{case}: sympy {str(v)[:24]} numeric {str(got_num)[:24]}; expr {str(got_sym)[:120]}"))


def run(ctx):
    import sympy
    fam, mp = C.mpfam(50)
    r = C.rng(ctx.seed, "c08")
    problems, n, samples = [], 0, []
    for sig in C.ALLSIGS:
        for fl in "gm":
            n += 1
            try:
                sv, _ = sympy_vec(fl, sig, 9, keywords=True)
                if sym_sig(sv) != tuple(sig) or isinstance(sv, __import__("vector").Momentum) != (fl == "m"):
                    problems.append(("sympy-constructor", f"keyword construction of a {fl}:{sig} SymPy vector gives {type(sv).__name__} stored as {sym_sig(sv)}"))
            except Exception as e:  # noqa: BLE001
                problems.append(("sympy-constructor-raises", f"{fl}:{sig}: {type(e).__name__}: {str(e)[:80]}"))
    for dim in (2, 3, 4):
        sigs = C.SIGS[dim]          # every stored system in every tier (6 s)
        pts = [[repr(x) for x in p] for p in C.strata_points(dim, r, n_random=2)]
        pts = [p for p in pts if min(abs(float(x)) for x in p[:2]) > 0.05]     # regular domain: off the z axis
        for sig in sigs:
            fl = r.choice("gm")
            p = r.choice(pts)
            try:
                sv, syms = sympy_vec(fl, sig, 1, keywords=True)
            except Exception as e:  # noqa: BLE001
                problems.append(("sympy-constructor-raises", f"{fl}:{sig}: {type(e).__name__}: {str(e)[:80]}"))
                sv, syms = sympy_vec(fl, sig, 1)
            n += 1
            if sym_sig(sv) != tuple(sig) or isinstance(sv, __import__("vector").Momentum) != (fl == "m"):
                problems.append(("sympy-constructor", f"keyword construction of a {fl}:{sig} SymPy vector gives {type(sv).__name__} stored as {sym_sig(sv)}"))
                sv, syms = sympy_vec(fl, sig, 1)
            nv = C.from_cart(fam, fl, sig, [mp.mpf(x) for x in p], mp)
            subs = {s: sympy.Float(str(c), 50) for s, c in zip(syms, C.stored(nv))}
            scale = max(abs(mp.mpf(x)) for x in p)
            calls = [(m, [], {}) for m in UNARY[dim]] + [(m, a, {}) for m, a in UNARY_VEC[dim]]
            if dim == 4:
                calls += [(m, [], kw) for m, kw in BOOSTS] + ([(m, [], {}) for m in MOM4] if fl == "m" else [])
            for m, a, kw in calls:
                n += 1
                try:
                    sa = [sympy.Float(x, 50) for x in a]
                    skw = {k: sympy.Float(x, 50) for k, x in kw.items()}
                    at = getattr(sv, m)
                    gs = at(*sa, **skw) if callable(at) else at
                    an = getattr(nv, m)
                    gn = an(*[mp.mpf(x) for x in a], **{k: mp.mpf(x) for k, x in kw.items()}) if callable(an) else an
                except Exception as e:  # noqa: BLE001
                    problems.append((f"raises:{m}", f"{m} on {fl}:{sig}: {type(e).__name__}: {str(e)[:100]}"))
                    continue
                compare((m, fl, sig, p), gs, gn, subs, mp, problems, scale)
            sig2 = r.choice(C.SIGS[dim])
            p2 = r.choice([q for q in pts if q != p])     # a difference of identical vectors has no azimuth
            sw, syms2 = sympy_vec("g", sig2, 2)
            nw = C.from_cart(fam, "g", sig2, [mp.mpf(x) for x in p2], mp)
            subs2 = dict(subs)
            subs2.update({s: sympy.Float(str(c), 50) for s, c in zip(syms2, C.stored(nw))})
            for m in BINARY[dim]:
                n += 1
                try:
                    gs, gn = getattr(sv, m)(sw), getattr(nv, m)(nw)
                except Exception as e:  # noqa: BLE001
                    problems.append((f"raises:{m}", f"{m} on {fl}:{sig} x g:{sig2}: {type(e).__name__}: {str(e)[:100]}"))
                    continue
                compare((m, fl, sig, sig2, p, p2), gs, gn, subs2, mp, problems, scale)
            # operators and IN-PLACE operators of the SymPy backend (its own __array_ufunc__-free glue and _replace_data) against the
            # same operator on the numeric object backend; in-place forms run on fresh copies and the UPDATED OBJECT is compared
            ks, kn = sympy.Float("2.5", 50), mp.mpf("2.5")
            ops = [("v + w", lambda a, b, k: a + b, False), ("v - w", lambda a, b, k: a - b, False), ("v * k", lambda a, b, k: a * k, False),
                   ("k * v", lambda a, b, k: k * a, False), ("v / k", lambda a, b, k: a / k, False), ("-v", lambda a, b, k: -a, False),
                   ("+v", lambda a, b, k: +a, False), ("abs(v)", lambda a, b, k: abs(a), False), ("v ** 2", lambda a, b, k: a ** 2, False),
                   ("numpy.absolute(v)", lambda a, b, k: numpy.absolute(a), False), ("numpy.square(v)", lambda a, b, k: numpy.square(a), False),
                   ("numpy.sqrt(v)", lambda a, b, k: numpy.sqrt(a), False), ("numpy.cbrt(v)", lambda a, b, k: numpy.cbrt(a), False),
                   ("numpy.power(v, 3)", lambda a, b, k: numpy.power(a, 3), False), ("numpy.add(v, w)", lambda a, b, k: numpy.add(a, b), False),
                   ("numpy.subtract(v, w)", lambda a, b, k: numpy.subtract(a, b), False), ("numpy.multiply(v, k)", lambda a, b, k: numpy.multiply(a, k), False),
                   ("numpy.true_divide(v, k)", lambda a, b, k: numpy.true_divide(a, k), False), ("numpy.negative(v)", lambda a, b, k: numpy.negative(a), False),
                   ("numpy.matmul(v, w)", lambda a, b, k: numpy.matmul(a, b), False), ("v @ w", lambda a, b, k: a @ b, False),
                   # exact SymPy numbers of known (negative) sign as scale factors: the numeric twin gets the same number
                   ("v * Rational(-3, 2)", lambda a, b, k: a * (sympy.Rational(-3, 2) if type(a).__module__.endswith("sympy") else mp.mpf("-1.5")), False),
                   ("Integer(-2) * v", lambda a, b, k: (sympy.Integer(-2) if type(a).__module__.endswith("sympy") else mp.mpf("-2")) * a, False),
                   ("v / Float(-1.75)", lambda a, b, k: a / (sympy.Float("-1.75", 50) if type(a).__module__.endswith("sympy") else mp.mpf("-1.75")), False),
                   ("v.scale(-pi)", lambda a, b, k: a.scale(-sympy.pi if type(a).__module__.endswith("sympy") else -mp.pi), False),
                   ("v += w", lambda a, b, k: a.__iadd__(b), True), ("v -= w", lambda a, b, k: a.__isub__(b), True),
                   ("v *= k", lambda a, b, k: a.__imul__(k), True), ("v /= k", lambda a, b, k: a.__itruediv__(k), True)]
            for name, f, inplace in ops:
                if sig[-1] == "tau" and name in ("v - w", "v -= w", "-v", "numpy.subtract(v, w)", "numpy.negative(v)", "v * Rational(-3, 2)", "Integer(-2) * v", "v / Float(-1.75)", "v.scale(-pi)"):
                    continue            # exact result not representable with tau >= 0
                n += 1
                try:
                    sa, _ = sympy_vec(fl, sig, 1, keywords=True)
                    na = C.from_cart(fam, fl, sig, [mp.mpf(x) for x in p], mp)
                    gs, gn = f(sa, sw, ks), f(na, nw, kn)
                    if inplace:
                        if gs is not sa:
                            problems.append((f"inplace-identity:{name}", f"{name} on a SymPy {fl}:{sig} vector does not return the object itself"))
                        gs, gn = sa, na
                except Exception as e:  # noqa: BLE001
                    problems.append((f"raises:{name}", f"{name} on {fl}:{sig} x g:{sig2}: {type(e).__name__}: {str(e)[:100]}"))
                    continue
                compare((name, fl, sig, sig2, p, p2), gs, gn, subs2, mp, problems, scale)
            # HISTORIES: a result that passes stored coordinates of its operand through (rotateZ on 3D/4D, rotateX on 4D, ...) and an
            # in-place operator on either of the two afterwards - both vectors are compared with the numeric twins after every step
            if len(sig) >= 2 and sig[-1] != "tau":
                a_s, a_n = sympy.Float("0.25", 50), mp.mpf("0.25")
                firsts = [("rotateZ", lambda v, a: v.rotateZ(a))] + ([("rotateX", lambda v, a: v.rotateX(a)), ("rotateY", lambda v, a: v.rotateY(a))] if len(sig) == 3 else []) + \
                    [("to_Vector%dD" % (len(sig) + 1), lambda v, a: getattr(v, "to_Vector%dD" % (len(sig) + 1))()), ("unary +", lambda v, a: +v)]
                seconds = [("*= k", lambda x, o, k: x.__imul__(k)), ("/= k", lambda x, o, k: x.__itruediv__(k)), ("+= w", lambda x, o, k: x.__iadd__(o))]
                for f1name, f1 in firsts:
                    for f2name, f2 in seconds:
                        for target in ("result", "operand"):
                            if f1name in ("unary +",) or (f1name.startswith("to_Vector") and True):
                                # `+v` and to_Vector<own dimension>D return the operand ITSELF in the unchanged library: the alias is documented,
                                # an in-place operator on it is an in-place operator on the operand (C16 exempts it) - numeric twin behaves alike
                                pass
                            n += 1
                            try:
                                sv, _ = sympy_vec(fl, sig, 1, keywords=True)
                                nv = C.from_cart(fam, fl, sig, [mp.mpf(x) for x in p], mp)
                                sr, nr = f1(sv, a_s), f1(nv, a_n)
                                if target == "result":
                                    f2(sr, sw, ks), f2(nr, nw, kn)
                                else:
                                    f2(sv, sw, ks), f2(nv, nw, kn)
                            except Exception as e:  # noqa: BLE001
                                problems.append((f"raises:history:{f1name}", f"{f1name} then {f2name} on the {target} ({fl}:{sig}): {type(e).__name__}: {str(e)[:100]}"))
                                continue
                            compare((f"history:{f1name} then {f2name} on the {target}: OPERAND", fl, sig, sig2, p, p2), sv, nv, subs2, mp, problems, scale)
                            compare((f"history:{f1name} then {f2name} on the {target}: RESULT", fl, sig, sig2, p, p2), sr, nr, subs2, mp, problems, scale)
            if len(samples) < 3:
                samples.append({"sig": sig, "flavor": fl, "point": p, "example": f"{m}: {str(gs)[:120]}"})
    return problems, {"expressions_evaluated": n}, samples


def correspondence(ctx):
    problems, stats, samples = run(ctx)
    seen, fails = set(), []
    for k, d in problems:
        if k not in seen:
            seen.add(k)
            fails.append({"key": k, "what": d[:400], "code": replay_code(ctx.seed, ctx.tier, k)})
    stats["traces_validated_against_impl"] = stats["expressions_evaluated"]
    return {"ok": not problems, "disagreements": [f"{k}: {d}"[:300] for k, d in problems[:12]], "failing_inputs": fails[:6],
            "stats": stats, "samples": samples}


def replay_code(seed, tier, key):
    return ("import sys; sys.path.insert(0, %r); sys.path.insert(0, %r)\nfrom harness import c08\n"
            "class X: seed=%d; tier=%r\nproblems, _, _ = c08.run(X)\nhit=[d for k, d in problems if k==%r]\nassert not hit, hit[0]\n"
            % (C.VERIF, C.VERIF + "/tools", seed, tier, key))
