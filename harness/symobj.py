"""Exact symbolic correspondence on the object backend.

The REAL public API (methods, properties, conversions, operators of
`VectorObject*D` / `MomentumObject*D`) is run on tracer scalars (tools/tracer.py)
through a subclass family with `lib = TracerLib()`; each call yields the result
class, coordinate classes and one expression tree per stored coordinate.  The
Lean glue model (`Glue/Methods.lean` on top of the generated executable compute
layer at `Sym`) answers the same request lines; answers are compared as strings.
No floats, no tolerance.
"""
from __future__ import annotations

import itertools

import numpy

from harness import common as C
from harness import leanio
import tracer
from tracer import N, TracerLib, lift, show, var, fconst


class TLib(TracerLib):
    def __eq__(self, o):
        return isinstance(o, TLib)

    def __ne__(self, o):
        return not isinstance(o, TLib)

    __hash__ = None


TFAM = C.family(TLib(), "T")


def vtoken(fl, sig, idx):
    lon = sig[1] if len(sig) > 1 else "-"
    tmp = sig[2] if len(sig) > 2 else "-"
    return f"{fl}:{sig[0]}:{lon}:{tmp}:{idx}"


def mkvec(tok):
    fl, az, lon, tmp, idx = tok.split(":")
    sig = (az,) + ((lon,) if lon != "-" else ()) + ((tmp,) if tmp != "-" else ())
    return C.make(TFAM, fl, sig, [var(f"{n}{idx}") for n in C.signames(sig)])


def parse_scalar(tok):
    k, _, v = tok.partition("=")
    if k == "s":
        return var(v)
    if k == "i":
        return int(v)
    if k == "f":
        m, _, e = v.partition("e")
        return float(f"{m}e{e}")
    raise ValueError(tok)


def ftoken(x: float) -> str:
    return "f=" + fconst(x)[1:]


def parse_args(toks):
    args, kw = [], {}
    for t in toks:
        if t.startswith("v="):
            args.append(mkvec(t[2:]))
        elif t.startswith("o="):
            args.append(t[2:])
        elif t.startswith("k="):
            k, _, rest = t[2:].partition("=")
            kw[k] = parse_scalar(rest)
        else:
            args.append(parse_scalar(t))
    return args, kw


def describe(r):
    import vector
    if isinstance(r, vector.Vector):
        fl = "m" if type(r).__name__.lstrip("T").startswith("Momentum") else "g"
        sig = C.sig_of(r)
        lon = sig[1] if len(sig) > 1 else "-"
        tmp = sig[2] if len(sig) > 2 else "-"
        def show_coord(c):
            try:
                return show(c)
            except TypeError:      # a stored coordinate that is not a scalar at all (e.g. a vector slipped into a coordinate slot)
                return f"<<non-scalar coordinate: {type(c).__name__}>>"
        return f"-> {fl}{len(sig) + 1} {sig[0]} {lon} {tmp} :: " + " | ".join(show_coord(c) for c in C.stored(r))
    if isinstance(r, (bool, numpy.bool_)):
        return "-> " + ("bTrue" if r else "bFalse")
    return "-> " + show(r)


TRANSFORM_KEYS = {
    "transform2D": ["xx", "xy", "yx", "yy"],
    "transform3D": ["xx", "xy", "xz", "yx", "yy", "yz", "zx", "zy", "zz"],
    "transform4D": ["xx", "xy", "xz", "xt", "yx", "yy", "yz", "yt", "zx", "zy", "zz", "zt", "tx", "ty", "tz", "tt"],
}


def real_answer(line):
    kind, meth, selftok, *rest = line.split()
    v = mkvec(selftok)
    try:
        args, kw = parse_args(rest)
        if kind == "C":
            if meth in TRANSFORM_KEYS and hasattr(v, meth):
                keys = TRANSFORM_KEYS[meth]
                r = getattr(v, meth)(dict(zip(keys, args))) if len(args) == len(keys) else getattr(v, meth)(*args)
            else:
                a = getattr(v, meth)
                r = a(*args, **kw) if callable(a) else (a if not (args or kw) else _raise_type())
        else:
            o = args[0] if args else None
            r = {
                "add": lambda: v + o, "sub": lambda: v - o, "matmul": lambda: v @ o, "eq": lambda: v == o,
                "ne": lambda: v != o, "mul": lambda: v * o, "rmul": lambda: o * v, "truediv": lambda: v / o,
                "neg": lambda: -v, "pos": lambda: +v, "abs": lambda: abs(v), "pow": lambda: v ** o,
                "square": lambda: numpy.square(v), "sqrt": lambda: numpy.sqrt(v), "cbrt": lambda: numpy.cbrt(v),
            }[meth]()
        return describe(r)
    except Exception as e:  # noqa: BLE001
        return "!! " + type(e).__name__


def _raise_type():
    raise TypeError("property called with arguments")


# ------------------------------------------------------------------------------- request lattice
PROPS = ["x", "y", "rho", "rho2", "phi", "z", "theta", "eta", "costheta", "cottheta", "mag", "mag2",
         "t", "t2", "tau", "tau2", "beta", "gamma", "rapidity", "Et", "Et2", "Mt", "Mt2",
         "neg2D", "neg3D", "neg4D",
         "px", "py", "pt", "pt2", "pz", "pseudorapidity", "p", "p2", "E", "e", "energy", "E2", "e2", "energy2",
         "M", "m", "mass", "M2", "m2", "mass2", "et", "transverse_energy", "et2", "transverse_energy2",
         "mt", "transverse_mass", "mt2", "transverse_mass2"]
NULLARY = ["unit", "to_beta3", "is_timelike", "is_spacelike", "is_lightlike", "to_Vector2D", "to_Vector3D",
           "to_Vector4D", "to_2D", "to_3D", "to_4D"]
SCALAR_METHODS = [("rotateZ", ["s=a"]), ("rotateX", ["s=a"]), ("rotateY", ["s=a"]),
                  ("rotate_nautical", ["s=a", "s=b", "s=c"]), ("rotate_quaternion", ["s=u", "s=i", "s=j", "s=k"]),
                  ("scale", ["s=f"]), ("scale2D", ["s=f"]), ("scale3D", ["s=f"]), ("scale4D", ["s=f"]),
                  ("is_timelike", ["s=w"]), ("is_spacelike", ["s=w"]), ("is_lightlike", ["s=w"]),
                  ("boostX", ["k=beta=s=b"]), ("boostY", ["k=beta=s=b"]), ("boostZ", ["k=beta=s=b"]),
                  ("boostX", ["k=gamma=s=g"]), ("boostY", ["k=gamma=s=g"]), ("boostZ", ["k=gamma=s=g"]),
                  ("boostX", ["s=b"]), ("boostZ", []),
                  ("transform2D", [f"s=m{i}" for i in range(4)]), ("transform3D", [f"s=m{i}" for i in range(9)]),
                  ("transform4D", [f"s=m{i}" for i in range(16)])]
ORDERS = ["xzx", "xyx", "yxy", "yzy", "zyz", "zxz", "xzy", "xyz", "yxz", "yzx", "zyx", "zxy"]
BINARY = ["add", "subtract", "dot", "equal", "not_equal", "isclose", "is_parallel", "is_antiparallel",
          "is_perpendicular", "deltaphi", "deltaangle", "deltaeta", "deltaR", "deltaR2", "deltaRapidityPhi",
          "deltaRapidityPhi2", "cross", "boost_p4", "boost_beta3", "boost", "boostCM_of_p4", "boostCM_of_beta3",
          "boostCM_of", "like"]
BINOPS = ["add", "sub", "matmul", "eq", "ne"]
LONKW = ["z", "pz", "theta", "eta"]
TMPKW = ["t", "e", "E", "energy", "tau", "m", "M", "mass"]


def to_names():
    out = []
    for g, m in (("xy", "pxpy"), ("rhophi", "ptphi")):
        out += [(f"to_{g}", None, None), (f"to_{m}", None, None)]
        for lg, lm, kg, km in (("z", "pz", "z", "pz"), ("theta", "theta", "theta", "theta"), ("eta", "eta", "eta", "eta")):
            out += [(f"to_{g}{lg}", kg, None), (f"to_{m}{lm}", km, None)]
            for tg, tm, tkg, tkm in (("t", "energy", "t", "energy"), ("tau", "mass", "tau", "mass")):
                out += [(f"to_{g}{lg}{tg}", kg, tkg), (f"to_{m}{lm}{tm}", km, tkm)]
    return out


def lattice(r, tier):
    """all request lines of the object-backend lattice (binary pairings sampled in the quick tier)"""
    reqs = []
    selves = [(fl, s) for fl in "gm" for s in C.ALLSIGS]
    for fl, s in selves:
        me = vtoken(fl, s, 1)
        for p in PROPS + NULLARY:
            reqs.append(f"C {p} {me}")
        for m, a in SCALAR_METHODS:
            reqs.append(" ".join(["C", m, me] + a))
        for o in ORDERS:
            oo = o.upper() if (hash((fl, s, o)) % 3 == 0) else o
            reqs.append(f"C rotate_euler {me} s=a s=b s=c o={oo}")
        reqs.append(f"C rotate_euler {me} s=a s=b s=c")
        reqs.append(f"C rotate_euler {me} s=a s=b s=c o=abc")
        for name, kl, kt in to_names():
            reqs.append(f"C {name} {me}")
            if kl:
                reqs.append(f"C {name} {me} k={kl}=s=L")
            if kt:
                reqs.append(f"C {name} {me} k={kl}=s=L k={kt}=s=T")
                reqs.append(f"C {name} {me} k={kt}=s=T")
            reqs.append(f"C {name} {me} k=bogus=s=L")
        for d in ("to_Vector3D", "to_Vector4D", "to_3D", "to_4D", "to_Vector2D"):
            for k in LONKW:
                reqs.append(f"C {d} {me} k={k}=s=L")
            for k in TMPKW:
                reqs.append(f"C {d} {me} k={k}=s=T")
            reqs.append(f"C {d} {me} k=z=s=L k=t=s=T")
            reqs.append(f"C {d} {me} k=eta=s=L k=mass=s=T")
            reqs.append(f"C {d} {me} k=z=s=L k=eta=s=M")
            reqs.append(f"C {d} {me} k=t=s=T k=tau=s=U")
            reqs.append(f"C {d} {me} k=E=s=T k=e=s=U")
        for op, a in (("mul", ["s=f"]), ("rmul", ["s=f"]), ("truediv", ["s=f"]), ("neg", []), ("pos", []), ("abs", []),
                      ("pow", ["i=2"]), ("pow", ["i=3"]), ("pow", [ftoken(0.5)]), ("square", []), ("sqrt", []), ("cbrt", [])):
            reqs.append(" ".join(["O", op, me] + a))
    pairs = list(itertools.product(selves, selves))
    if False and tier == "quick":          # the complete pairing lattice (64 120 requests, 15 s) runs in every tier
        keep = [p for p in pairs if p[0][1] == p[1][1]] + r.sample(pairs, 260)
        pairs = keep
    for (f1, s1), (f2, s2) in pairs:
        me, ot = vtoken(f1, s1, 1), vtoken(f2, s2, 2)
        for m in BINARY:
            reqs.append(f"C {m} {me} v={ot}")
        reqs.append(f"C rotate_axis {me} v={ot} s=a")
        reqs.append(f"C is_parallel {me} v={ot} s=w")
        for op in BINOPS:
            reqs.append(f"O {op} {me} v={ot}")
    return reqs


def run(reqs):
    """-> (list of (request, real, model)) disagreements, stats"""
    real = [real_answer(q) for q in reqs]
    model = leanio.run_driver("GlueSym", reqs, build=["VectorModel.Gen.Exec.All", "VectorModel.Exec.Sym", "VectorModel.Glue.Methods"])
    bad = [(q, a, b) for q, a, b in zip(reqs, real, model) if a != b]
    kinds = {}
    for a in real:
        k = a.split()[1] if a.startswith("!!") else ("vector" if "::" in a else "scalar")
        kinds[k] = kinds.get(k, 0) + 1
    return bad, {"requests": len(reqs), "result_kinds": kinds}


if __name__ == "__main__":
    import sys
    r = C.rng(0, "symobj")
    reqs = lattice(r, sys.argv[1] if len(sys.argv) > 1 else "quick")
    bad, st = run(reqs)
    print(st, "disagreements", len(bad))
    seen = set()
    for q, a, b in bad:
        k = q.split()[1]
        if k in seen:
            continue
        seen.add(k)
        print(q, "\n   real ", a[:200], "\n   model", b[:200])


# ------------------------------------------------------------------------------- C15: histories, one step at a time
SETTABLE = ["x", "y", "rho", "phi", "z", "theta", "eta", "t", "tau", "px", "py", "pt", "pz", "E", "e", "energy",
            "M", "m", "mass"]
UNSETTABLE = ["mag", "pseudorapidity", "bogus", "Et", "p", "rho2", "costheta"]


def real_step(line):
    """'H <self> <step>' -> description of the object after the step ('!! Err' prefix when the step raised)"""
    _, selftok, step = line.split()
    v = mkvec(selftok)
    ident, cls = id(v), type(v)
    kind, name, arg = step.split("/", 2)
    err = None
    try:
        if kind == "set":
            setattr(v, name, parse_scalar(arg))
        else:
            a = mkvec(arg[2:]) if arg.startswith("v=") else parse_scalar(arg)
            if name == "add":
                v += a
            elif name == "sub":
                v -= a
            elif name == "mul":
                v *= a
            elif name == "truediv":
                v /= a
            else:
                raise ValueError(name)
    except Exception as e:  # noqa: BLE001
        err = type(e).__name__
    if id(v) != ident or type(v) is not cls:
        return "!! IdentityOrClassChanged " + describe(v)
    return (f"!! {err} " if err else "") + describe(v)


def type_token_of(desc, idx):
    """vector token (fresh symbols) of the state described by `desc`"""
    d = desc[desc.index("->"):].split("::")[0].split()
    return f"{d[1][0]}:{d[2]}:{d[3]}:{d[4]}:{idx}"


def histories(r, n, maxlen):
    """generate (and run on the real code) n histories; -> list of (request line, real answer)"""
    out = []
    for h in range(n):
        fl, sig = r.choice("gm"), r.choice(C.ALLSIGS)
        tok = vtoken(fl, sig, 1)
        for k in range(r.randint(2, maxlen)):
            u = r.random()
            dim = 2 + (tok.split(":")[2] != "-") + (tok.split(":")[3] != "-")
            if u < 0.5:
                step = f"set/{r.choice(SETTABLE)}/s=a{k}"
            elif u < 0.58:
                step = f"set/{r.choice(UNSETTABLE)}/s=a{k}"
            elif u < 0.8:
                osig = r.choice(C.SIGS[dim]) if r.random() < 0.85 else r.choice(C.ALLSIGS)
                step = f"iop/{r.choice(['add', 'sub'])}/v={vtoken(r.choice('gm'), osig, 2)}"
            elif u < 0.95:
                step = f"iop/{r.choice(['mul', 'truediv'])}/s=f{k}"
            else:
                step = f"iop/{r.choice(['mul', 'add'])}/" + (f"v={vtoken('g', r.choice(C.SIGS[dim]), 2)}" if r.random() < 0.5 else "s=q")
            line = f"H {tok} {step}"
            real = real_step(line)
            out.append((line, real))
            if "IdentityOrClassChanged" in real:
                break
            tok = type_token_of(real, 1)
    return out


def run_histories(pairs):
    model = leanio.run_driver("GlueSym", [q for q, _ in pairs],
                              build=["VectorModel.Gen.Exec.All", "VectorModel.Exec.Sym", "VectorModel.Glue.Methods"])
    return [(q, a, b) for (q, a), b in zip(pairs, model) if a != b]


def mkvec_float(tok):
    """real float64 object vector for a vector token (deterministic, well-conditioned, forward timelike values)"""
    fl, az, lon, tmp, idx = tok.split(":")
    sig = (az,) + ((lon,) if lon != "-" else ()) + ((tmp,) if tmp != "-" else ())
    k = int(idx)
    cart = [1.3 * k, -0.7 + 0.4 * k, 0.9 / k, 6.0 + k][: len(sig) + 1]
    return C.obj_vec(fl, sig, C.cart_to_stored(sig, cart))
