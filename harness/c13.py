"""C13 — ranges, sign conventions and classification predicates"""
from harness._compute import search_with, sym_correspondence

PROPERTY = "C13"
LEAN_TARGETS = ['VectorModel.Props.C13', 'VectorModel.Dom.LorentzAcc', 'VectorModel.Refine.LorentzSigned', 'VectorModel.Refine.LorentzSigned2', 'VectorModel.Props.CanonClosed']
# + regularity of the lorentz accessors (t from tau never NaN: dom_lorentz_t) and the signed-tau reading (tau < 0 iff spacelike, beta ranges)
THEOREM_FILES = ['VectorModel/Props/C13.lean', 'VectorModel/Dom/LorentzAcc.lean', 'VectorModel/Refine/LorentzSigned.lean', 'VectorModel/Refine/LorentzSigned2.lean', 'VectorModel/Props/CanonClosed.lean']
NOT_COVERED = ['singular strata where the answer comes out of nan_to_num replacement values (exercised on the real code by the law sweep only)']
ALWAYS_SEARCH = True          # the law sweep on the real code is cheap: run it in every tier (exploration, not proof)
search = search_with("c13")
correspondence = sym_correspondence(['is_parallel', 'is_antiparallel', 'is_perpendicular', 'is_timelike', 'is_spacelike', 'is_lightlike', 'phi', 'theta', 'deltaphi', 'deltaangle', 'costheta', 'cottheta', 'beta', 'gamma', 't', 'tau'], 'c13')
