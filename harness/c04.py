"""C04 — coordinate conversions and dimension changes lose nothing"""
from harness._compute import sym_correspondence
from harness import symobj

PROPERTY = "C04"
LEAN_TARGETS = ["VectorModel.Props.C04", "VectorModel.Refine.Planar", "VectorModel.Refine.SpatialAcc", "VectorModel.Refine.LorentzAcc"]
THEOREM_FILES = ["VectorModel/Props/C04.lean"]
NOT_COVERED = ["round trip to_S(to_T(v)) = v up to rounding: the real-number round-trip lemmas are the accessor refinements of "
               "Refine/SpatialAcc.lean and Refine/LorentzAcc.lean (counted under C01); float64 rounding is not modelled",
               "NumPy / Awkward backends: bit-for-bit retention is checked numerically by the C03 value lattice (to_* and to_VectorND calls)"]
METHODS = ['to_Vector2D', 'to_Vector3D', 'to_Vector4D', 'to_2D', 'to_3D', 'to_4D', 'like'] + [n for n, _, _ in symobj.to_names()]
correspondence = sym_correspondence(METHODS, "c04")
