"""C04 — coordinate conversions and dimension changes lose nothing"""
from harness._compute import sym_correspondence
from harness import symobj

PROPERTY = "C04"
LEAN_TARGETS = ["VectorModel.Props.C04", "VectorModel.Refine.Planar", "VectorModel.Refine.SpatialAcc", "VectorModel.Refine.LorentzAcc", "VectorModel.Props.MethodConv"]
THEOREM_FILES = ["VectorModel/Props/C04.lean", "VectorModel/Props/MethodConv.lean"]
NOT_COVERED = ["round trip to_S(to_T(v)) = v up to rounding: the real-number round-trip lemmas are the accessor refinements of "
               "Refine/SpatialAcc.lean and Refine/LorentzAcc.lean (counted under C01); float64 rounding is not modelled",
               "NumPy / Awkward internals (structured dtypes, ak.zip): the dimension-change lattice compares them with the object backend on float64/int64/float32 columns"]
METHODS = ['to_Vector2D', 'to_Vector3D', 'to_Vector4D', 'to_2D', 'to_3D', 'to_4D', 'like'] + [n for n, _, _ in symobj.to_names()]
_sym = sym_correspondence(METHODS, "c04")


def correspondence(ctx):
    """exact symbolic correspondence on the object backend + the dimension-change lattice on NumPy / Awkward arrays whose columns
    are float64, int64 or float32 (retained coordinates and imputed keyword values compared exactly with the object backend)"""
    from harness import backends
    from harness import common as C
    out = _sym(ctx)
    bad, st = backends.dimension_lattice(ctx)
    out["stats"].update(st)
    out["stats"]["traces_validated_against_impl"] = out["stats"].get("traces_validated_against_impl", 0) + st["dimension_elements"]
    seen = set()
    for a, b, k in bad:
        out["disagreements"].append(f"{a} :: {b}"[:300])
        if k not in seen:
            seen.add(k)
            out["failing_inputs"].append({"key": k, "what": f"{a}: {b}"[:400], "code": (
                "import sys; sys.path.insert(0, %r); sys.path.insert(0, %r)\nfrom harness import backends as Bk\n"
                "class X: seed=%d; tier=%r\nbad, _ = Bk.dimension_lattice(X)\nhit=[b for b in bad if b[2]==%r]\n"
                "assert not hit, hit[0][0] + ' :: ' + hit[0][1]\n" % (C.VERIF, C.VERIF + "/tools", ctx.seed, ctx.tier, k))})
    out["ok"] = out["ok"] and not bad
    # chains of conversions / re-embeddings with keywords on Awkward momentum arrays whose records carry raw momentum-spelled fields
    from harness import c14
    rb, rn = c14.raw_awkward_spellings("chain")
    out["stats"]["raw_awkward_chain_reads"] = rn
    for d in rb[:3]:
        out["disagreements"].append(d[:300])
        out["failing_inputs"].append({"key": "awkward-raw-chain:" + d.split(":")[1].strip()[:40], "what": d[:400],
                                      "code": c14.RAW_REPLAY.replace("raw_awkward_spellings()", "raw_awkward_spellings('chain')")})
    out["ok"] = out["ok"] and not rb
    return out
