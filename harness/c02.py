"""C02 — every operation computes its documented definition"""
from harness._compute import search_with, sym_correspondence

PROPERTY = "C02"
DOM_FILES = ['Basic', 'Planar', 'SpatialBin', 'SpatialRot', 'LorentzAcc', 'LorentzBin', 'LorentzBoost']
# regularity theorems (DESIGN.md 9.8): for every module and key, no partial primitive is applied at a singular point on the domain of
# the refinement theorem (dom_<module>), and the combined statement regular_<module> : hyps -> evalDom AND refinement conclusion
LEAN_TARGETS = ['VectorModel.Props.C02', 'VectorModel.Props.C10', 'VectorModel.Props.C09', 'VectorModel.Gen.Dom.All', 'VectorModel.Props.Regular'] + \
    ['VectorModel.Dom.' + f for f in DOM_FILES]
THEOREM_FILES = ['VectorModel/Props/C02.lean', 'VectorModel/Props/C10.lean', 'VectorModel/Props/C09.lean', 'VectorModel/Props/Regular.lean'] + \
    ['VectorModel/Dom/' + f + '.lean' for f in DOM_FILES]
NOT_COVERED = ['the float64 clause (within a small multiple of rounding error): sampled by the numeric correspondences of C03, not proved']
ALWAYS_SEARCH = True          # the law sweep on the real code is cheap: run it in every tier (exploration, not proof)
search = search_with("c02")
