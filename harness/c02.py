"""C02 — every operation computes its documented definition"""
from harness._compute import search_with, sym_correspondence

PROPERTY = "C02"
LEAN_TARGETS = ['VectorModel.Refine.Planar', 'VectorModel.Refine.SpatialAcc', 'VectorModel.Refine.SpatialBin', 'VectorModel.Refine.SpatialRot', 'VectorModel.Refine.LorentzAcc', 'VectorModel.Refine.LorentzBin', 'VectorModel.Props.C10', 'VectorModel.Props.C09']
THEOREM_FILES = ['VectorModel/Refine/Planar.lean', 'VectorModel/Refine/SpatialAcc.lean', 'VectorModel/Refine/SpatialBin.lean', 'VectorModel/Refine/SpatialRot.lean', 'VectorModel/Refine/LorentzAcc.lean', 'VectorModel/Refine/LorentzBin.lean', 'VectorModel/Props/C10.lean', 'VectorModel/Props/C09.lean']
NOT_COVERED = ['the float64 clause (within a small multiple of rounding error): sampled by the numeric correspondences of C03, not proved']
ALWAYS_SEARCH = True          # the law sweep on the real code is cheap: run it in every tier (exploration, not proof)
search = search_with("c02")
