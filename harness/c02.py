"""C02 — every operation computes its documented definition"""
from harness._compute import search_with, sym_correspondence

PROPERTY = "C02"
LEAN_TARGETS = ['VectorModel.Props.C02', 'VectorModel.Props.C10', 'VectorModel.Props.C09']
THEOREM_FILES = ['VectorModel/Props/C02.lean', 'VectorModel/Props/C10.lean', 'VectorModel/Props/C09.lean']
NOT_COVERED = ['the float64 clause (within a small multiple of rounding error): sampled by the numeric correspondences of C03, not proved']
ALWAYS_SEARCH = True          # the law sweep on the real code is cheap: run it in every tier (exploration, not proof)
search = search_with("c02")
