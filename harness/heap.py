"""C19 / C16 — heap correspondence: NumPy vector arrays (views, copies, pickles, reshapes, transposes, writes through aliases,
in-place arithmetic) against the Lean heap model.

Seeded random HISTORIES over 2-4 Python variables holding real `VectorNumpy*D` / `MomentumNumpy*D` arrays — shapes up to 3-d
(with length-one axes, 0-d views), dtypes whose fields come in ANY order with 0-2 extra (non-coordinate) fields — are executed
on the real library; the same histories go, one operation per line, through the Lean driver `Driver/Heap.lean` (model
`Glue/Heap.lean`).  After EVERY operation the whole real state — for each live variable its class, `dtype.names` IN ORDER, its
shape, the raw records (C order), the column under every name index that works, and which pairs of variables share memory — is
rendered in the driver's canonical dump format and compared line by line with the model's answer (as is the operation's own
answer: `ok`, the column, the element, the class and shape of an unbound array result, or the exception class).

    cd /verif && /venv/bin/python -c "from harness import heap
    class X: seed=1; tier='quick'
    print(heap.run(X))"
"""
from __future__ import annotations

import copy
import os
import pickle

import numpy

from harness import common as C
from harness import leanio

PROPERTY = "C19"
LEAN_TARGETS = ["VectorModel.Glue.Heap", "VectorModel.Props.C19Heap"]
THEOREM_FILES = ["VectorModel/Props/C19Heap.lean"]
NEEDS_TRANSLATOR = False
NOT_COVERED = ["non-float dtypes, boolean / integer-array indices on n-d arrays, general axis permutations (only .T), reshape with -1 / order='F', "
               "in-place arithmetic on non-Cartesian systems or with broadcasting, dtypes with two coordinate systems at once"]

VARS = ["a", "b", "c", "d"]
# spellings tried under every name index, per generic field, in the model's dump order
SPELL = {"x": ["x", "px"], "y": ["y", "py"], "rho": ["rho", "pt"], "phi": ["phi"], "z": ["z", "pz"], "theta": ["theta"], "eta": ["eta"],
         "t": ["t", "E", "e", "energy"], "tau": ["tau", "M", "m", "mass"]}
ALLNAMES = [n for f in SPELL for n in SPELL[f]]
EXTRAS = ["w", "q"]
KINDS = ["new", "slice", "mask", "fancy", "view", "copy", "deepcopy", "pickle", "reshape", "transpose", "sub", "int", "get", "set",
         "setslice", "setelems", "imul", "iadd", "isub", "del"]
WEIGHTS = {"new": 1, "slice": 6, "mask": 2, "fancy": 2, "view": 3, "copy": 2, "deepcopy": 2, "pickle": 2, "reshape": 6, "transpose": 4,
           "sub": 4, "int": 3, "get": 2, "set": 7, "setslice": 3, "setelems": 5, "imul": 4, "iadd": 2, "isub": 2, "del": 1}
CART = {"x", "y", "z", "t"}


# ------------------------------------------------------------------------------------------------ rendering
def num(x):
    x = float(x)
    return str(int(x)) if x == int(x) else repr(x)          # (-0.0, which arises from 0 * negative, is the model's 0)


def opt(x):
    return "_" if x is None else str(x)


def shp(shape):
    return "x".join(str(d) for d in shape) or "-"


def tup(idxs):
    return ",".join(str(i) for i in idxs) or "-"


def line_of(op):
    """the driver line of an abstract operation"""
    k = op[0]
    if k == "new":
        _, v, fl, fields, shape, rows = op
        return f"new {v} {fl} {','.join(fields)} {shp(shape)} " + " ".join(str(x) for r in rows for x in r)
    if k == "slice":
        return f"slice {op[1]} {op[2]} {opt(op[3])} {opt(op[4])} {opt(op[5])}"
    if k == "mask":
        return f"mask {op[1]} {op[2]} " + ("".join("1" if b else "0" for b in op[3]) or "-")
    if k == "fancy":
        return f"fancy {op[1]} {op[2]} " + (",".join(str(i) for i in op[3]) or "-")
    if k in ("view", "copy", "deepcopy", "pickle", "transpose", "iadd", "isub"):
        return f"{k} {op[1]} {op[2]}"
    if k == "reshape":
        return f"reshape {op[1]} {op[2]} {shp(op[3])}"
    if k == "sub":
        return f"sub {op[1]} {op[2]} {tup(op[3])} {1 if op[4] else 0}"
    if k == "int":
        return f"int {op[1]} {tup(op[2])}"
    if k == "get":
        return f"get {op[1]} {op[2]}"
    if k == "set":
        return f"set {op[1]} {op[2]} " + (",".join(str(x) for x in op[3]) or "-")
    if k == "setslice":
        return f"setslice {op[1]} {op[2]} {op[3]} {op[4]}"
    if k == "setelems":
        return f"setelems {op[1]} {opt(op[2])} {opt(op[3])} {op[4]} {opt(op[5])} {opt(op[6])}"
    if k == "imul":
        return f"imul {op[1]} {op[2]}"
    if k == "del":
        return f"del {op[1]}"
    raise ValueError(k)


def real_names(fl, fields):
    """dtype names handed to `vector.array`: momentum spellings of the coordinates for the momentum flavor"""
    return [C.MOMNAME.get(f, f) if fl == "m" else f for f in fields]


def python_of(op):
    """the Python statement an abstract operation stands for (for reports)"""
    k = op[0]
    sl = lambda a, b, c=None: f"{'' if a is None else a}:{'' if b is None else b}" + ("" if c is None else f":{c}")  # noqa: E731
    if k == "new":
        _, v, fl, fields, shape, rows = op
        return (f"{v} = vector.array({[tuple(float(x) for x in r) for r in rows]}, dtype={[(n, 'f8') for n in real_names(fl, fields)]})"
                + ("" if len(shape) == 1 else f".reshape({tuple(shape)})"))
    if k == "slice":
        return f"{op[2]} = {op[1]}[{sl(op[3], op[4], op[5])}]"
    if k == "mask":
        return f"{op[2]} = {op[1]}[numpy.array({[bool(b) for b in op[3]]})]"
    if k == "fancy":
        return f"{op[2]} = {op[1]}[{list(op[3])}]"
    if k == "view":
        return f"{op[2]} = {op[1]}.view(type({op[1]}))"
    if k == "copy":
        return f"{op[2]} = {op[1]}.copy()"
    if k == "deepcopy":
        return f"{op[2]} = copy.deepcopy({op[1]})"
    if k == "pickle":
        return f"{op[2]} = pickle.loads(pickle.dumps({op[1]}))"
    if k == "reshape":
        return f"{op[2]} = {op[1]}.reshape({tuple(op[3])})"
    if k == "transpose":
        return f"{op[2]} = {op[1]}.T"
    if k == "sub":
        return f"{op[2]} = {op[1]}[{', '.join([str(i) for i in op[3]] + (['...'] if op[4] else []))}]"
    if k == "int":
        return f"{op[1]}[{', '.join(str(i) for i in op[2]) or '()'}]"
    if k == "get":
        return f"{op[1]}[{op[2]!r}]"
    if k == "set":
        return f"{op[1]}[{op[2]!r}] = numpy.array({[float(x) for x in op[3]]})" + ("" if len(op[3]) == 1 else f".reshape({op[1]}.shape)")
    if k == "setslice":
        return f"{op[1]}[{op[2]}:{op[3]}] = {op[1]}[{op[4]}:{op[4] + (op[3] - op[2])}]"
    if k == "setelems":
        return f"{op[1]}[{sl(op[2], op[3])}] = {op[4]}[{sl(op[5], op[6])}]"
    if k == "imul":
        return f"{op[1]} *= {op[2]}"
    if k == "iadd":
        return f"{op[1]} += {op[2]}"
    if k == "isub":
        return f"{op[1]} -= {op[2]}"
    return f"del {op[1]}"


def shares(p, q):
    return bool(numpy.shares_memory(p.view(numpy.ndarray), q.view(numpy.ndarray)))


def dump_real(env):
    parts = []
    for name in sorted(env):
        arr = env[name]
        raw = arr.view(numpy.ndarray)
        names = list(arr.dtype.names)
        cols = []
        for f in names:
            for sp in SPELL.get(f, [f]):
                try:
                    cols.append(f"{sp}:" + ",".join(num(x) for x in numpy.asarray(arr[sp]).ravel().tolist()))
                except ValueError:
                    pass
        known = {sp for f in names for sp in SPELL.get(f, [f])}
        for sp in ALLNAMES:                      # a name that resolves to NO field of this array must not be indexable
            if sp not in known:
                try:
                    arr[sp]
                    cols.append(f"{sp}:UNEXPECTED")
                except ValueError:
                    pass
        parts.append(f"{name}={type(arr).__name__};{','.join(names)};{shp(arr.shape)};"
                     + "/".join(",".join(num(x) for x in rec) for rec in raw.ravel().tolist()) + ";" + " ".join(cols))
    live = sorted(env)
    pairs = [f"{p}~{q}" for i, p in enumerate(live) for q in live[i + 1:] if shares(env[p], env[q])]
    return " | ".join(parts) + " # " + " ".join(pairs)


def make_real(fl, fields, shape, rows):
    import vector
    dt = [(n, numpy.float64) for n in real_names(fl, fields)]
    arr = vector.array([tuple(float(x) for x in r) for r in rows], dtype=dt)
    return arr if tuple(shape) == (len(rows),) else arr.reshape(tuple(shape))


def exec_real(env, op):
    """run one abstract operation on the real arrays in `env`; the answer in the driver's format"""
    k = op[0]
    try:
        if k == "new":
            _, v, fl, fields, shape, rows = op
            env[v] = make_real(fl, fields, shape, rows)
            return "ok"
        src = op[1]
        if src not in env:
            return "err NameError"
        v = env[src]
        if k == "slice":
            env[op[2]] = v[op[3]:op[4]:op[5]]
        elif k == "mask":
            env[op[2]] = v[numpy.array(op[3], dtype=bool)]
        elif k == "fancy":
            env[op[2]] = v[numpy.array(op[3], dtype=numpy.intp)] if len(op[3]) != 1 else v[list(op[3])]
        elif k == "view":
            env[op[2]] = v.view(type(v))
        elif k == "copy":
            env[op[2]] = v.copy()
        elif k == "deepcopy":
            env[op[2]] = copy.deepcopy(v)
        elif k == "pickle":
            env[op[2]] = pickle.loads(pickle.dumps(v))
        elif k == "reshape":
            env[op[2]] = v.reshape(tuple(op[3]))
        elif k == "transpose":
            env[op[2]] = v.T
        elif k == "sub":
            res = v[tuple(op[3]) + ((Ellipsis,) if op[4] else ())]
            if not isinstance(res, numpy.ndarray):
                return "err NOT-AN-ARRAY " + type(res).__name__
            env[op[2]] = res
        elif k == "int":
            e = v[tuple(op[2])]
            if isinstance(e, numpy.ndarray):
                return f"arr {type(e).__name__} {shp(e.shape)}"
            return f"elem {type(e).__name__} {','.join(C.signames(C.sig_of(e)))} {','.join(num(x) for x in C.stored(e))}"
        elif k == "get":
            return "vals " + ",".join(num(x) for x in numpy.asarray(v[op[2]]).ravel().tolist())
        elif k == "set":
            rhs = numpy.array([float(x) for x in op[3]], dtype=numpy.float64)
            v[op[2]] = rhs if len(op[3]) == 1 else rhs.reshape(v.shape)
        elif k == "setslice":
            lo, hi, s = op[2], op[3], op[4]
            v[lo:hi] = v[s:s + (hi - lo)]
        elif k == "setelems":
            if op[4] not in env:
                return "err NameError"
            v[op[2]:op[3]] = env[op[4]][op[5]:op[6]]
        elif k == "imul":
            v *= op[2]                           # (rebinds the local `v` to what `__imul__` returns, as the statement does)
            env[src] = v
        elif k in ("iadd", "isub"):
            if op[2] not in env:
                return "err NameError"
            if k == "iadd":
                v += env[op[2]]
            else:
                v -= env[op[2]]
            env[src] = v
        elif k == "del":
            del env[src]
        return "ok"
    except Exception as ex:  # noqa: BLE001
        return "err " + type(ex).__name__


def replay_real(ops):
    """expected driver answers of `reset`, then every op followed by `dump`"""
    env, out = {}, ["ok"]
    for op in ops:
        out.append(exec_real(env, op))
        out.append(dump_real(env))
    return out


def lines_of(ops):
    out = ["reset"]
    for op in ops:
        out += [line_of(op), "dump"]
    return out


# ------------------------------------------------------------------------------------------------ generation
def shapes_of(n):
    """shapes with up to three axes (length-one axes included) and `n` elements"""
    out = [(n,), (n,), (1, n), (n, 1), (1, n, 1)]
    for p in range(2, n):
        if n % p == 0:
            out += [(p, n // p), (p, n // p), (p, 1, n // p), (1, p, n // p)]
            for q in range(2, n // p):
                if (n // p) % q == 0:
                    out.append((p, q, n // p // q))
    return out


def cart(arr):
    return {f for f in arr.dtype.names if f in SPELL} <= CART


class Gen:
    def __init__(self, r):
        self.r = r
        self.fresh = 100

    def vals(self, n):
        out = list(range(self.fresh, self.fresh + n))
        self.fresh += max(n, 1)
        return out

    def new(self, v, types, flat=False):
        r = self.r
        fl, fields = r.choice(types)
        n = r.choice([0, 1, 2, 3, 4, 4, 5, 6, 6, 8, 8, 12])
        shape = (n,) if flat or r.random() < 0.45 else r.choice(shapes_of(n))
        rows = [self.vals(len(fields) + 1)[:len(fields)] for _ in range(n)]
        return ("new", v, fl, fields, shape, rows)

    def bound(self, n):
        """a slice bound around 0..n, sometimes negative, sometimes None, sometimes far out"""
        r = self.r
        c = r.random()
        if c < 0.2:
            return None
        if c < 0.85:
            return r.randint(0, n)
        if c < 0.95:
            return -r.randint(1, n + 1)
        return r.choice([n + 2, -n - 3])

    def index(self, d, bad=False):
        r = self.r
        if bad or d == 0:
            return r.choice([d, -d - 1, d + 1])
        return r.randint(-d, d - 1)

    def op(self, env, types):
        """one operation, mostly valid for the real state `env`"""
        r = self.r
        live = sorted(env)
        if not live:
            return self.new(r.choice(VARS[:2]), types)
        bad = r.random() < 0.08
        v = r.choices(live, weights=[env[q].size + 0.3 for q in live])[0] if not (bad and r.random() < 0.15) else r.choice(VARS)
        w = r.choice(VARS)
        shape = env[v].shape if v in env else (3,)
        size = env[v].size if v in env else 3
        nd = len(shape)
        n = shape[0] if nd else 0
        names = list(env[v].dtype.names) if v in env else ["x", "y"]
        mom = v in env and type(env[v]).__name__.startswith("Momentum")
        kinds = [k for k in KINDS if not (k == "del" and len(live) < 2)]
        if nd != 1:
            kinds = [k for k in kinds if k not in ("mask", "fancy")]
        if nd == 0 and not bad:
            kinds = [k for k in kinds if k not in ("slice", "setslice", "setelems")]
        if not (v in env and cart(env[v])):
            kinds = [k for k in kinds if k not in ("imul", "iadd", "isub")]
        k = r.choices(kinds, weights=[WEIGHTS[x] for x in kinds])[0]
        if k == "new":
            return self.new(w, types)
        if k == "slice":
            stp = r.choice([None, None, 1, 1, 2, 2, 3, -1, -1, -2]) if not bad else r.choice([0, -3, 5])
            return ("slice", v, w, self.bound(n), self.bound(n), stp)
        if k == "mask":
            m = n if not bad else n + r.choice([-1, 1])
            return ("mask", v, w, [r.random() < 0.6 for _ in range(max(m, 0))])
        if k == "fancy":
            cnt = r.randint(0, 4)
            lim = n + 2 if bad else n
            if lim == 0:
                return ("fancy", v, w, [])
            return ("fancy", v, w, [r.randint(-lim, lim - 1) for _ in range(cnt)])
        if k in ("view", "copy", "deepcopy", "pickle", "transpose"):
            return (k, v, w)
        if k == "reshape":
            cands = shapes_of(size) + ([()] * 3 if size == 1 else [])
            dims = r.choice(cands) if nd < 2 or r.random() < 0.6 else (size,)      # flattening a transposed / sliced n-d view must COPY
            if bad:
                dims = tuple(dims) + (2,)
            return ("reshape", v, w, tuple(dims))
        if k == "sub":
            if nd == 0:
                return ("sub", v, w, (), True) if not bad else ("sub", v, w, (0,), True)
            cnt = r.randint(0, nd - 1) if r.random() < 0.6 else nd
            idxs = tuple(self.index(shape[j], bad and j == cnt - 1) for j in range(cnt))
            return ("sub", v, w, idxs, True if cnt == nd else r.random() < 0.5)
        if k == "int":
            cnt = nd if r.random() < 0.75 else r.randint(0, nd)
            if bad and r.random() < 0.3:
                cnt = nd + 1
            return ("int", v, tuple(self.index(shape[j] if j < nd else 1, bad and j == cnt - 1) for j in range(cnt)))
        if k in ("get", "set"):
            f = r.choice(names)
            sp = r.choice(SPELL.get(f, [f]) if mom else [f]) if not bad else r.choice(ALLNAMES + EXTRAS)
            if k == "get":
                return ("get", v, sp)
            m = size if not bad else r.choice([size + 1, max(size - 1, 0), 1, 0])
            if r.random() < 0.1:
                m = 1
            return ("set", v, sp, self.vals(m))
        if k == "setslice":
            if n < 2 or bad:
                return ("setslice", v, r.randint(-1, n), r.randint(0, n + 1), r.randint(-1, n))
            ln = r.randint(1, max(1, n // 2))
            lo = r.randint(0, n - ln)
            s = r.randint(0, n - ln)
            return ("setslice", v, lo, lo + ln, s)
        if k == "setelems":
            same = [q for q in live if env[q].shape[1:] == shape[1:] and env[q].ndim]
            pool = same if same and r.random() < 0.8 else live
            u = r.choices(pool, weights=[env[q].size + 0.3 for q in pool])[0]
            m = env[u].shape[0] if env[u].ndim else 0
            if bad or n == 0 or m == 0:
                return ("setelems", v, self.bound(n), self.bound(n), u, self.bound(m), self.bound(m))
            ln = r.randint(1, min(n, m))
            lo = r.randint(0, n - ln)
            if r.random() < 0.15:
                s = r.randrange(m)
                return ("setelems", v, lo, lo + ln, u, s, s + 1)                       # broadcast of one element
            s = r.randint(0, m - ln)
            return ("setelems", v, lo if lo or r.random() < 0.5 else None, lo + ln if lo + ln < n or r.random() < 0.5 else None,
                    u, s if s or r.random() < 0.5 else None, s + ln)
        if k == "imul":
            return ("imul", v, r.choice([-3, -2, -1, 2, 3]))
        if k in ("iadd", "isub"):
            def coords(q):
                return {f for f in env[q].dtype.names if f in SPELL}
            pool = [q for q in live if env[q].shape == shape and coords(q) == coords(v)]        # v itself qualifies
            return (k, v, r.choice(pool))
        return ("del", v)


def vtype(r):
    """flavor + dtype field list: a coordinate system (Cartesian ones favoured: in-place arithmetic), in canonical or shuffled order,
    with 0-2 extra fields anywhere"""
    fl = r.choice("gm")
    sig = r.choice(C.ALLSIGS) if r.random() < 0.6 else r.choice([("xy",), ("xy", "z"), ("xy", "z", "t")])
    fields = list(C.signames(sig))
    if r.random() < 0.5:
        r.shuffle(fields)
    c = r.random()
    for e in EXTRAS[:0 if c < 0.6 else 1 if c < 0.85 else 2]:
        fields.insert(r.randint(0, len(fields)), e)
    return fl, fields


def history(r, length):
    g = Gen(r)
    fl, fields = vtype(r)
    types = [(fl, fields)] * 5                                 # mostly one vector type per history …
    c = r.random()
    if c < 0.25:                                               # … sometimes the same coordinates in another flavor / field order / with other extras
        fl2, f2 = r.choice("gm"), [f for f in fields if f in SPELL]
        r.shuffle(f2)
        types.append((fl2, f2 + EXTRAS[:r.choice([0, 0, 1])]))
    elif c < 0.45:                                             # … or another system / dimension (cross-type assignment)
        types.append(vtype(r))
    env, ops = {}, []
    first = g.new("a", types[:1])
    while len(first[5]) < 3:
        first = g.new("a", types[:1])
    ops.append(first)
    exec_real(env, first)
    if r.random() < 0.3:
        second = g.new("b", types)
        ops.append(second)
        exec_real(env, second)
    while len(ops) < length:
        op = g.op(env, types)
        ops.append(op)
        exec_real(env, op)
    return ops


# ------------------------------------------------------------------------------------------------ comparison
def first_mismatch(expected, got):
    for i, (e, g) in enumerate(zip(expected, got)):
        if e != g:
            return i
    return None


def run_driver(lines):
    alt = os.environ.get("VERIF_HEAP_DRIVER")                  # development: a stand-alone driver file instead of the package's
    if alt:
        import subprocess
        p = subprocess.run(["lake", "env", "lean", "--run", alt], cwd=leanio.LEANDIR, input="\n".join(lines) + "\n", capture_output=True,
                           text=True, timeout=900)
        out = p.stdout.splitlines()
        if p.returncode != 0 or len(out) != len(lines):
            raise RuntimeError(f"driver {alt}: {len(lines)} requests, {len(out)} answers; " + p.stderr[-500:])
        return out
    return leanio.run_driver("Heap", lines, build=["VectorModel.Glue.Heap"])


def check(histories):
    """[(index of the first mismatching line | None, expected, got)] for every history, ONE driver invocation"""
    lines, spans, exp = [], [], []
    for ops in histories:
        ls = lines_of(ops)
        spans.append((len(lines), len(lines) + len(ls)))
        lines += ls
        exp.append(replay_real(ops))
    if not lines:
        return []
    got = run_driver(lines)
    out = []
    for (lo, hi), e in zip(spans, exp):
        g = got[lo:hi]
        out.append((first_mismatch(e, g), e, g))
    return out


def shrink(ops, rounds=6):
    """minimal failing history: cut after the first mismatch, then drop single operations while it keeps failing"""
    (i, _, _), = check([ops])
    if i is None:
        return ops
    ops = ops[:max(1, i + 1) // 2] if i > 0 else ops[:1]
    for _ in range(rounds):
        cands = [ops[:j] + ops[j + 1:] for j in range(len(ops) - 1)]            # keep the last (failing) operation
        if not cands:
            break
        res = check(cands)
        better = None
        for cand, (ci, _, _) in zip(cands, res):
            if ci is not None:
                cut = cand[:max(1, ci + 1) // 2]
                if better is None or len(cut) < len(better):
                    better = cut
        if better is None or len(better) >= len(ops):
            break
        ops = better
    return ops


def run(ctx):
    r = C.rng(ctx.seed, "heap")
    n_hist = 150 if ctx.tier == "quick" else 1500
    hists = [history(r, r.randint(6, 14)) for _ in range(n_hist)]
    stats = {"histories": n_hist, "steps": sum(len(h) for h in hists), "ops": {k: 0 for k in KINDS}, "op_errors": 0,
             "max_live_variables": 0, "alias_pairs": 0, "writes_through_alias": 0, "lines_compared": 0,
             "arrays_nd": 0, "arrays_0d": 0, "dtypes_permuted": 0, "dtypes_with_extras": 0, "reshape_views": 0, "reshape_copies": 0}
    for h in hists:                                            # statistics from a replay of the real side
        env = {}
        for op in h:
            stats["ops"][op[0]] += 1
            before = op[0] in ("set", "setslice", "setelems", "imul", "iadd", "isub") and op[1] in env and \
                sum(1 for q in env if q != op[1] and shares(env[q], env[op[1]]))
            ans = exec_real(env, op)
            stats["op_errors"] += ans.startswith("err")
            stats["writes_through_alias"] += 1 if before else 0
            stats["max_live_variables"] = max(stats["max_live_variables"], len(env))
            live = sorted(env)
            stats["alias_pairs"] += sum(1 for i, p in enumerate(live) for q in live[i + 1:] if shares(env[p], env[q]))
            if ans == "ok" and op[0] not in ("set", "setslice", "setelems", "del") and (op[2] if op[0] not in ("new", "imul", "iadd", "isub") else op[1]) in env:
                arr = env[op[2] if op[0] not in ("new", "imul", "iadd", "isub") else op[1]]
                stats["arrays_nd"] += arr.ndim > 1
                stats["arrays_0d"] += arr.ndim == 0
                coords = [f for f in arr.dtype.names if f in SPELL]
                stats["dtypes_permuted"] += coords != [f for f in SPELL if f in coords]
                stats["dtypes_with_extras"] += len(coords) != len(arr.dtype.names)
                if op[0] == "reshape" and arr.size:
                    stats["reshape_views" if shares(arr, env[op[1]]) or op[1] == op[2] else "reshape_copies"] += 1
    problems = []
    results = check(hists)
    stats["lines_compared"] = sum(len(e) for _, e, _ in results)
    seen = {}
    for ops, (i, exp, got) in zip(hists, results):
        if i is None:
            continue
        op = ops[(i - 1) // 2]
        what = "answer" if i % 2 == 1 else "state"
        key = f"heap:{op[0]}:{what}"
        seen[key] = seen.get(key, 0) + 1
        if seen[key] > 2 or len(problems) >= 12:
            continue
        small = shrink(ops)
        (j, e2, g2), = check([small])
        if j is None:                                          # cannot happen: shrink keeps a failing history
            small, j, e2, g2 = ops, i, exp, got
        problems.append((key, f"history {[python_of(o) for o in small]} (driver lines {lines_of(small)[1::2]}): after "
                              f"{'the operation' if j % 2 == 1 else 'the dump following it'} the real library gives {e2[j]!r}, the heap model {g2[j]!r}"))
    for key, cnt in seen.items():
        if cnt > 2:
            problems.append((key + ":more", f"{cnt - 2} further histories fail with the same key"))
    return problems, stats


if __name__ == "__main__":
    import sys

    class _Ctx:
        seed = int(sys.argv[1]) if len(sys.argv) > 1 else 1
        tier = sys.argv[2] if len(sys.argv) > 2 else "quick"
    p, s = run(_Ctx)
    for k, d in p:
        print(k, "::", d)
    print(len(p), "problems;", s)
