"""C19 / C16 — heap correspondence: NumPy vector arrays (views, copies, pickles, writes through aliases) against the Lean heap model.

Seeded random HISTORIES over 2-4 Python variables holding real `VectorNumpy*D` / `MomentumNumpy*D` arrays are executed on the real
library; the same histories go, one operation per line, through the Lean driver `Driver/Heap.lean` (model `Glue/Heap.lean`).  After
EVERY operation the whole real state — for each live variable its class, `dtype.names`, the raw records, the column under every
name index that works, and which pairs of variables share memory — is rendered in the driver's canonical dump format and compared
line by line with the model's answer (as is the operation's own answer: `ok`, the column, the element, or the exception class).

    cd /verif && /venv/bin/python -c "from harness import heap
    class X: seed=1; tier='quick'
    print(heap.run(X))"
"""
from __future__ import annotations

import copy
import pickle

import numpy

from harness import common as C
from harness import leanio

PROPERTY = "C19"
LEAN_TARGETS = ["VectorModel.Glue.Heap", "VectorModel.Props.C19Heap"]
THEOREM_FILES = ["VectorModel/Props/C19Heap.lean"]
NEEDS_TRANSLATOR = False
NOT_COVERED = ["in-place arithmetic (v *= k), n-dimensional shapes, reshape / transpose, non-float dtypes, extra (non-coordinate) fields"]

VARS = ["a", "b", "c", "d"]
# spellings tried under every name index, per generic field, in the model's dump order
SPELL = {"x": ["x", "px"], "y": ["y", "py"], "rho": ["rho", "pt"], "phi": ["phi"], "z": ["z", "pz"], "theta": ["theta"], "eta": ["eta"],
         "t": ["t", "E", "e", "energy"], "tau": ["tau", "M", "m", "mass"]}
ALLNAMES = [n for f in SPELL for n in SPELL[f]]
KINDS = ["new", "slice", "mask", "fancy", "view", "copy", "deepcopy", "pickle", "int", "get", "set", "setslice", "setelems", "del"]
WEIGHTS = {"new": 1, "slice": 6, "mask": 2, "fancy": 2, "view": 4, "copy": 2, "deepcopy": 1, "pickle": 2, "int": 2, "get": 3, "set": 8,
           "setslice": 4, "setelems": 6, "del": 1}


# ------------------------------------------------------------------------------------------------ rendering
def num(x):
    x = float(x)
    return str(int(x)) if x == int(x) and not (x == 0 and str(x).startswith("-")) else repr(x)


def opt(x):
    return "_" if x is None else str(x)


def line_of(op):
    """the driver line of an abstract operation"""
    k = op[0]
    if k == "new":
        _, v, fl, sig, rows = op
        return f"new {v} {fl} {','.join(C.signames(sig))} {len(rows)} " + " ".join(str(x) for r in rows for x in r)
    if k == "slice":
        return f"slice {op[1]} {op[2]} {opt(op[3])} {opt(op[4])} {opt(op[5])}"
    if k == "mask":
        return f"mask {op[1]} {op[2]} " + ("".join("1" if b else "0" for b in op[3]) or "-")
    if k == "fancy":
        return f"fancy {op[1]} {op[2]} " + (",".join(str(i) for i in op[3]) or "-")
    if k in ("view", "copy", "deepcopy", "pickle"):
        return f"{k} {op[1]} {op[2]}"
    if k == "int":
        return f"int {op[1]} {op[2]}"
    if k == "get":
        return f"get {op[1]} {op[2]}"
    if k == "set":
        return f"set {op[1]} {op[2]} " + (",".join(str(x) for x in op[3]) or "-")
    if k == "setslice":
        return f"setslice {op[1]} {op[2]} {op[3]} {op[4]}"
    if k == "setelems":
        return f"setelems {op[1]} {opt(op[2])} {opt(op[3])} {op[4]} {opt(op[5])} {opt(op[6])}"
    if k == "del":
        return f"del {op[1]}"
    raise ValueError(k)


def python_of(op):
    """the Python statement an abstract operation stands for (for reports)"""
    k = op[0]
    sl = lambda a, b, c=None: f"{'' if a is None else a}:{'' if b is None else b}" + ("" if c is None else f":{c}")  # noqa: E731
    if k == "new":
        return f"{op[1]} = vector.array({{{', '.join(repr(n) + ': ' + str([float(r[j]) for r in op[4]]) for j, n in enumerate(C.field_names(op[2], op[3])))}}})"
    if k == "slice":
        return f"{op[2]} = {op[1]}[{sl(op[3], op[4], op[5])}]"
    if k == "mask":
        return f"{op[2]} = {op[1]}[numpy.array({[bool(b) for b in op[3]]})]"
    if k == "fancy":
        return f"{op[2]} = {op[1]}[{list(op[3])}]"
    if k == "view":
        return f"{op[2]} = {op[1]}.view(type({op[1]}))"
    if k == "copy":
        return f"{op[2]} = {op[1]}.copy()"
    if k == "deepcopy":
        return f"{op[2]} = copy.deepcopy({op[1]})"
    if k == "pickle":
        return f"{op[2]} = pickle.loads(pickle.dumps({op[1]}))"
    if k == "int":
        return f"{op[1]}[{op[2]}]"
    if k == "get":
        return f"{op[1]}[{op[2]!r}]"
    if k == "set":
        return f"{op[1]}[{op[2]!r}] = {[float(x) for x in op[3]]}"
    if k == "setslice":
        return f"{op[1]}[{op[2]}:{op[3]}] = {op[1]}[{op[4]}:{op[4] + (op[3] - op[2])}]"
    if k == "setelems":
        return f"{op[1]}[{sl(op[2], op[3])}] = {op[4]}[{sl(op[5], op[6])}]"
    return f"del {op[1]}"


def shares(p, q):
    return bool(numpy.shares_memory(p.view(numpy.ndarray), q.view(numpy.ndarray)))


def dump_real(env):
    parts = []
    for name in sorted(env):
        arr = env[name]
        raw = arr.view(numpy.ndarray)
        names = list(arr.dtype.names)
        cols = []
        for f in names:
            for sp in SPELL.get(f, [f]):
                try:
                    cols.append(f"{sp}:" + ",".join(num(x) for x in numpy.asarray(arr[sp]).tolist()))
                except ValueError:
                    pass
        known = {sp for f in names for sp in SPELL.get(f, [f])}
        for sp in ALLNAMES:                      # a name that resolves to NO field of this array must not be indexable
            if sp not in known:
                try:
                    arr[sp]
                    cols.append(f"{sp}:UNEXPECTED")
                except ValueError:
                    pass
        parts.append(f"{name}={type(arr).__name__};{','.join(names)};" + "/".join(",".join(num(x) for x in rec) for rec in raw.tolist()) + ";" + " ".join(cols))
    live = sorted(env)
    pairs = [f"{p}~{q}" for i, p in enumerate(live) for q in live[i + 1:] if shares(env[p], env[q])]
    return " | ".join(parts) + " # " + " ".join(pairs)


def exec_real(env, op):
    """run one abstract operation on the real arrays in `env`; the answer in the driver's format"""
    k = op[0]
    try:
        if k == "new":
            _, v, fl, sig, rows = op
            if rows:
                env[v] = C.np_array(fl, sig, rows)
            else:
                import vector
                env[v] = vector.array({nm: numpy.zeros(0, dtype=numpy.float64) for nm in C.field_names(fl, sig)})
            return "ok"
        src = op[1]
        if src not in env:
            return "err NameError"
        v = env[src]
        if k == "slice":
            env[op[2]] = v[op[3]:op[4]:op[5]]
        elif k == "mask":
            env[op[2]] = v[numpy.array(op[3], dtype=bool)]
        elif k == "fancy":
            env[op[2]] = v[numpy.array(op[3], dtype=numpy.intp)] if len(op[3]) != 1 else v[list(op[3])]
        elif k == "view":
            env[op[2]] = v.view(type(v))
        elif k == "copy":
            env[op[2]] = v.copy()
        elif k == "deepcopy":
            env[op[2]] = copy.deepcopy(v)
        elif k == "pickle":
            env[op[2]] = pickle.loads(pickle.dumps(v))
        elif k == "int":
            e = v[op[2]]
            return f"elem {type(e).__name__} {','.join(C.signames(C.sig_of(e)))} {','.join(num(x) for x in C.stored(e))}"
        elif k == "get":
            return "vals " + ",".join(num(x) for x in numpy.asarray(v[op[2]]).tolist())
        elif k == "set":
            v[op[2]] = numpy.array([float(x) for x in op[3]], dtype=numpy.float64)
        elif k == "setslice":
            lo, hi, s = op[2], op[3], op[4]
            v[lo:hi] = v[s:s + (hi - lo)]
        elif k == "setelems":
            if op[4] not in env:
                return "err NameError"
            v[op[2]:op[3]] = env[op[4]][op[5]:op[6]]
        elif k == "del":
            del env[src]
        return "ok"
    except Exception as ex:  # noqa: BLE001
        return "err " + type(ex).__name__


def replay_real(ops):
    """expected driver answers of `reset`, then every op followed by `dump`"""
    env, out = {}, ["ok"]
    for op in ops:
        out.append(exec_real(env, op))
        out.append(dump_real(env))
    return out


def lines_of(ops):
    out = ["reset"]
    for op in ops:
        out += [line_of(op), "dump"]
    return out


# ------------------------------------------------------------------------------------------------ generation
class Gen:
    def __init__(self, r):
        self.r = r
        self.fresh = 100

    def vals(self, n):
        out = list(range(self.fresh, self.fresh + n))
        self.fresh += max(n, 1)
        return out

    def new(self, v, types):
        r = self.r
        fl, sig = r.choice(types)
        n = r.choice([0, 1, 2, 3, 3, 4, 4, 5, 5, 6])
        k = len(sig) + 1
        rows = [self.vals(k) for _ in range(n)]
        return ("new", v, fl, sig, rows)

    def bound(self, n):
        """a slice bound around 0..n, sometimes negative, sometimes None, sometimes far out"""
        r = self.r
        c = r.random()
        if c < 0.2:
            return None
        if c < 0.85:
            return r.randint(0, n)
        if c < 0.95:
            return -r.randint(1, n + 1)
        return r.choice([n + 2, -n - 3])

    def op(self, env, types):
        """one operation, mostly valid for the real state `env`"""
        r = self.r
        live = sorted(env)
        if not live:
            return self.new(r.choice(VARS[:2]), types)
        kinds = [k for k in KINDS if not (k == "del" and len(live) < 2)]
        k = r.choices(kinds, weights=[WEIGHTS[x] for x in kinds])[0]
        bad = r.random() < 0.08
        v = r.choices(live, weights=[len(env[q]) + 0.3 for q in live])[0] if not (bad and r.random() < 0.15) else r.choice(VARS)
        w = r.choice(VARS)
        n = len(env[v]) if v in env else 3
        names = list(env[v].dtype.names) if v in env else ["x", "y"]
        mom = v in env and type(env[v]).__name__.startswith("Momentum")
        if k == "new":
            return self.new(w, types)
        if k == "slice":
            stp = r.choice([None, None, 1, 1, 2, 2, 3, -1, -1, -2]) if not bad else r.choice([0, -3, 5])
            return ("slice", v, w, self.bound(n), self.bound(n), stp)
        if k == "mask":
            m = n if not bad else n + r.choice([-1, 1])
            return ("mask", v, w, [r.random() < 0.6 for _ in range(max(m, 0))])
        if k == "fancy":
            cnt = r.randint(0, 4)
            lim = n + 2 if bad else n
            if lim == 0:
                return ("fancy", v, w, [])
            return ("fancy", v, w, [r.randint(-lim, lim - 1) for _ in range(cnt)])
        if k in ("view", "copy", "deepcopy", "pickle"):
            return (k, v, w)
        if k == "int":
            return ("int", v, r.randint(-n - 1, n) if bad or n == 0 else r.randint(-n, n - 1))
        if k in ("get", "set"):
            f = r.choice(names)
            sp = r.choice(SPELL[f] if mom else [f]) if not bad else r.choice(ALLNAMES)
            if k == "get":
                return ("get", v, sp)
            m = n if not bad else r.choice([n + 1, max(n - 1, 0), 1, 0])
            if r.random() < 0.1:
                m = 1
            return ("set", v, sp, self.vals(m))
        if k == "setslice":
            if n < 2 or bad:
                return ("setslice", v, r.randint(-1, n), r.randint(0, n + 1), r.randint(-1, n))
            ln = r.randint(1, max(1, n // 2))
            lo = r.randint(0, n - ln)
            s = r.randint(0, n - ln)
            return ("setslice", v, lo, lo + ln, s)
        if k == "setelems":
            u = r.choices(live, weights=[len(env[q]) + 0.3 for q in live])[0]
            m = len(env[u])
            if bad or n == 0 or m == 0:
                return ("setelems", v, self.bound(n), self.bound(n), u, self.bound(m), self.bound(m))
            ln = r.randint(1, min(n, m))
            lo = r.randint(0, n - ln)
            if r.random() < 0.15:
                s = r.randrange(m)
                return ("setelems", v, lo, lo + ln, u, s, s + 1)                       # broadcast of one element
            s = r.randint(0, m - ln)
            return ("setelems", v, lo if lo or r.random() < 0.5 else None, lo + ln if lo + ln < n or r.random() < 0.5 else None,
                    u, s if s or r.random() < 0.5 else None, s + ln)
        return ("del", v)


def history(r, length):
    g = Gen(r)
    fl, sig = r.choice("gm"), r.choice(C.ALLSIGS)
    types = [(fl, sig)] * 5                                    # mostly one vector type per history …
    c = r.random()
    if c < 0.25:                                               # … sometimes a second flavor / system / dimension (cross-type assignment)
        types.append((r.choice("gm"), sig))
    elif c < 0.45:
        types.append((r.choice("gm"), r.choice(C.ALLSIGS)))
    env, ops = {}, []
    first = g.new("a", types[:1])
    while len(first[4]) < 3:
        first = g.new("a", types[:1])
    ops.append(first)
    exec_real(env, first)
    if r.random() < 0.3:
        second = g.new("b", types)
        ops.append(second)
        exec_real(env, second)
    while len(ops) < length:
        op = g.op(env, types)
        ops.append(op)
        exec_real(env, op)
    return ops


# ------------------------------------------------------------------------------------------------ comparison
def first_mismatch(expected, got):
    for i, (e, g) in enumerate(zip(expected, got)):
        if e != g:
            return i
    return None


def check(histories):
    """[(index of the first mismatching line | None, expected, got)] for every history, ONE driver invocation"""
    lines, spans, exp = [], [], []
    for ops in histories:
        ls = lines_of(ops)
        spans.append((len(lines), len(lines) + len(ls)))
        lines += ls
        exp.append(replay_real(ops))
    if not lines:
        return []
    got = leanio.run_driver("Heap", lines, build=["VectorModel.Glue.Heap"])
    out = []
    for (lo, hi), e in zip(spans, exp):
        g = got[lo:hi]
        out.append((first_mismatch(e, g), e, g))
    return out


def shrink(ops, rounds=6):
    """minimal failing history: cut after the first mismatch, then drop single operations while it keeps failing"""
    (i, _, _), = check([ops])
    if i is None:
        return ops
    ops = ops[:max(1, i + 1) // 2] if i > 0 else ops[:1]
    for _ in range(rounds):
        cands = [ops[:j] + ops[j + 1:] for j in range(len(ops) - 1)]            # keep the last (failing) operation
        if not cands:
            break
        res = check(cands)
        better = None
        for cand, (ci, _, _) in zip(cands, res):
            if ci is not None:
                cut = cand[:max(1, ci + 1) // 2]
                if better is None or len(cut) < len(better):
                    better = cut
        if better is None or len(better) >= len(ops):
            break
        ops = better
    return ops


def run(ctx):
    r = C.rng(ctx.seed, "heap")
    n_hist = 150 if ctx.tier == "quick" else 1500
    hists = [history(r, r.randint(6, 14)) for _ in range(n_hist)]
    stats = {"histories": n_hist, "steps": sum(len(h) for h in hists), "ops": {k: 0 for k in KINDS}, "op_errors": 0,
             "max_live_variables": 0, "alias_pairs": 0, "writes_through_alias": 0, "lines_compared": 0}
    for h in hists:                                            # statistics from a replay of the real side
        env = {}
        for op in h:
            stats["ops"][op[0]] += 1
            before = op[0] in ("set", "setslice", "setelems") and op[1] in env and \
                sum(1 for q in env if q != op[1] and shares(env[q], env[op[1]]))
            ans = exec_real(env, op)
            stats["op_errors"] += ans.startswith("err")
            stats["writes_through_alias"] += 1 if before else 0
            stats["max_live_variables"] = max(stats["max_live_variables"], len(env))
            live = sorted(env)
            stats["alias_pairs"] += sum(1 for i, p in enumerate(live) for q in live[i + 1:] if shares(env[p], env[q]))
    problems = []
    results = check(hists)
    stats["lines_compared"] = sum(len(e) for _, e, _ in results)
    seen = {}
    for ops, (i, exp, got) in zip(hists, results):
        if i is None:
            continue
        op = ops[(i - 1) // 2]
        what = "answer" if i % 2 == 1 else "state"
        key = f"heap:{op[0]}:{what}"
        seen[key] = seen.get(key, 0) + 1
        if seen[key] > 2 or len(problems) >= 12:
            continue
        small = shrink(ops)
        (j, e2, g2), = check([small])
        if j is None:                                          # cannot happen: shrink keeps a failing history
            small, j, e2, g2 = ops, i, exp, got
        problems.append((key, f"history {[python_of(o) for o in small]} (driver lines {lines_of(small)[1::2]}): after "
                              f"{'the operation' if j % 2 == 1 else 'the dump following it'} the real library gives {e2[j]!r}, the heap model {g2[j]!r}"))
    for key, cnt in seen.items():
        if cnt > 2:
            problems.append((key + ":more", f"{cnt - 2} further histories fail with the same key"))
    return problems, stats


if __name__ == "__main__":
    import sys

    class _Ctx:
        seed = int(sys.argv[1]) if len(sys.argv) > 1 else 1
        tier = sys.argv[2] if len(sys.argv) > 2 else "quick"
    p, s = run(_Ctx)
    for k, d in p:
        print(k, "::", d)
    print(len(p), "problems;", s)
