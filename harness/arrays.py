"""Differential harnesses on the real NumPy / Awkward backends for C16 (operands unchanged), C17 (reductions),
C18 (Awkward structure and extra fields), C19 (NumPy arrays of vectors), C20 (global state, threads).

Each `*_run(ctx)` returns (problems, stats, samples): `problems` is a list of (key, description) — empty on the unchanged
tree apart from the classes listed in known_findings.json.
"""
from __future__ import annotations

import copy
import math
import pickle
import threading
import warnings

import awkward as ak
import numpy

import vector
from harness import common as C
from harness.backends import GEN, close64, elem_value, flatten_result, sig_from_names

UN_SCALAR = ["x", "y", "rho", "phi", "z", "theta", "eta", "mag", "t", "tau", "beta", "rapidity"]
UN_VEC = [("rotateZ", [0.7]), ("rotateX", [-1.1]), ("scale", [-1.5]), ("unit", []), ("to_xyz", []), ("to_rhophieta", []),
          ("to_Vector4D", []), ("to_Vector2D", []), ("boostX", [0.4]), ("neg3D", []), ("to_beta3", [])]
BIN = ["add", "subtract", "dot", "deltaR", "deltaphi", "cross", "boost_p4", "equal", "isclose"]
# C16 observes EVERY public binary method / comparison / predicate (an operand must never change, whatever the method)
BIN_ALL = BIN + ["not_equal", "is_parallel", "is_antiparallel", "is_perpendicular", "deltaangle", "deltaeta", "deltaR2", "deltaRapidityPhi",
                 "deltaRapidityPhi2", "boost_beta3", "boost", "boostCM_of_p4", "boostCM_of", "like", "allclose"]
UN_ALL = ["rho2", "costheta", "cottheta", "mag2", "t2", "tau2", "gamma", "Et", "Mt", "neg2D", "neg4D", "is_timelike", "is_lightlike", "is_spacelike",
          "px", "pt", "mass", "energy"]


# ------------------------------------------------------------------------------------------------ snapshots (C16)
def snapshot(v):
    if isinstance(v, vector.backends.object.VectorObject):
        return ("obj", type(v).__name__, C.sig_of(v), tuple(repr(x) for x in C.stored(v)))
    if isinstance(v, numpy.ndarray):
        return ("np", type(v).__name__, str(v.dtype), v.shape, v.tobytes(), v.flags.writeable)
    if isinstance(v, (ak.Array, ak.Record)):
        arr = v if isinstance(v, ak.Array) else ak.Array([v])
        form, length, bufs = ak.to_buffers(arr)
        return ("ak", type(v).__name__, form.to_json(), length, tuple((k, numpy.asarray(b).tobytes()) for k, b in sorted(bufs.items())),
                tuple(ak.fields(v)))
    return ("other", repr(v))


def operands(r, dim, fl, sig, n=5, seed_tag=""):
    rows = [C.cart_to_stored(sig, p) for p in C.strata_points(dim, r, n_random=n)[-n:]]
    return rows


def c16_run(ctx):
    r = C.rng(ctx.seed, "c16")
    problems, n_calls, samples = [], 0, []
    sigs = C.ALLSIGS          # every stored system in every tier
    for sig in sigs:
        dim = len(sig) + 1
        fl = r.choice("gm")
        rows = operands(r, dim, fl, sig)
        # a row whose stored coordinates contain NEGATIVE ZEROS (a bit pattern that `==` cannot tell from +0.0; the snapshots are bitwise)
        nz = list(rows[0])
        nz[1] = -0.0
        if dim >= 3 and sig[1] in ("z", "eta"):
            nz[2] = -0.0
        rows = rows + [nz]
        sig2 = r.choice(C.SIGS[dim])
        rows2 = operands(r, dim, "g", sig2)
        extra = numpy.arange(len(rows), dtype=numpy.float64)
        makers = {
            "obj": lambda: C.obj_vec(fl, sig, rows[0]), "np": lambda: C.np_array(fl, sig, rows), "ak": lambda: C.ak_array(fl, sig, rows),
            "ak-jagged": lambda: ak.unflatten(C.ak_array(fl, sig, rows), [2, 0, len(rows) - 2]),
            "ak-extra": lambda: ak.with_field(C.ak_array(fl, sig, rows), extra, "charge"),
            "ak-record": lambda: C.ak_array(fl, sig, rows)[1],
        }
        others = {"obj": lambda: C.obj_vec("g", sig2, rows2[0]), "np": lambda: C.np_array("g", sig2, rows2),
                  "ak": lambda: C.ak_array("m", sig2, rows2)}
        for tag, mk in makers.items():
            v = mk()
            calls = [(m, ()) for m in UN_SCALAR + UN_ALL] + [(m, tuple(a)) for m, a in UN_VEC] + \
                [("rotate_euler", (0.1, 0.2, 0.3, "zyx")), ("rotate_quaternion", (0.5, 0.5, 0.5, 0.5)), ("rotateY", (0.3,)),
                 ("to_rhophithetatau", ()), ("to_xyzt", ()), ("scale2D", (2.0,)), ("boostZ", (0.2,))]
            for m, a in calls:
                if not hasattr(v, m):
                    continue
                before = snapshot(v)
                try:
                    at = getattr(v, m)
                    _ = at(*a) if callable(at) else at
                except Exception:  # noqa: BLE001
                    pass
                n_calls += 1
                if snapshot(v) != before:
                    problems.append((f"operand-modified:{tag}:{m}", f"{m}{a} changed its {tag} operand stored as {sig}"))
            for otag, mko in others.items():
                if tag in ("ak-jagged",) and otag != "obj":
                    continue
                w = mko()
                for m in BIN_ALL + ["__add__", "__sub__", "__eq__", "__ne__", "__matmul__"]:
                    if not hasattr(v, m):
                        continue
                    b1, b2 = snapshot(v), snapshot(w)
                    try:
                        getattr(v, m)(w)
                    except Exception:  # noqa: BLE001
                        pass
                    n_calls += 1
                    if snapshot(v) != b1 or snapshot(w) != b2:
                        problems.append((f"operand-modified:{tag}:{otag}:{m}", f"{m} changed an operand ({tag} {sig} with {otag} {sig2})"))
            # dimension-raising conversions whose imputed coordinate is given as an ARRAY (with a negative zero): neither the vector
            # nor the caller's keyword array may change
            if tag in ("np", "ak") and dim < 4:
                kwname = "z" if dim == 2 else "t"
                vals = numpy.array([(-0.0 if i % 2 else 0.5 + i) for i in range(len(rows))])
                for m in (f"to_Vector{dim + 1}D", f"to_{dim + 1}D", "to_Vector4D"):
                    kwa = vals.copy() if tag == "np" else ak.Array(vals.copy())
                    b1, b2 = snapshot(v), snapshot(kwa)
                    try:
                        getattr(v, m)(**{("t" if m == "to_Vector4D" else kwname): kwa})
                    except Exception:  # noqa: BLE001
                        pass
                    n_calls += 1
                    if snapshot(v) != b1 or snapshot(kwa) != b2:
                        problems.append((f"operand-modified:{tag}:{m}:keyword-array", f"{m}({kwname}=array) changed its {tag} operand or the keyword array ({sig})"))
            # reductions and numpy functions
            if tag in ("np", "ak", "ak-jagged"):
                b1 = snapshot(v)
                try:
                    if tag == "np":
                        numpy.sum(v, axis=0)
                        numpy.count_nonzero(v, axis=0)
                        abs(v)
                        v * 2.0
                        -v
                    else:
                        ak.sum(v, axis=-1)
                        ak.count_nonzero(v, axis=-1)
                        v * 2.0
                except Exception:  # noqa: BLE001
                    pass
                n_calls += 4
                if snapshot(v) != b1:
                    problems.append((f"operand-modified:{tag}:reduction", f"a reduction/operator changed its {tag} operand {sig}"))
        if len(samples) < 2:
            samples.append({"sig": sig, "flavor": fl, "first_row": rows[0], "backends": list(makers)})
    # every operator / ufunc form (abs, **, numpy.power/sqrt/cbrt/square, * / unary -, + - @ == !=) with operand snapshots
    from harness import backends
    obad, ost = backends.operator_value_lattice(ctx)
    n_calls += ost["operator_forms"]
    for a_, b_, k_ in obad:
        if k_.startswith("operand-modified"):
            problems.append((k_, f"{a_}: {b_}"))
    hp, hn = c16_histories(ctx)
    problems += hp
    # operands that are not vectors: the structured dtype OBJECT handed to vector.array and the plain ndarray whose view is taken
    for names in (("px", "py"), ("pt", "phi", "eta"), ("px", "py", "pz", "E"), ("x", "y", "z", "t"), ("rho", "phi", "theta", "mass")):
        dt = numpy.dtype([(nm, numpy.float64) for nm in names])
        raw = numpy.zeros(3, dtype=[(nm, numpy.float64) for nm in names])
        cls = getattr(vector, ("MomentumNumpy" if any(nm in C.MOMNAME_INV for nm in names) else "VectorNumpy") + f"{len(names)}D")
        for label, f_, watched in (("vector.array(records, dtype=dt)", lambda: vector.array([tuple(1.0 + j for j in range(len(names)))], dtype=dt), lambda: dt.names),
                                   ("raw.view(%s)" % cls.__name__, lambda: raw.view(cls), lambda: raw.dtype.names)):
            n_calls += 1
            try:
                f_()
            except Exception:  # noqa: BLE001
                pass
            if tuple(watched()) != tuple(names):
                problems.append(("numpy-dtype-renamed-in-place", f"numpy-dtype-renamed-in-place: {label} with field names {names} renamed the fields of its operand to {tuple(watched())} (the dtype object is shared and renamed in place by __array_finalize__)"))
                break
    return problems, {"calls_with_snapshot": n_calls, "history_steps": hn}, samples


def c16_histories(ctx):
    """HISTORIES on a few live operands: explicit in-place steps (ufuncs with out=, += -= *= /=, item / attribute assignment) mixed with
    ordinary calls; after every ORDINARY call all live operands must be bit-for-bit what they were before it (an in-place step may of
    course change its target - it is snapshotted again afterwards).  Catches state that an in-place step leaves behind and a later
    ordinary call trips over.  -> (problems, number of steps)"""
    r = C.rng(ctx.seed, "c16-hist")
    problems, n_steps = [], 0
    n_hist = 60 if ctx.tier == "quick" else 600
    for h in range(n_hist):
        sig = r.choice(C.ALLSIGS)
        dim = len(sig) + 1
        fl = r.choice("gm")
        kind = r.choice(["np", "np", "obj"])
        rows = operands(r, dim, fl, sig, n=4)
        if kind == "np":
            live = {"a": C.np_array(fl, sig, rows), "b": C.np_array(fl, sig, [list(reversed(rows))[i] for i in range(4)]), "c": C.np_array(fl, sig, rows[1:] + rows[:1])}
        else:
            live = {"a": C.obj_vec(fl, sig, rows[0]), "b": C.obj_vec(fl, sig, rows[1]), "c": C.obj_vec(fl, sig, rows[2])}
        trace = []
        inplace = [("numpy.add(a, b, out=c)", lambda L: numpy.add(L["a"], L["b"], out=L["c"]), "c"), ("numpy.subtract(b, a, out=a)", lambda L: numpy.subtract(L["b"], L["a"], out=L["a"]), "a"),
                   ("numpy.multiply(a, 2.0, out=c)", lambda L: numpy.multiply(L["a"], 2.0, out=L["c"]), "c"), ("numpy.true_divide(b, 4.0, out=b)", lambda L: numpy.true_divide(L["b"], 4.0, out=L["b"]), "b"),
                   ("numpy.true_divide(a, 2.0, out=c)", lambda L: numpy.true_divide(L["a"], 2.0, out=L["c"]), "c"), ("numpy.divide(b, 4.0, out=a)", lambda L: numpy.divide(L["b"], 4.0, out=L["a"]), "a"),
                   ("numpy.multiply(3.0, b, out=a)", lambda L: numpy.multiply(3.0, L["b"], out=L["a"]), "a"), ("numpy.negative(a, out=c)", lambda L: numpy.negative(L["a"], out=L["c"]), "c"),
                   ("numpy.subtract(a, b, out=c)", lambda L: numpy.subtract(L["a"], L["b"], out=L["c"]), "c"),
                   ("a += b", lambda L: L["a"].__iadd__(L["b"]), "a"), ("c -= a", lambda L: L["c"].__isub__(L["a"]), "c"), ("b *= 1.5", lambda L: L["b"].__imul__(1.5), "b"),
                   ("c /= 2.0", lambda L: L["c"].__itruediv__(2.0), "c")]
        ordinary = [("rotateZ", lambda v, w: v.rotateZ(0.5)), ("scale", lambda v, w: v.scale(2.0)), ("v + w", lambda v, w: v + w), ("v - w", lambda v, w: v - w), ("unit", lambda v, w: v.unit()),
                    ("v * 3", lambda v, w: v * 3.0), ("-v", lambda v, w: -v), ("abs", lambda v, w: abs(v)), ("dot", lambda v, w: v.dot(w)), ("v == w", lambda v, w: v == w),
                    ("to_own", lambda v, w: getattr(v, "to_" + "".join(C.signames(sig)))()), ("to_xy", lambda v, w: v.to_xy()), ("isclose", lambda v, w: v.isclose(w)),
                    ("to_Vector%dD" % dim, lambda v, w: getattr(v, "to_Vector%dD" % dim)())]
        if dim >= 3:
            ordinary += [("rotateX", lambda v, w: v.rotateX(0.3)), ("to_rhophiz", lambda v, w: v.to_rhophiz()), ("cross" if dim == 3 else "deltaR", lambda v, w: v.cross(w) if dim == 3 else v.deltaR(w))]
        if dim == 4:
            ordinary += [("boostX", lambda v, w: v.boostX(beta=0.25)), ("boost_p4", lambda v, w: v.boost_p4(w)), ("to_xyzt", lambda v, w: v.to_xyzt()), ("to_rhophietatau", lambda v, w: v.to_rhophietatau())]
        if kind == "np":
            ordinary += [("sum", lambda v, w: numpy.sum(v, axis=0)), ("v[1:]", lambda v, w: v[1:]), ("v[0]", lambda v, w: v[0])]
        for step in range(r.randint(4, 10)):
            n_steps += 1
            if r.random() < 0.4:
                name, f_, target = r.choice(inplace)
                trace.append(name)
                before = {k: snapshot(x) for k, x in live.items() if k != target}
                want = None
                try:
                    if kind == "np" and "out=" in name:      # what the target must hold afterwards: the functional result
                        fn = getattr(numpy, name.split("(")[0].split(".")[1])
                        argn = name[name.index("(") + 1:name.index(", out=")].split(", ")
                        want = fn(*[live[x] if x in live else float(x) for x in argn])
                except Exception:  # noqa: BLE001
                    want = None
                try:
                    f_(live)
                except Exception:  # noqa: BLE001  (a rejected in-place step: the harness of C15 / C19 checks what it leaves behind)
                    want = None
                changed = [k for k, x in live.items() if k != target and snapshot(x) != before[k]]
                if changed:
                    problems.append((f"operand-modified:history:{kind}:{name.split('(')[0]}", f"{kind} {fl}:{sig}: after {trace[:-1]} the step `{name}` changed {changed}, which is not its target `{target}`"))
                    break
                if want is not None and isinstance(want, numpy.ndarray) and want.dtype.names == live[target].dtype.names:
                    got_ = live[target].view(numpy.ndarray)
                    if not all(numpy.allclose(got_[f], want.view(numpy.ndarray)[f], rtol=1e-12, atol=0, equal_nan=True) for f in want.dtype.names):
                        problems.append((f"out-not-filled:history:{name.split('(')[0]}", f"{kind} {fl}:{sig}: after {trace[:-1]} the step `{name}` did not write the result into `{target}`: {got_.tolist()[:2]} vs {want.view(numpy.ndarray).tolist()[:2]}"))
                        break
                continue
            name, f_ = r.choice(ordinary)
            vn, wn = r.sample(sorted(live), 2)
            trace.append(f"{name}({vn},{wn})")
            before = {k: snapshot(x) for k, x in live.items()}
            try:
                f_(live[vn], live[wn])
            except Exception:  # noqa: BLE001
                pass
            changed = [k for k, x in live.items() if snapshot(x) != before[k]]
            if changed:
                problems.append((f"operand-modified:history:{kind}:{name}", f"{kind} {fl}:{sig}: after {trace[:-1]} the ordinary call {trace[-1]} changed operand(s) {changed}"))
                break
    return problems, n_steps


# ------------------------------------------------------------------------------------------------ reductions (C17)
def cart_of_rows(fl, sig, rows):
    out = []
    for row in rows:
        o = C.obj_vec(fl, sig, row)
        c = [o.x, o.y] + ([o.z] if len(sig) >= 2 else []) + ([o.t] if len(sig) == 3 else [])
        out.append([float(x) for x in c])
    return out


def fsum_cols(carts, dimc):
    return [math.fsum(c[j] for c in carts) for j in range(dimc)]


def vec_components(v):
    """Cartesian components of a single vector result (object / numpy void / ak record)"""
    if isinstance(v, ak.Record) or isinstance(v, ak.Array):
        names = ak.fields(v)
    return None


def c17_run(ctx):
    r = C.rng(ctx.seed, "c17")
    problems, n, samples = [], 0, []
    sigs = C.ALLSIGS          # every stored system in every tier
    for sig in sigs:
        dim = len(sig) + 1
        for fl in "gm":
            rows = operands(r, dim, fl, sig, n=6)
            carts = cart_of_rows(fl, sig, rows)
            scale = max(abs(x) for c in carts for x in c) * len(rows)
            comp = ["x", "y", "z", "t"][:dim]
            # ---- NumPy 1-D and 2-D
            a1 = C.np_array(fl, sig, rows)
            a2 = a1.reshape(2, 3)
            cases = [("np1d-all", lambda: a1.sum(), [carts]), ("np1d-numpy.sum", lambda: numpy.sum(a1), [carts]),
                     ("np2d-axis0", lambda: numpy.sum(a2, axis=0), [[carts[j], carts[j + 3]] for j in range(3)]),
                     ("np2d-axis1", lambda: a2.sum(axis=1), [carts[:3], carts[3:]]),
                     ("np2d-axis1-keepdims", lambda: numpy.sum(a2, axis=1, keepdims=True), [carts[:3], carts[3:]]),
                     # every spelling of "all axes" and of one axis, function and method form, on 2-D and 3-D arrays
                     ("np2d-numpy.sum-noaxis", lambda: numpy.sum(a2), [carts]), ("np2d-method-noaxis", lambda: a2.sum(), [carts]),
                     ("np2d-numpy.sum-axisNone", lambda: numpy.sum(a2, axis=None), [carts]),
                     ("np2d-numpy.sum-noaxis-keepdims11", lambda: numpy.sum(a2, keepdims=True), [carts]),
                     ("np2d-axis-1", lambda: numpy.sum(a2, axis=-1), [carts[:3], carts[3:]]),
                     ("np2d-method-axis0", lambda: a2.sum(axis=0), [[carts[j], carts[j + 3]] for j in range(3)]),
                     ("np2d-axis-tuple", lambda: numpy.sum(a2, axis=(0, 1)), [carts]),
                     ("np3d-numpy.sum-noaxis", lambda: numpy.sum(a1.reshape(1, 2, 3)), [carts]),
                     ("np3d-axis2", lambda: numpy.sum(a1.reshape(1, 2, 3), axis=2), [carts[:3], carts[3:]]),
                     ("np2d-axis0-keepdims13", lambda: a2.sum(axis=0, keepdims=True), [[carts[j], carts[j + 3]] for j in range(3)]),
                     # shapes with LENGTH-ONE axes: only the reduced axis disappears
                     ("shape61-axis0", lambda: numpy.sum(a1.reshape(6, 1), axis=0), [carts]), ("shape61-axis1", lambda: a1.reshape(6, 1).sum(axis=1), [[c_] for c_ in carts]),
                     ("shape16-axis1", lambda: numpy.sum(a1.reshape(1, 6), axis=1), [carts]), ("shape16-axis-1", lambda: a1.reshape(1, 6).sum(axis=-1), [carts]),
                     ("shape16-axis0", lambda: a1.reshape(1, 6).sum(axis=0), [[c_] for c_ in carts]),
                     ("shape213-axis0", lambda: numpy.sum(a1.reshape(2, 1, 3), axis=0), [[carts[j], carts[j + 3]] for j in range(3)]),
                     ("shape213-axis2", lambda: a1.reshape(2, 1, 3).sum(axis=2), [carts[:3], carts[3:]]),
                     ("shape213-axis1", lambda: a1.reshape(2, 1, 3).sum(axis=1), [[c_] for c_ in carts]),
                     ("shape1-axis0", lambda: numpy.sum(a1[:1], axis=0), [carts[:1]]), ("shape11-noaxis", lambda: numpy.sum(a1[:1].reshape(1, 1)), [carts[:1]])]
            want_shapes = {"shape61-axis0": (1,), "shape61-axis1": (6,), "shape16-axis1": (1,), "shape16-axis-1": (1,), "shape16-axis0": (6,), "shape213-axis0": (1, 3),
                           "shape213-axis2": (2, 1), "shape213-axis1": (2, 3), "shape1-axis0": (), "shape11-noaxis": ()}
            for name, f, groups in cases:
                n += 1
                try:
                    res = f()
                except Exception as e:  # noqa: BLE001
                    problems.append((f"sum-raises:{name}", f"{name} on {fl}:{sig}: {type(e).__name__}: {str(e)[:80]}"))
                    continue
                if not isinstance(res, vector.Vector) or isinstance(res, vector.Momentum) != (fl == "m"):
                    problems.append((f"sum-type:{name}", f"{name} on {fl}:{sig} returns {type(res).__name__}"))
                    continue
                if name in want_shapes and tuple(numpy.asarray(res.x).shape) != want_shapes[name]:
                    problems.append((f"sum-shape:{name}", f"{name} on {fl}:{sig}: result shape {tuple(numpy.asarray(res.x).shape)}, expected {want_shapes[name]}"))
                    continue
                want = [fsum_cols(g, dim) for g in groups]
                got_cols = [numpy.asarray(getattr(res, c_)).reshape(-1).tolist() for c_ in comp]
                got = list(zip(*got_cols))
                if name.endswith("keepdims") and tuple(numpy.asarray(res.x).shape) != (2, 1):
                    problems.append((f"sum-shape:{name}", f"keepdims shape {numpy.asarray(res.x).shape}"))
                if name.endswith("keepdims11") and tuple(numpy.asarray(res.x).shape) != (1, 1):
                    problems.append((f"sum-shape:{name}", f"keepdims shape {numpy.asarray(res.x).shape}, want (1, 1)"))
                if name.endswith("keepdims13") and tuple(numpy.asarray(res.x).shape) != (1, 3):
                    problems.append((f"sum-shape:{name}", f"keepdims shape {numpy.asarray(res.x).shape}, want (1, 3)"))
                if "noaxis" in name and "keepdims" not in name and tuple(numpy.asarray(res.x).shape) != ():
                    problems.append((f"sum-shape:{name}", f"sum over all axes has shape {numpy.asarray(res.x).shape}, want ()"))
                if len(got) != len(want) or any(not close64(g, w, scale) for gg, ww in zip(got, want) for g, w in zip(gg, ww)):
                    problems.append((f"sum-value:{name}", f"{name} on {fl}:{sig}: got {got[:2]} want {want[:2]}"))
            # count_nonzero (NumPy): rows with an exactly-zero vector
            zrows = [list(rw) for rw in rows]
            zero = [0.0] * len(rows[0])
            if "theta" not in sig and "eta" not in sig:      # the zero vector is not representable in theta/eta storage
                zrows[1] = zero
                zrows[4] = zero
                az = C.np_array(fl, sig, zrows)
                n += 1
                try:
                    cn = int(numpy.count_nonzero(az))
                    if cn != 4:
                        problems.append(("count_nonzero:np", f"count_nonzero on {fl}:{sig} with 2 zero vectors of 6 gives {cn}"))
                    az2 = az.reshape(2, 3)
                    for cname, got_, want_ in (("2d-noaxis", numpy.count_nonzero(az2), 4), ("2d-axis0", numpy.count_nonzero(az2, axis=0).tolist(), [2, 0, 2]),
                                               ("2d-axis1", numpy.count_nonzero(az2, axis=1).tolist(), [2, 2]),
                                               ("2d-axis-1", numpy.count_nonzero(az2, axis=-1).tolist(), [2, 2])):
                        n += 1
                        got_ = int(got_) if not isinstance(got_, list) else got_
                        if got_ != want_:
                            problems.append((f"count_nonzero:np-{cname}", f"count_nonzero {cname} on {fl}:{sig} (zero vectors at flat 1 and 4 of 6) gives {got_}, want {want_}"))
                except Exception as e:  # noqa: BLE001
                    problems.append(("count_nonzero-raises:np", f"{fl}:{sig}: {type(e).__name__}: {str(e)[:80]}"))
            # count_nonzero on boundary rows: exactly one non-zero Cartesian component (representable with z / t storage only)
            if "theta" not in sig and "eta" not in sig and "tau" not in sig:
                units = []
                for j in range(dim):
                    e = [0.0] * dim
                    e[j] = 3.0 if j % 2 == 0 else -1.5
                    units.append(e)
                brow = [C.cart_to_stored(sig, e) if (e[0] or e[1]) else ([0.0, 0.0] + e[2:]) for e in units] + [[0.0] * dim]
                for bname, mk in (("np", C.np_array), ("ak", C.ak_array)):
                    n += 1
                    try:
                        arr = mk(fl, sig, brow)
                        cn = int(numpy.count_nonzero(arr)) if bname == "np" else int(ak.count_nonzero(ak.unflatten(arr, [len(brow)]), axis=-1)[0])
                        if cn != dim:
                            problems.append((f"count_nonzero-boundary:{bname}", f"count_nonzero on {fl}:{sig} rows {brow} gives {cn}, want {dim} (each unit vector is non-zero)"))
                    except Exception as e:  # noqa: BLE001
                        problems.append((f"count_nonzero-raises:{bname}", f"{fl}:{sig}: {type(e).__name__}: {str(e)[:80]}"))
            # count_nonzero = number of elements whose CARTESIAN components (read through the same backend) are not all zero, on rows that
            # include on-axis elements of theta / eta storage (rho = 0 with a non-zero stored angle: x = y = z = 0) and pure-z / pure-t elements
            lonv = {"z": 1.5, "theta": 0.7, "eta": 2.5}
            brow2 = []
            for kind in ("generic", "on-axis", "origin", "generic2"):
                row = list(rows[0]) if kind.startswith("generic") else [0.0, 0.3 if sig[0] == "rhophi" else 0.0]
                if kind == "generic2":
                    row = list(rows[1])
                if not kind.startswith("generic"):
                    if dim >= 3:
                        row.append(lonv[sig[1]] if kind == "on-axis" else (0.0 if sig[1] == "z" else lonv[sig[1]]))
                    if dim == 4:
                        row.append(0.0)
                brow2.append(row)
            for bname, mk in (("np", C.np_array), ("ak", C.ak_array)):
                n += 1
                try:
                    arr = mk(fl, sig, brow2)
                    comps = [numpy.asarray(ak.to_numpy(getattr(arr, c_)) if bname == "ak" else getattr(arr, c_), dtype=float) for c_ in comp]
                    want_cn = int(sum(1 for i in range(len(brow2)) if any(cc[i] != 0 and not numpy.isnan(cc[i]) for cc in comps)))
                    got_cn = int(numpy.count_nonzero(arr)) if bname == "np" else int(ak.count_nonzero(ak.unflatten(arr, [len(brow2)]), axis=-1)[0])
                    if got_cn != want_cn:
                        problems.append((f"count_nonzero-cartesian:{bname}", f"count_nonzero on {fl}:{sig} rows {brow2} gives {got_cn}; {want_cn} elements have a non-zero Cartesian component "
                                         f"({[cc.tolist() for cc in comps]})"))
                except Exception as e:  # noqa: BLE001
                    problems.append((f"count_nonzero-raises:{bname}", f"{fl}:{sig} rows {brow2}: {type(e).__name__}: {str(e)[:80]}"))
            # ---- Awkward jagged with an empty list
            counts = [2, 0, 3, 1]
            aj = ak.unflatten(C.ak_array(fl, sig, rows), counts)
            groups, k = [], 0
            for c_ in counts:
                groups.append(carts[k:k + c_])
                k += c_
            n += 1
            try:
                res = ak.sum(aj, axis=-1)
                want = [fsum_cols(g, dim) if g else [0.0] * dim for g in groups]
                got = list(zip(*[ak.to_list(getattr(res, c_)) for c_ in comp]))
                if not isinstance(res, vector.Vector) or isinstance(res, vector.Momentum) != (fl == "m"):
                    problems.append(("sum-type:ak", f"ak.sum on {fl}:{sig} returns {type(res).__name__}"))
                elif len(got) != 4 or any(not close64(g, w, scale) for gg, ww in zip(got, want) for g, w in zip(gg, ww)):
                    problems.append(("sum-value:ak-jagged", f"ak.sum(axis=-1) on {fl}:{sig}: got {got} want {want}"))
                for aname, f_, groups_ in (("ak-axis1", lambda: ak.sum(aj, axis=1), groups), ("ak-axisNone", lambda: ak.sum(aj, axis=None), [carts]),
                                           ("ak-flat-axis0", lambda: ak.sum(C.ak_array(fl, sig, rows), axis=0), [carts]),
                                           ("ak-method-axis1", lambda: aj.sum(axis=1) if hasattr(aj, "sum") else ak.sum(aj, axis=1), groups),
                                           ("ak-axis-1-keepdims", lambda: ak.sum(aj, axis=-1, keepdims=True), groups)):
                    n += 1
                    try:
                        res_ = f_()
                    except Exception as e:  # noqa: BLE001
                        problems.append((f"sum-raises:{aname}", f"{aname} on {fl}:{sig}: {type(e).__name__}: {str(e)[:80]}"))
                        continue
                    want_ = [fsum_cols(g, dim) if g else [0.0] * dim for g in groups_]
                    cols_ = [ak.to_list(getattr(res_, c_)) for c_ in comp]
                    if aname.endswith("keepdims"):
                        if [len(x) for x in cols_[0]] != [1, 1, 1, 1]:
                            problems.append((f"sum-shape:{aname}", f"keepdims list structure {[len(x) for x in cols_[0]]}"))
                        cols_ = [[x[0] for x in cc] for cc in cols_]
                    if not isinstance(cols_[0], list):
                        cols_ = [[cc] for cc in cols_]
                    got_ = list(zip(*cols_))
                    if (isinstance(res_, vector.Vector) and isinstance(res_, vector.Momentum) != (fl == "m")) or not isinstance(res_, vector.Vector):
                        problems.append((f"sum-type:{aname}", f"{aname} on {fl}:{sig} returns {type(res_).__name__}"))
                    elif len(got_) != len(want_) or any(not close64(g, w, scale) for gg, ww in zip(got_, want_) for g, w in zip(gg, ww)):
                        problems.append((f"sum-value:{aname}", f"{aname} on {fl}:{sig}: got {got_[:2]} want {want_[:2]}"))
                cnt = ak.to_list(ak.count(aj, axis=-1))
                cnt = cnt if not isinstance(cnt, dict) else list(cnt.values())[0]
                if isinstance(cnt, list) and cnt and isinstance(cnt[0], dict):
                    cnt = [list(c0.values())[0] for c0 in cnt]
                if cnt != counts:
                    problems.append(("count:ak", f"ak.count on {fl}:{sig} gives {cnt}, want {counts}"))
            except Exception as e:  # noqa: BLE001
                problems.append(("sum-raises:ak", f"ak.sum on jagged {fl}:{sig}: {type(e).__name__}: {str(e)[:100]}"))
            if len(samples) < 2:
                samples.append({"sig": sig, "flavor": fl, "rows": rows[:2], "cartesian": carts[:2], "jagged_counts": counts})
    return problems, {"reductions_checked": n}, samples


# ------------------------------------------------------------------------------------------------ Awkward structure (C18)
COORD_FIELDS = {"x", "px", "y", "py", "rho", "pt", "phi", "z", "pz", "theta", "eta", "t", "E", "e", "energy", "tau", "M", "m", "mass"}


def structure(a):
    """list-structure fingerprint: nested lengths and None positions — of EVERY field (they must all coincide: a vector is
    missing as a whole), else ('FIELDS-DIFFER', per-field fingerprints)"""
    f = ak.fields(a)

    def go(x):
        if x is None:
            return None
        if isinstance(x, list):
            return [go(y) for y in x]
        return 0
    if not f:
        return go(ak.to_list(a))
    per = {fld: go(ak.to_list(a[fld])) for fld in f}
    first = per[f[0]]
    if any(v != first for v in per.values()):
        return ("FIELDS-DIFFER", sorted((k, str(v)) for k, v in per.items()))
    return first


def c18_run(ctx):
    r = C.rng(ctx.seed, "c18")
    problems, n, samples = [], 0, []
    sigs = C.ALLSIGS          # every stored system in every tier
    for sig in sigs:
        dim = len(sig) + 1
        fl = r.choice("gm")
        rows = operands(r, dim, fl, sig, n=8)
        flat = C.ak_array(fl, sig, rows)
        charge = numpy.arange(8, dtype=numpy.float64) - 3
        withx = ak.with_field(ak.with_field(flat, charge, "charge"), charge * 2, "weight")
        layouts = {
            "flat": flat, "flat+extra": withx,
            "jagged": ak.unflatten(flat, [3, 0, 4, 1]), "jagged+extra": ak.unflatten(withx, [3, 0, 4, 1]),
            "nested3": ak.unflatten(ak.unflatten(flat, [3, 0, 4, 1]), [2, 2]),
            "option-record": ak.mask(flat, [True, False, True, True, False, True, True, True]),
            "option-list": ak.mask(ak.unflatten(withx, [3, 0, 4, 1]), [True, False, True, True]),
            # extra fields whose NAMES are fragments / extensions of coordinate names (n, et, p, ma, xx, pt2 ...): still extra fields
            "flat+odd-extras": ak.with_field(ak.with_field(ak.with_field(ak.with_field(ak.with_field(ak.with_field(flat, charge, "n"), charge, "et"), charge, "p_"), charge, "ma"),
                                                           charge, "xx"), charge, "pt2x"),
            "option-inner": ak.unflatten(ak.mask(withx, [True, False, True, True, False, True, True, False]), [3, 0, 4, 1]),
            "option-inner-nested": ak.unflatten(ak.unflatten(ak.mask(flat, [False, True, True, True, False, True, True, True]), [3, 0, 4, 1]), [1, 3]),
            "regular": ak.to_regular(ak.unflatten(flat, [4, 4]), axis=1),
            "empty": flat[:0],
        }
        # an extra field that is itself a LIST per vector (deeper than the vectors): results must keep it as it is and keep every
        # coordinate at the depth of the vectors (a zip without depth_limit broadcasts the coordinates into it; seeded change C18-17)
        hits = ak.unflatten(numpy.arange(12, dtype=numpy.int64), [2, 0, 3, 1, 1, 2, 0, 3])
        deep = ak.with_field(flat, hits, "hits")
        for m, a in UN_VEC + [("to_xyzt", []), ("to_rhophietatau", []), ("to_Vector4D", []), ("to_Vector3D", []), ("to_Vector2D", [])]:
            if not hasattr(deep, m):
                continue
            n += 1
            try:
                at = getattr(deep, m)
                res = (at(**a) if isinstance(a, dict) else at(a) if not isinstance(a, list) else at(*a)) if callable(at) else at
            except Exception as e:  # noqa: BLE001
                problems.append((f"raises:flat+list-extra:{m}", f"{m} on a layout with a list-valued extra field ({fl}:{sig}): {type(e).__name__}: {str(e)[:80]}"))
                continue
            if not ak.fields(res):
                continue
            if "hits" not in ak.fields(res) or ak.to_list(res["hits"]) != ak.to_list(hits):
                problems.append((f"extra-values:list-extra:{m}", f"{m} on flat+list-extra ({fl}:{sig}) lost or changed the list-valued extra field 'hits'"))
            bad = [f for f in ak.fields(res) if f in COORD_FIELDS and (len(res[f]) != 8 or res[f].ndim != 1)]
            if bad:
                problems.append((f"structure:flat+list-extra:{m}", f"{m} on flat+list-extra ({fl}:{sig}): coordinate fields {bad} are no longer one number per vector ({str(ak.type(res))[:80]})"))
        sig2 = r.choice(C.SIGS[dim])
        rows2 = operands(r, dim, "g", sig2, n=8)
        flat2 = C.ak_array("g", sig2, rows2)
        for lname, arr in layouts.items():
            extras = [f for f in ak.fields(arr) if f not in COORD_FIELDS]
            st0 = structure(arr)
            impute = [("to_Vector3D", {"z": 2.5} if dim < 3 else {}), ("to_Vector4D", {"t": 7.5} if dim < 4 else {}),
                      ("to_Vector4D", {"tau": 0.25} if dim < 4 else {}), ("to_4D", {}), ("to_3D", {}),
                      ("to_xyzt", {}), ("to_rhophietatau", {}), ("to_xythetat", {"t": 3.25} if dim < 4 else {}),
                      ("like", C.obj_vec("g", ("xy", "z", "t"), [1.0, 2.0, 3.0, 9.0])),
                      ("like", C.obj_vec("m", ("rhophi", "eta"), [1.0, 2.0, 0.5])), ("like", C.obj_vec("g", ("xy",), [1.0, 2.0]))]
            # EVERY conversion the array offers (to_xy ... to_rhophithetatau and the momentum-spelled to_pxpy ... to_ptphietaenergy), no argument:
            # all of them in the thorough tier, a seeded dozen per layout in the quick tier
            convs = sorted(m_ for m_ in dir(arr) if m_.startswith("to_") and m_ not in ("to_list", "to_numpy", "tolist") and not any(m_ == u for u, _ in UN_VEC))
            convs = convs if ctx.tier == "thorough" else r.sample(convs, min(12, len(convs)))
            for m, a in UN_VEC + [(s, []) for s in UN_SCALAR[:6]] + impute + [(m_, []) for m_ in convs]:
                if not hasattr(arr, m):
                    continue
                n += 1
                try:
                    at = getattr(arr, m)
                    res = (at(**a) if isinstance(a, dict) else at(a) if not isinstance(a, list) else at(*a)) if callable(at) else at
                except Exception as e:  # noqa: BLE001
                    problems.append((f"raises:{lname}:{m}", f"{m} on layout {lname} ({fl}:{sig}): {type(e).__name__}: {str(e)[:80]}"))
                    continue
                if structure(res) != st0:
                    problems.append((f"structure:{lname}:{m}", f"{m} on layout {lname} ({fl}:{sig}) changed the list structure / None positions"))
                if ak.fields(res):
                    got_extra = [f for f in ak.fields(res) if f not in COORD_FIELDS]
                    if got_extra != extras:
                        problems.append((f"extra-fields:{m}", f"{m} on {lname} ({fl}:{sig}): extra fields {got_extra}, operand had {extras}; all fields {ak.fields(res)}"))
                    elif extras and lname == "flat+extra" and ak.to_list(res["charge"]) != charge.tolist():
                        problems.append((f"extra-values:{m}", f"{m} changed the values of the carried field"))
                    cf = [GEN.get(f, f) for f in ak.fields(res) if f in COORD_FIELDS]
                    n_lon = sum(f in ("z", "theta", "eta") for f in cf)
                    n_tmp = sum(f in ("t", "tau") for f in cf)
                    n_az = (("x" in cf) + ("y" in cf), ("rho" in cf) + ("phi" in cf))
                    cdim = 2 if isinstance(res, vector.Vector2D) else 3 if isinstance(res, vector.Vector3D) else 4 if isinstance(res, vector.Vector4D) else 0
                    if cdim != 2 + n_lon + n_tmp:
                        problems.append((f"class-dimension:{m}", f"{m} on {lname} ({fl}:{sig}) returns a {cdim}D vector class ({str(ak.type(res))[-60:]}) with coordinate fields {cf}"))
                    if n_az not in ((2, 0), (0, 2)) or n_lon > 1 or n_tmp > 1 or (n_tmp == 1 and n_lon == 0) or len(cf) != 2 + n_lon + n_tmp:
                        problems.append((f"coord-fields:{m}", f"{m} on {lname} ({fl}:{sig}) returns coordinate fields {ak.fields(res)}: not one coordinate system"))
            # binary with the same layout of another array: coordinates only
            if lname in ("flat", "flat+extra", "jagged", "jagged+extra", "option-record"):
                other = {"flat": flat2, "flat+extra": ak.with_field(flat2, charge, "q"), "jagged": ak.unflatten(flat2, [3, 0, 4, 1]),
                         "jagged+extra": ak.unflatten(ak.with_field(flat2, charge, "q"), [3, 0, 4, 1]),
                         "option-record": ak.mask(flat2, [True, False, True, True, False, True, True, True])}[lname]
                for m in ("add", "subtract", "cross"):
                    if not hasattr(arr, m) or (m == "cross" and dim != 3):
                        continue
                    n += 1
                    try:
                        res = getattr(arr, m)(other)
                    except Exception as e:  # noqa: BLE001
                        problems.append((f"raises:{lname}:{m}", f"{m} on layout {lname}: {type(e).__name__}: {str(e)[:80]}"))
                        continue
                    if structure(res) != st0:
                        problems.append((f"structure:{lname}:{m}", f"binary {m} on layout {lname} changed the structure"))
                    bad = [f for f in ak.fields(res) if f not in COORD_FIELDS]
                    if bad:
                        problems.append((f"binary-extra:{m}", f"binary {m} on {lname} returns non-coordinate fields {bad}"))
        # boost family: the booster is a secondary argument (like the axis of rotate_axis) - the BOOSTED operand's extra fields are
        # carried, the booster's never, whatever the relative nesting depth of the two operands (flat by jagged, record by array)
        if dim == 4:
            boosted_flat = ak.with_field(C.ak_array(fl, sig, rows[:4]), numpy.array([1.0, -1.0, 1.0, -1.0]), "charge")
            brows = [C.cart_to_stored(sig2, p_) for p_ in C.strata_points(4, r, n_random=8)[-7:]]
            booster_j = ak.unflatten(ak.with_field(C.ak_array("g", sig2, brows), numpy.arange(7.0), "q"), [2, 0, 3, 2])
            b3rows = [[0.1 * x for x in C.cart_to_stored(("xy", "z"), p_)] for p_ in C.strata_points(3, r, n_random=8)[-7:]]
            booster3_j = ak.unflatten(ak.with_field(C.ak_array("g", ("xy", "z"), b3rows), numpy.arange(7.0), "q"), [2, 0, 3, 2])
            combos = [("flat.boost_p4(jagged)", lambda: boosted_flat.boost_p4(booster_j), ["charge"]), ("flat.boost(jagged)", lambda: boosted_flat.boost(booster_j), ["charge"]),
                      ("flat.boost_beta3(jagged3D)", lambda: boosted_flat.boost_beta3(booster3_j), ["charge"]),
                      ("flat.boostCM_of_p4(jagged)", lambda: boosted_flat.boostCM_of_p4(booster_j), ["charge"]),
                      ("jagged.boost_p4(flat)", lambda: booster_j.boost_p4(boosted_flat), ["q"]),
                      ("flat.add(jagged)", lambda: boosted_flat.add(booster_j), [])]
            for cname, f_, want_extra in combos:
                n += 1
                try:
                    res = f_()
                except Exception as e:  # noqa: BLE001
                    problems.append((f"raises:depth:{cname}", f"{cname} ({fl}:{sig} with g:{sig2}): {type(e).__name__}: {str(e)[:80]}"))
                    continue
                got_extra = [f for f in ak.fields(res) if f not in COORD_FIELDS]
                if got_extra != want_extra:
                    problems.append((f"extra-fields:depth:{cname}", f"{cname} ({fl}:{sig} with g:{sig2}) returns extra fields {got_extra}, expected {want_extra} (only the first operand's, and only for single-vector operations)"))
                if [len(x) for x in ak.to_list(res[ak.fields(res)[0]])] != [2, 0, 3, 2]:
                    problems.append((f"structure:depth:{cname}", f"{cname}: list structure {[len(x) for x in ak.to_list(res[ak.fields(res)[0]])]}, expected the broadcast structure [2, 0, 3, 2]"))
        # array-valued SCALAR arguments whose structure differs from the vectors' (deeper lists, missing values): the result has the
        # broadcast structure, in every field (coordinates and carried extras alike)
        ang_deep = ak.Array([[0.1, 0.2], [], [0.3], [0.4, 0.5, 0.6], [0.7], [], [0.8, 0.9], [1.0]])
        ang_opt = ak.Array([0.1, None, 0.3, 0.4, None, 0.6, 0.7, 0.8])
        want_deep = [[0] * k for k in (2, 0, 1, 3, 1, 0, 2, 1)]
        want_opt = [0, None, 0, 0, None, 0, 0, 0]
        sc_calls = [("rotateZ", lambda v, a: v.rotateZ(a)), ("scale", lambda v, a: v.scale(a)), ("v * a", lambda v, a: v * a)]
        if dim >= 3:
            sc_calls += [("rotateX", lambda v, a: v.rotateX(a)), ("rotateY", lambda v, a: v.rotateY(a))]
        if dim == 4:
            sc_calls += [("boostX", lambda v, a: v.boostX(beta=a * 0.5)), ("boostZ", lambda v, a: v.boostZ(beta=a * 0.5))]
        def fp(x):
            return None if x is None else [fp(y) for y in x] if isinstance(x, list) else 0
        for cname, f_ in sc_calls:
            for aname, ang, want_st in (("deeper (jagged) argument", ang_deep, want_deep), ("argument with missing values", ang_opt, want_opt)):
                for vname, varr in (("flat", flat), ("flat+extra", withx)):
                    n += 1
                    try:
                        res = f_(varr, ang)
                    except Exception as e:  # noqa: BLE001
                        problems.append((f"raises:scalar-structure:{cname}", f"{cname} on {vname} {fl}:{sig} with a {aname}: {type(e).__name__}: {str(e)[:80]}"))
                        continue
                    per = {f: fp(ak.to_list(res[f])) for f in ak.fields(res)}
                    # every COORDINATE has the broadcast structure (a vector is missing / repeated as a whole); a carried extra field has it
                    # too or keeps the operand's own structure
                    # (with a MISSING-VALUE argument the unchanged library leaves passed-through stored coordinates non-optional: tolerated)
                    badc = {f: v for f, v in per.items() if f in COORD_FIELDS and v != want_st and not (ang is ang_opt and v == [0] * 8)}
                    bade = {f: v for f, v in per.items() if f not in COORD_FIELDS and v != want_st and v != [0] * 8}
                    if badc or bade or not per:
                        problems.append((f"structure:scalar-structure:{cname}", f"{cname} on {vname} {fl}:{sig} with a {aname}: fields {str(badc or bade)[:200]} do not have the broadcast structure {want_st}; type {str(ak.type(res))[:120]}"))
        # a record selected from the array behaves like the object
        rec = layouts["jagged"][2][1]
        o = C.obj_vec(fl, sig, rows[4])
        for m in UN_SCALAR:
            if hasattr(o, m):
                n += 1
                try:
                    if not close64(getattr(rec, m), getattr(o, m), 10.0):
                        problems.append((f"record-value:{m}", f"record.{m}={getattr(rec, m)} object.{m}={getattr(o, m)} ({fl}:{sig})"))
                except Exception as e:  # noqa: BLE001
                    problems.append((f"record-raises:{m}", f"{type(e).__name__}: {str(e)[:80]}"))
        # ... also for every vector-valued method: same flavor and dimension (record name), same coordinate system, same values
        rec_calls = UN_VEC + [("to_Vector3D", []), ("to_2D", []), ("to_3D", []), ("to_4D", []), ("to_xy", []), ("to_rhophi", []), ("to_rhophiz", []),
                              ("to_xythetatau", []), ("to_xyzt", []), ("rotateY", [0.3]), ("scale2D", [2.0]), ("neg2D", []), ("neg4D", []),
                              ("like", [C.obj_vec("g", ("xy",), [1.0, 2.0])]), ("like", [C.obj_vec("m", ("rhophi", "eta"), [1.0, 2.0, 0.5])]),
                              ("like", [C.obj_vec("g", ("xy", "z", "tau"), [1.0, 2.0, 3.0, 0.5])]),
                              ("add", [o]), ("subtract", [o])] + ([("cross", [o])] if dim == 3 else []) + ([("boost_p4", [o])] if dim == 4 else [])
        if fl == "m":
            rec_calls += [("to_pxpy", []), ("to_ptphi", []), ("to_ptphieta", []), ("to_pxpypzenergy", []), ("to_ptphietamass", [])]
        for m, a in rec_calls:
            if not hasattr(o, m):
                continue
            n += 1
            try:
                ao = getattr(o, m)
                want = ao(*a) if callable(ao) else ao
            except Exception:  # noqa: BLE001
                continue
            try:
                ar = getattr(rec, m)
                got = ar(*a) if callable(ar) else ar
            except Exception as e:  # noqa: BLE001
                problems.append((f"record-raises:{m}", f"{m} on a record selected from a jagged {fl}:{sig} array: {type(e).__name__}: {str(e)[:80]}"))
                continue
            if not isinstance(got, ak.Record):
                problems.append((f"record-result:{m}", f"{m} on a record returns {type(got).__name__}, the object gives {type(want).__name__}"))
                continue
            wname = ("Momentum" if isinstance(want, vector.Momentum) else "Vector") + {2: "2D", 3: "3D", 4: "4D"}[len(C.sig_of(want)) + 1]
            gname = got.layout.parameter("__record__")
            if gname != wname:
                problems.append((f"record-flavor-dim:{m}", f"{m} on a record selected from a {fl}:{sig} array returns a {gname} record; the equivalent object gives {type(want).__name__}"))
                continue
            gf = [GEN.get(f, f) for f in ak.fields(got) if f in COORD_FIELDS]
            wf = list(C.signames(C.sig_of(want)))
            if gf != wf:
                problems.append((f"record-system:{m}", f"{m} on a record ({fl}:{sig}) returns coordinates {gf}; the equivalent object gives {wf}"))
                continue
            gv = [float(got[f]) for f in ak.fields(got) if f in COORD_FIELDS]
            if not all(close64(x, y, 10.0) for x, y in zip(gv, C.stored(want))):
                problems.append((f"record-value:{m}", f"{m} on a record ({fl}:{sig}): {gv}; the equivalent object gives {list(C.stored(want))}"))
        # arrays built from MIXED spellings (one coordinate through a momentum synonym, the others geometric): the selected record is the
        # vector.obj built from the same names - same flavor (a single momentum spelling makes a momentum vector), same momentum properties
        gnames = list(C.signames(sig))
        for j, g in enumerate(gnames):
            for syn in {"x": ["px"], "y": ["py"], "rho": ["pt"], "z": ["pz"], "t": ["E", "e", "energy"], "tau": ["M", "m", "mass"]}.get(g, []):
                nms = [syn if i == j else nm for i, nm in enumerate(gnames)]
                n += 1
                try:
                    arr_ = vector.zip({nm: numpy.array([row[i] for row in rows[:3]]) for i, nm in enumerate(nms)})
                    jag_ = ak.unflatten(arr_, [2, 0, 1])
                    rec_ = jag_[0][1]
                    obj_ = vector.obj(**{nm: rows[1][i] for i, nm in enumerate(nms)})
                    gname_ = rec_.layout.parameter("__record__")
                    wname_ = ("Momentum" if isinstance(obj_, vector.Momentum) else "Vector") + f"{dim}D"
                    if gname_ != wname_:
                        problems.append((f"record-flavor-dim:mixed-spelling:{syn}", f"a record selected from vector.zip({nms}) is a {gname_} record; vector.obj with the same names is a {type(obj_).__name__}"))
                        continue
                    for rd in [syn, "x", "rho"] + (["pt", "px"] if isinstance(obj_, vector.Momentum) else []):
                        if hasattr(obj_, rd) and not close64(getattr(rec_, rd), getattr(obj_, rd), 10.0):
                            problems.append((f"record-value:mixed-spelling:{syn}", f"record from vector.zip({nms}): .{rd} = {getattr(rec_, rd)}, the object gives {getattr(obj_, rd)}"))
                            break
                except Exception as e:  # noqa: BLE001
                    problems.append((f"record-raises:mixed-spelling:{syn}", f"vector.zip({nms}) / record selection / .{syn}: {type(e).__name__}: {str(e)[:80]}"))
        if len(samples) < 2:
            samples.append({"sig": sig, "flavor": fl, "layouts": list(layouts), "type_of_nested3": str(ak.type(layouts["nested3"]))})
    raw, nraw = raw_momentum_records(ctx)
    problems += raw
    problems += c18_transcription()
    return problems, {"awkward_calls": n, "raw_momentum_record_calls": nraw}, samples


RAW_CODE = r"""
import sys, json
sys.path.insert(0, %r); sys.path.insert(0, %r)
import numpy, awkward as ak, vector
vector.register_awkward()
from harness.arrays import COORD_FIELDS
out = []
specs = [({"px": [1.0, 2.0], "py": [2.0, 3.0], "pz": [0.5, 0.1], "E": [5.0, 6.0], "charge": [1, -1]}, "Momentum4D", 4),
         ({"pt": [1.0, 2.0], "phi": [0.3, -1.0], "eta": [0.5, 0.1], "mass": [0.1, 0.2], "charge": [1, -1]}, "Momentum4D", 4),
         ({"px": [1.0, 2.0], "py": [2.0, 3.0], "pz": [0.5, 0.1], "q": [1, -1]}, "Momentum3D", 3),
         ({"x": [1.0, 2.0], "y": [2.0, 3.0], "z": [0.5, 0.1], "t": [5.0, 6.0], "charge": [1, -1]}, "Vector4D", 4)]
n = 0
for fields, name, dim in specs:
    a = ak.zip(fields, with_name=name)
    extras = [f for f in fields if f not in COORD_FIELDS]
    for m, args in (("rotateZ", [0.3]), ("rotateX", [0.3]), ("scale", [2.0]), ("to_xy", []), ("unit", []), ("boostX", [0.3])):
        if not hasattr(a, m):
            continue
        n += 1
        try:
            r = getattr(a, m)(*args)
        except Exception as e:
            out.append(["raw-raises:" + m, "%%s on raw %%s %%s: %%s" %% (m, name, list(fields), type(e).__name__)])
            continue
        want_dim = 2 if m == "to_xy" else dim
        got_dim = 2 if isinstance(r, vector.Vector2D) else 3 if isinstance(r, vector.Vector3D) else 4 if isinstance(r, vector.Vector4D) else 0
        cf = [f for f in ak.fields(r) if f in COORD_FIELDS]
        gen = {"px": "x", "py": "y", "pt": "rho", "pz": "z", "E": "t", "e": "t", "energy": "t", "M": "tau", "m": "tau", "mass": "tau"}
        g = [gen.get(f, f) for f in cf]
        stale = len(g) != len(set(g)) or (("x" in g) and ("rho" in g))
        momentum_named_input = any(f in gen for f in fields)
        if got_dim != want_dim or stale or [f for f in ak.fields(r) if f not in COORD_FIELDS] != extras:
            key = ("raw-record-stale:" if momentum_named_input and (got_dim != want_dim or stale) else "raw-record:") + m
            out.append([key, "%%s on raw %%s%%s returns %%s with fields %%s" %% (m, name, list(fields), type(r).__name__, ak.fields(r))])
print("JSON" + json.dumps([n, out]))
"""


def raw_momentum_records(ctx):
    """records built with ak.zip(..., with_name=...) under registered behaviors (the usual idiom; vector.zip renames momentum fields)"""
    import json
    import subprocess
    import sys
    p = subprocess.run([sys.executable, "-c", RAW_CODE % (C.VERIF, C.VERIF + "/tools")], capture_output=True, text=True, timeout=600)
    line = [l for l in p.stdout.splitlines() if l.startswith("JSON")]
    if not line:
        return [("raw-record-harness", "subprocess failed: " + p.stderr[-300:])], 0
    n, out = json.loads(line[0][4:])
    return [tuple(x) for x in out], n


# ------------------------------------------------------------------------------------------------ NumPy arrays (C19)
def c19_run(ctx):
    r = C.rng(ctx.seed, "c19")
    problems, n, samples = [], 0, []
    sigs = C.ALLSIGS          # every stored system in every tier
    for sig in sigs:
        dim = len(sig) + 1
        for fl in "gm":
            rows = operands(r, dim, fl, sig, n=12)
            a = C.np_array(fl, sig, rows)
            cls = type(a)
            names = C.field_names(fl, sig)
            for shape in ((12,), (3, 4), (2, 3, 2)):
                b = a.reshape(shape)
                n += 1
                if type(b) is not cls or b.dtype.names != a.dtype.names:
                    problems.append(("reshape-class", f"reshape{shape} of {fl}:{sig}: {type(b).__name__} {b.dtype.names}"))
                idx = tuple(r.randrange(s) for s in shape)
                flat_i = int(numpy.ravel_multi_index(idx, shape))
                e = b[idx]
                n += 1
                ok = isinstance(e, vector.backends.object.VectorObject) and C.sig_of(e) == tuple(sig) and \
                    isinstance(e, vector.Momentum) == (fl == "m") and [float(x) for x in C.stored(e)] == [float(x) for x in rows[flat_i]]
                if not ok:
                    problems.append(("int-index", f"{fl}:{sig} shape {shape} index {idx}: got {e!r}, element stores {rows[flat_i]}"))
                # zero-dimensional VIEWS (all axes consumed by integers plus an Ellipsis): still the array class, same record
                for zdesc, zidx in (("int+ellipsis", idx + (Ellipsis,)), ("ellipsis+int", (Ellipsis,) + idx)):
                    n += 1
                    try:
                        z0 = b[zidx]
                        if type(z0) is not cls or z0.shape != () or z0.view(numpy.ndarray).tobytes() != b.view(numpy.ndarray)[idx].tobytes():
                            problems.append((f"zero-dim-view:{zdesc}", f"{fl}:{sig} shape {shape} index {zidx}: {type(z0).__name__} shape {getattr(z0, 'shape', None)}, expected a 0-d {cls.__name__} view of the element"))
                    except Exception as ex:  # noqa: BLE001
                        problems.append((f"zero-dim-view-raises:{zdesc}", f"{fl}:{sig} {shape}: {type(ex).__name__}: {str(ex)[:60]}"))
                for desc, sl in (("slice", (slice(1, None),)), ("step", (slice(None, None, 2),)), ("mask", (numpy.arange(shape[0]) % 2 == 0,)),
                                 ("ellipsis", (Ellipsis, 0) if len(shape) > 1 else (slice(None),)), ("fancy", ([0, shape[0] - 1],)),
                                 ("view", None), ("copy", None), ("transpose", None)):
                    n += 1
                    try:
                        c = b[sl] if sl is not None else (b.view() if desc == "view" else b.copy() if desc == "copy" else b.T)
                    except Exception as ex:  # noqa: BLE001
                        problems.append((f"index-raises:{desc}", f"{fl}:{sig} {shape}: {type(ex).__name__}: {str(ex)[:60]}"))
                        continue
                    if type(c) is not cls or c.dtype.names != a.dtype.names:
                        problems.append((f"class-lost:{desc}", f"{desc} of {fl}:{sig} {shape} gives {type(c).__name__} {getattr(c.dtype, 'names', None)}"))
                for j, nm in enumerate(C.signames(sig)):
                    for spelling in {nm, C.MOMNAME[nm]} if fl == "m" else {nm}:
                        n += 1
                        try:
                            col = numpy.asarray(b[spelling]).reshape(-1).tolist()
                            if col != [rw[j] for rw in rows]:
                                problems.append((f"name-index:{spelling}", f"{fl}:{sig}[{spelling!r}] is not the stored column"))
                            if type(b[spelling]) is not numpy.ndarray:
                                problems.append((f"name-index-type:{spelling}", f"{type(b[spelling]).__name__}"))
                        except Exception as ex:  # noqa: BLE001
                            problems.append((f"name-index-raises:{spelling}", f"{fl}:{sig}: {type(ex).__name__}: {str(ex)[:60]}"))
                # item assignment with a slice writes the elements (generic and momentum arrays alike)
                n += 1
                try:
                    c = b.copy()
                    c[0:1] = b[shape[0] - 1:shape[0]]
                    if c.view(numpy.ndarray)[0].tobytes() != b.view(numpy.ndarray)[shape[0] - 1].tobytes():
                        problems.append(("setitem-slice", f"{fl}:{sig} {shape}: slice assignment does not store the elements"))
                except Exception as ex:  # noqa: BLE001
                    problems.append(("setitem-slice-raises", f"{fl}:{sig} {shape}: {type(ex).__name__}: {str(ex)[:80]}"))
            # pickle / deepcopy round trip
            for desc, f in (("pickle", lambda x: pickle.loads(pickle.dumps(x))), ("deepcopy", copy.deepcopy), ("copy", copy.copy)):
                n += 1
                try:
                    c = f(a)
                    if type(c) is not cls or c.dtype != a.dtype or c.tobytes() != a.tobytes():
                        problems.append((f"roundtrip:{desc}", f"{desc} of {fl}:{sig}: {type(c).__name__} {c.dtype}"))
                except Exception as ex:  # noqa: BLE001
                    problems.append((f"roundtrip-raises:{desc}", f"{type(ex).__name__}: {str(ex)[:80]}"))
            # array form of an object
            o = C.obj_vec(fl, sig, rows[0])
            n += 2
            try:
                aa = numpy.asanyarray(o)
                if not isinstance(aa, vector.backends.numpy.VectorNumpy) or isinstance(aa, vector.Momentum) != (fl == "m") or \
                        sig_from_names(aa.dtype.names) != tuple(sig) or [float(aa[nm_].reshape(-1)[0]) for nm_ in aa.dtype.names] != [float(x) for x in rows[0]]:
                    problems.append(("asanyarray", f"asanyarray({fl}:{sig} object) = {aa!r}"))
                ae = aa[...]
                if type(ae) is not type(aa) or ae.dtype != aa.dtype:
                    problems.append(("asanyarray-ellipsis", f"asanyarray({fl}:{sig} object)[...] is {type(ae).__name__}"))
                pa = numpy.asarray(o)
                if type(pa) is not numpy.ndarray or [GEN.get(q, q) for q in pa.dtype.names] != C.signames(sig):
                    problems.append(("asarray", f"asarray({fl}:{sig} object) = {type(pa).__name__} {pa.dtype}"))
            except Exception as ex:  # noqa: BLE001
                problems.append(("asarray-raises", f"{fl}:{sig}: {type(ex).__name__}: {str(ex)[:80]}"))
            # structured arrays whose fields are NOT in the canonical (azimuthal, longitudinal, temporal) order, and with extra
            # non-coordinate fields before / between / after the coordinates: plain ndarray.view(VectorNumpyND) as the README shows
            base = list(zip(names, range(len(names))))
            layouts = [("reversed", list(reversed(base))), ("rotated", base[1:] + base[:1]),
                       ("extra-first", [("charge", None)] + base), ("extra-middle", base[:1] + [("charge", None)] + base[1:]),
                       ("extra-last", base + [("charge", None)])]
            vcls = {True: {2: vector.MomentumNumpy2D, 3: vector.MomentumNumpy3D, 4: vector.MomentumNumpy4D},
                    False: {2: vector.VectorNumpy2D, 3: vector.VectorNumpy3D, 4: vector.VectorNumpy4D}}[fl == "m"][dim]
            for lname_, fields in layouts:
                n += 1
                dt = [(nm_, numpy.float64) for nm_, _ in fields]
                raw = numpy.zeros(len(rows), dtype=dt)
                for nm_, j in fields:
                    raw[nm_] = [rw[j] for rw in rows] if j is not None else [float(7 + q) for q in range(len(rows))]
                try:
                    va = raw.view(vcls)
                    k = r.randrange(len(rows))
                    e = va[k]
                    ok = isinstance(e, vector.backends.object.VectorObject) and C.sig_of(e) == tuple(sig) and \
                        isinstance(e, vector.Momentum) == (fl == "m") and [float(x) for x in C.stored(e)] == [float(x) for x in rows[k]]
                    if not ok:
                        problems.append((f"int-index-layout:{lname_}", f"{fl}:{sig} fields {[f_ for f_, _ in fields]} index {k}: got {e!r}, element stores {rows[k]}"))
                    for j, nm_ in enumerate(C.signames(sig)):
                        if numpy.asarray(getattr(va, nm_)).tolist() != [rw[j] for rw in rows] or numpy.asarray(va[names[j]]).tolist() != [rw[j] for rw in rows]:
                            problems.append((f"column-layout:{lname_}", f"{fl}:{sig} fields {[f_ for f_, _ in fields]}: coordinate {nm_} is not the stored column"))
                    sl = va[1:]
                    if type(sl) is not vcls or sl.dtype != va.dtype:
                        problems.append((f"slice-layout:{lname_}", f"{fl}:{sig}: slice gives {type(sl).__name__} {sl.dtype}"))
                    pk = pickle.loads(pickle.dumps(va))
                    if type(pk) is not vcls or pk.dtype != va.dtype or pk.tobytes() != va.tobytes():
                        problems.append((f"pickle-layout:{lname_}", f"{fl}:{sig}: pickle round trip gives {type(pk).__name__} {pk.dtype}"))
                    # ufuncs writing into an out= array of this layout (explicitly and through the in-place operators): every
                    # coordinate of the written array, read BY NAME, equals the coordinate of the functional result
                    if "tau" not in sig and not lname_.startswith("extra"):     # (with extra fields the unchanged library raises in out=: not a property)
                        outs = [("numpy.multiply(v, 2.5, out=w)", lambda w_: numpy.multiply(va, 2.5, out=w_), lambda: va * 2.5),
                                ("numpy.true_divide(v, 4.0, out=w)", lambda w_: numpy.true_divide(va, 4.0, out=w_), lambda: va / 4.0),
                                ("numpy.add(v, v, out=w)", lambda w_: numpy.add(va, va, out=w_), lambda: va + va),
                                ("numpy.subtract(v, v2, out=w)", lambda w_: numpy.subtract(va, va[::-1], out=w_), lambda: va - va[::-1]),
                                ("w *= 2.5", lambda w_: w_.__imul__(2.5), lambda: va * 2.5), ("w /= 4.0", lambda w_: w_.__itruediv__(4.0), lambda: va / 4.0),
                                ("w += v", lambda w_: w_.__iadd__(va), lambda: va + va)]
                        for oname, fo, fr in outs:
                            n += 1
                            w_ = va.copy()
                            try:
                                fo(w_)
                                ref = fr()
                            except Exception as ex:  # noqa: BLE001
                                problems.append((f"out-raises:{lname_}", f"{oname} on {fl}:{sig} fields {[f_ for f_, _ in fields]}: {type(ex).__name__}: {str(ex)[:60]}"))
                                continue
                            for cn in ("x", "y") + (("z",) if dim >= 3 else ()) + (("t",) if dim == 4 else ()):
                                a_, b_ = numpy.asarray(getattr(w_, cn)), numpy.asarray(getattr(ref, cn))
                                if not numpy.allclose(a_, b_, rtol=1e-12, atol=1e-12):
                                    problems.append((f"out-layout:{oname.split('(')[0].split()[-1] if '(' in oname else oname}",
                                                     f"{oname} on {fl}:{sig} with fields {[f_ for f_, _ in fields]}: component {cn} of the written array is {a_.tolist()[:3]}, "
                                                     f"of the functional result {b_.tolist()[:3]}"))
                                    break
                except Exception as ex:  # noqa: BLE001
                    problems.append((f"layout-raises:{lname_}", f"{fl}:{sig} fields {[f_ for f_, _ in fields]}: {type(ex).__name__}: {str(ex)[:80]}"))
            if len(samples) < 2:
                samples.append({"sig": sig, "flavor": fl, "dtype": str(a.dtype), "element0": rows[0]})
    # element dtypes WIDER than float64's 53-bit mantissa (int64 / uint64 beyond 2**53, numpy.longdouble): the object returned by an integer
    # index holds exactly the stored element (compared in the element's own dtype, never through float())
    wide = [("int64", numpy.int64, [2**53 + 1, -(2**53) - 3, 2**62 + 1, 7]), ("uint64", numpy.uint64, [2**64 - 1, 2**53 + 1, 2**63 + 5, 3]),
            ("longdouble", numpy.longdouble, [numpy.longdouble(1) + numpy.finfo(numpy.longdouble).eps, numpy.longdouble(2) / 3, numpy.longdouble(-5) / 7, numpy.longdouble(0.5)])]
    for sig in [s_ for s_ in sigs if all(q in ("xy", "z", "t") for q in s_)] + [s_ for s_ in sigs if s_[0] == "rhophi"][:3]:
        dim = len(sig) + 1
        for fl in "gm":
            names = C.field_names(fl, sig)
            vcls = {True: {2: vector.MomentumNumpy2D, 3: vector.MomentumNumpy3D, 4: vector.MomentumNumpy4D},
                    False: {2: vector.VectorNumpy2D, 3: vector.VectorNumpy3D, 4: vector.VectorNumpy4D}}[fl == "m"][dim]
            for dname, dt_, vals in wide:
                raw = numpy.zeros(4, dtype=[(nm_, dt_) for nm_ in names])
                for j, nm_ in enumerate(names):
                    raw[nm_] = vals[j % 4:] + vals[:j % 4]
                cols = [raw[nm_].copy() for nm_ in names]        # (taken before the view: a momentum view renames the shared dtype in place - known finding)
                for shape in ((4,), (2, 2)):
                    va = raw.reshape(shape).view(vcls)
                    for idx in numpy.ndindex(*shape):
                        n += 1
                        try:
                            e = va[idx]
                            got = C.stored(e)
                        except Exception as ex:  # noqa: BLE001
                            problems.append((f"int-index-wide-raises:{dname}", f"{fl}:{sig} {dname} {shape} index {idx}: {type(ex).__name__}: {str(ex)[:60]}"))
                            continue
                        want = [c_.reshape(shape)[idx] for c_ in cols]
                        same = all((int(g) == int(w) and float(g) == float(w)) if dname != "longdouble" else numpy.longdouble(g) == w for g, w in zip(got, want))
                        if not same:
                            problems.append((f"int-index-wide:{dname}", f"{fl}:{sig} array with {dname} fields, shape {shape}, index {idx}: object stores {[repr(g) for g in got]}, "
                                                                        f"the element is {[repr(w) for w in want]}"))
    hp, hn = c19_histories(ctx)
    problems += hp
    return problems, {"index_expressions": n, "history_steps": hn}, samples


def c19_histories(ctx):
    """operation HISTORIES on NumPy vector arrays against a plain structured ndarray undergoing the same operations (the trusted
    reference): name reads (every spelling), name and slice assignment, integer indexing, slicing, views, copies and pickle round
    trips in random order; after EVERY step class, dtype, raw records and every named column must agree with the reference"""
    r = C.rng(ctx.seed, "c19-hist")
    problems, n_steps = [], 0
    n_hist = 400 if ctx.tier == "quick" else 4000
    for h in range(n_hist):
        sig = r.choice(C.ALLSIGS)
        fl = r.choice("gm")
        dim = len(sig) + 1
        rows = operands(r, dim, fl, sig, n=6)
        arr = C.np_array(fl, sig, rows)
        cls = type(arr)
        model = numpy.array(arr.view(numpy.ndarray), copy=True)
        names = list(model.dtype.names)
        gen = C.signames(sig)
        spell = {g: ([g] + ([C.MOMNAME[g]] if fl == "m" and C.MOMNAME[g] != g else [])) for g in gen}
        trace = []
        for step in range(r.randint(4, 12)):
            op = r.choice(["getname", "getname", "setname", "setslice", "int", "slice", "view", "copy", "deepcopy", "pickle", "pickle"])
            trace.append(op)
            n_steps += 1
            try:
                if op == "getname":
                    g = r.choice(gen)
                    sp = r.choice(spell[g])
                    got = numpy.asarray(arr[sp]).tolist()
                    if got != model[names[gen.index(g)]].tolist():
                        problems.append(("history:getname", f"{fl}:{sig} after {trace}: arr[{sp!r}] = {got}, the stored column is {model[names[gen.index(g)]].tolist()}"))
                        break
                elif op == "setname":
                    g = r.choice(gen)
                    sp = r.choice(spell[g])
                    newv = numpy.array([r.uniform(0.5, 3.0) for _ in range(len(model))])
                    arr[sp] = newv
                    model[names[gen.index(g)]] = newv
                elif op == "setslice":
                    i = r.randrange(len(model) - 1)
                    arr[i:i + 1] = arr[i + 1:i + 2]
                    model[i:i + 1] = model[i + 1:i + 2]
                elif op == "int":
                    k = r.randrange(len(model))
                    e = arr[k]
                    if [float(x) for x in C.stored(e)] != [float(model[k][nm_]) for nm_ in names] or C.sig_of(e) != tuple(sig):
                        problems.append(("history:int-index", f"{fl}:{sig} after {trace}: arr[{k}] = {e!r}, the record is {model[k]}"))
                        break
                elif op == "slice":
                    arr = arr[:]
                    model = model[:]
                elif op == "view":
                    arr = arr.view(cls)
                elif op == "copy":
                    arr, model = arr.copy(), model.copy()
                elif op == "deepcopy":
                    arr, model = copy.deepcopy(arr), model.copy()
                elif op == "pickle":
                    arr, model = pickle.loads(pickle.dumps(arr)), model.copy()
            except Exception as ex:  # noqa: BLE001
                problems.append((f"history-raises:{op}", f"{fl}:{sig} after {trace}: {type(ex).__name__}: {str(ex)[:80]}"))
                break
            raw = arr.view(numpy.ndarray)
            if type(arr) is not cls or raw.dtype != model.dtype or raw.tobytes() != model.tobytes():
                problems.append((f"history:state:{op}", f"{fl}:{sig} after {trace}: class {type(arr).__name__}, records {raw.tolist()[:2]} vs reference {model.tolist()[:2]}"))
                break
            stale = [sp for g in gen for sp in spell[g] if numpy.asarray(arr[sp]).tolist() != model[names[gen.index(g)]].tolist()]
            if stale:
                problems.append((f"history:column:{op}", f"{fl}:{sig} after {trace}: arr[{stale[0]!r}] = {numpy.asarray(arr[stale[0]]).tolist()} is not the stored column"))
                break
    return problems, n_steps


# ------------------------------------------------------------------------------------------------ global state (C20)
def gsnap():
    beh = ak.behavior
    return (tuple(sorted(numpy.geterr().items())), tuple((f[0], str(f[1]), f[2].__name__, str(f[3]), f[4]) for f in warnings.filters),
            tuple(sorted((k, str(v)) for k, v in numpy.get_printoptions().items())), len(beh), hash(tuple(sorted(map(str, beh.keys())))),
            getattr(vector, "_awkward_registered", None))


def module_state():
    """fingerprint of every module-level mutable container (dict / list / set / bytearray) of the `vector` package: a call that
    writes into one of them (a cache, a memo table, a registry) leaves a trace in process-wide state"""
    import importlib
    import pkgutil
    import sys
    for mi in pkgutil.walk_packages(vector.__path__, "vector."):        # lazily imported submodules are not "state": load them all first
        if mi.name not in sys.modules and "numba" not in mi.name:
            try:
                importlib.import_module(mi.name)
            except Exception:  # noqa: BLE001
                pass
    out = {}
    for mname, mod in sorted(sys.modules.items()):
        if not (mname == "vector" or mname.startswith("vector.")) or mod is None:
            continue
        for k, v in sorted(vars(mod).items()):
            if k.startswith("__") or isinstance(v, type(sys)):
                continue
            if isinstance(v, dict):
                out[f"{mname}.{k}"] = ("dict", len(v), hash(tuple(sorted(map(repr, v.keys())))))
            elif isinstance(v, (list, set, frozenset, bytearray)):
                try:
                    out[f"{mname}.{k}"] = (type(v).__name__, len(v), hash(tuple(sorted(map(repr, v)))) if isinstance(v, (set, frozenset)) else hash(tuple(map(repr, v))))
                except Exception:  # noqa: BLE001
                    out[f"{mname}.{k}"] = (type(v).__name__, len(v), 0)
    return out


def _sympy_vec(dim):
    import sympy
    import vector.backends.sympy as vs
    x, y, z, t = sympy.symbols("x y z t", real=True)
    return {2: lambda: vs.VectorSympy2D(x=x, y=y), 3: lambda: vs.VectorSympy3D(x=x, y=y, z=z), 4: lambda: vs.VectorSympy4D(x=x, y=y, z=z, t=t)}[dim]()


def catalogue(r, tier):
    """list of (name, thunk) public calls, returning and raising, on all backends, incl. singular inputs"""
    out = []
    sigs = C.ALLSIGS if tier == "thorough" else r.sample(C.ALLSIGS, 6)
    for sig in sigs:
        dim = len(sig) + 1
        fl = r.choice("gm")
        rows = operands(r, dim, fl, sig, n=4)
        zero = [0.0] * len(rows[0])
        mk = {"obj": lambda rows=rows: C.obj_vec(fl, sig, rows[0]), "np": lambda rows=rows: C.np_array(fl, sig, rows + [zero]),
              "ak": lambda rows=rows: C.ak_array(fl, sig, rows + [zero]), "obj0": lambda: C.obj_vec(fl, sig, zero)}
        other2 = C.SIGS[2][0]
        for tag, f in mk.items():
            for m in UN_SCALAR + ["unit", "to_xyz", "to_rhophieta", "costheta", "cottheta", "gamma"]:
                out.append((f"{tag}:{sig}:{m}", (lambda f=f, m=m: (lambda a: a() if callable(a) else a)(getattr(f(), m)))))
            out.append((f"{tag}:{sig}:add-self", lambda f=f: f().add(f())))
            out.append((f"{tag}:{sig}:add-wrong-dim", lambda f=f: f().add(C.obj_vec("g", other2, [1.0, 2.0]) if dim != 2 else C.obj_vec("g", ("xy", "z"), [1.0, 2.0, 3.0]))))
            out.append((f"{tag}:{sig}:scale", lambda f=f: f() * 2.5))
            out.append((f"{tag}:{sig}:eq", lambda f=f: f() == f()))
            out.append((f"{tag}:{sig}:construct-bad", lambda: vector.obj(x=1.0)))
            # REJECTED calls of every two-vector method (and the secondary-argument ones): wrong dimension, a non-vector, a vector of an
            # incompatible backend (SymPy), arrays of mismatching length, a bad keyword / order string - whether a call returns or raises,
            # and wherever inside the call it raises, the process-wide state is as before
            bads = {"wrong-dim": lambda: C.obj_vec("g", other2, [1.0, 2.0]) if dim != 2 else C.obj_vec("g", ("xy", "z"), [1.0, 2.0, 3.0]),
                    "number": lambda: 1.5, "none": lambda: None, "string": lambda: "x",
                    "sympy": lambda: _sympy_vec(dim), "sympy3": lambda: _sympy_vec(3),
                    "short-array": lambda: C.np_array("g", sig, rows[:2]), "short-awkward": lambda: C.ak_array("g", sig, rows[:3])}
            combos = [(m, bname) for m in BIN_ALL + ["rotate_axis", "boost_beta3", "boostCM_of_beta3"] for bname in bads]
            if tier != "thorough":
                # quick tier: every (method, kind of bad operand) pair once across the operand groups (round robin)
                ngroups = len(sigs) * len(mk)
                gi = sigs.index(sig) * len(mk) + list(mk).index(tag)
                combos = [c for j, c in enumerate(combos) if j % ngroups == gi]
            for m, bname in combos:
                mkbad = bads[bname]
                if True:
                    if m == "rotate_axis":
                        out.append((f"{tag}:{sig}:{m}:rejected-{bname}", lambda f=f, m=m, mkbad=mkbad: getattr(f(), m)(mkbad(), 0.3)))
                    else:
                        out.append((f"{tag}:{sig}:{m}:rejected-{bname}", lambda f=f, m=m, mkbad=mkbad: getattr(f(), m)(mkbad())))
            out.append((f"{tag}:{sig}:rotate_euler:bad-order", lambda f=f: f().rotate_euler(0.1, 0.2, 0.3, "xqz")))
            out.append((f"{tag}:{sig}:to_Vector4D:bad-keyword", lambda f=f: f().to_Vector4D(bogus=1.0)))
            out.append((f"{tag}:{sig}:to_Vector3D:two-keywords", lambda f=f: f().to_Vector3D(z=1.0, eta=0.5)))
            out.append((f"{tag}:{sig}:scale:string", lambda f=f: f().scale("k")))
            out.append((f"{tag}:{sig}:mul-vector", lambda f=f: f() * f()))
            out.append((f"{tag}:{sig}:boostX:both", lambda f=f: f().boostX(beta=0.1, gamma=2.0)))
    out.append(("ctor:array", lambda: vector.array({"x": [1.0, 2.0], "y": [3.0, 4.0]})))
    out.append(("ctor:zip", lambda: vector.zip({"pt": [1.0, 2.0], "phi": [3.0, 4.0], "eta": [0.1, 0.2], "mass": [0.0, 1.0]})))
    out.append(("ctor:Array", lambda: vector.Array([{"x": 1.0, "y": 2.0}])))
    out.append(("ctor:Array-with-behavior", lambda: vector.Array(ak.Array([{"x": 1.0, "y": 2.0}], behavior=ak.behavior))))
    out.append(("ctor:Array-own-behavior", lambda: vector.Array(ak.Array([{"x": 1.0, "y": 2.0}], behavior={"k": 1}))))
    out.append(("ctor:obj", lambda: vector.obj(px=1.0, py=2.0, pz=3.0, E=4.0)))
    out.append(("repr", lambda: repr(vector.array({"x": [1.0], "y": [2.0]}))))
    # constructors with several extra (non-coordinate) fields, the same names in different orders in different calls
    out.append(("ctor:array-extras-ab", lambda: vector.array({"x": [1.0], "y": [2.0], "weight": [4.0], "charge": [3.0]})))
    out.append(("ctor:array-extras-ba", lambda: vector.array({"charge": [-1.0], "weight": [0.5], "x": [10.0], "y": [1.0], "z": [2.0]})))
    out.append(("ctor:zip-extras-ab", lambda: vector.zip({"pt": [1.0], "phi": [2.0], "weight": [4.0], "charge": [3.0]})))
    out.append(("ctor:zip-extras-ba", lambda: vector.zip({"charge": [3.0], "weight": [4.0], "pt": [1.0], "phi": [2.0]})))
    out.append(("ctor:Array-extras", lambda: vector.Array([{"q": 1, "x": 1.0, "flag": True, "y": 2.0}])))
    out.append(("ctor:obj-spellings", lambda: (vector.obj(pt=1.0, phi=2.0, eta=0.5, M=0.1), vector.obj(x=1.0, y=2.0, theta=0.5, e=9.0))))
    return out


def result_bits(x):
    try:
        if isinstance(x, vector.backends.object.VectorObject):
            return ("o", type(x).__name__, tuple(repr(c) for c in C.stored(x)))
        if isinstance(x, numpy.ndarray):
            return ("n", type(x).__name__, str(x.dtype), x.shape, x.tobytes())
        if isinstance(x, (ak.Array, ak.Record)):
            return ("a", type(x).__name__, str(ak.type(x)), str(ak.to_list(x)))
        if isinstance(x, tuple):
            return tuple(result_bits(y) for y in x)
        return ("s", repr(x))
    except Exception as e:  # noqa: BLE001
        return ("err", type(e).__name__)


def run_thunk(t):
    try:
        return result_bits(t())
    except Exception as e:  # noqa: BLE001
        return ("raised", type(e).__name__)


HISTORY_CODE = r"""
import sys, json, hashlib
sys.path.insert(0, %r); sys.path.insert(0, %r)
from harness import arrays, common as C
cat = arrays.catalogue(C.rng(%d, "c20"), %r)
order = list(range(len(cat)))
if %r == "backward":
    order.reverse()
out = {}
for i in order:
    out[i] = hashlib.sha256(repr(arrays.run_thunk(cat[i][1])).encode()).hexdigest()[:16]
print("JSON" + json.dumps([[cat[i][0], out[i]] for i in range(len(cat))]))
"""


def history_probe(seed, tier):
    import json
    import subprocess
    import sys
    res = {}
    for direction in ("forward", "backward"):
        p = subprocess.run([sys.executable, "-c", HISTORY_CODE % (C.VERIF, C.VERIF + "/tools", seed, tier, direction)], capture_output=True, text=True, timeout=1200)
        line = [l for l in p.stdout.splitlines() if l.startswith("JSON")]
        if not line:
            raise RuntimeError("history probe failed: " + p.stderr[-400:])
        res[direction] = json.loads(line[0][4:])
    out = []
    for (name, a_), (_, b_) in zip(res["forward"], res["backward"]):
        if a_ != b_:
            out.append((f"history:{name.split(':')[0]}:{name.split(':')[-1]}", f"call {name} gives a different result when the catalogue runs backwards in a fresh interpreter "
                        f"(result fingerprint {a_} vs {b_}): it depends on what ran before it"))
    return out[:3]


BEHAVIOR_CODE = r"""
import sys, json
sys.path.insert(0, %r); sys.path.insert(0, %r)
import numpy, awkward as ak, vector
out = []
def keys(d):
    return sorted(map(repr, d.keys()))
reg0 = keys(vector.backends.awkward.behavior)
glob0 = keys(ak.behavior)
fresh = lambda: vector.Array([{"x": 3.0, "y": 4.0}, {"x": 6.0, "y": 8.0}])
r0 = ak.to_list(abs(fresh()))
f0 = sorted(map(repr, fresh().behavior.keys()))
# a caller-owned behavior with a private entry AND an override of an entry vector defines itself
user = {"my-private-key": 1, (numpy.absolute, "Vector2D"): (lambda v: 7.0 * v.x), ("*", "MyRecord"): ak.Record}
u0 = keys(user)
for data, kw in (([{"x": 1.0, "y": 2.0, "z": 3.0}], {}), ([{"x": 1.0, "y": 2.0}], {}), ([{"rho": 1.0, "phi": 2.0, "eta": 0.5, "tau": 4.0}], {})):
    a = ak.Array(data, behavior=user)
    for ctor in (lambda: vector.Array(a), lambda: vector.awk(a), lambda: vector.zip({f: a[f] for f in ak.fields(a)}), lambda: vector.Array(data, behavior=user)):
        try:
            ctor()
        except Exception as e:
            pass
    if keys(user) != u0:
        out.append(["global-state:caller-behavior", "a constructor changed the behavior mapping the caller passed in: " + str(sorted(set(keys(user)) ^ set(u0)))[:200]])
    if keys(ak.behavior) != glob0:
        out.append(["global-state:ak.behavior", "a constructor changed awkward's global behavior registry without register_awkward(): " + str(sorted(set(keys(ak.behavior)) ^ set(glob0)))[:200]])
    if keys(vector.backends.awkward.behavior) != reg0:
        out.append(["global-state:vector-registry", "a constructor wrote into vector's own behavior registry: " + str(sorted(set(keys(vector.backends.awkward.behavior)) ^ set(reg0)))[:200]])
    r1 = ak.to_list(abs(fresh()))
    f1 = sorted(map(repr, fresh().behavior.keys()))
    if r1 != r0 or f1 != f0:
        out.append(["history:constructor-behavior", "abs() of a FRESH vector array is %%s after an unrelated constructor call on an array with its own behavior (before: %%s); foreign behavior keys on the fresh array: %%s" %% (r1, r0, sorted(set(f1) - set(f0))[:3])])
vector.register_awkward()
g1 = set(keys(ak.behavior)) - set(glob0) - set(reg0)
if g1:
    out.append(["global-state:register_awkward", "register_awkward() put foreign entries into ak.behavior: " + str(sorted(g1))[:200]])
n1 = len(ak.behavior)
vector.register_awkward()
if len(ak.behavior) != n1:
    out.append(["global-state:register_awkward", "register_awkward() is not idempotent"])
print("JSON" + json.dumps(out))
"""


def behavior_isolation_probe():
    """in a FRESH interpreter where register_awkward() has not been called: constructors applied to Awkward arrays that carry their own
    behavior mapping (with a private key and an override of an entry vector defines) leave the caller's mapping, awkward's global registry
    and vector's own registry unchanged, and a later unrelated constructor call gives the same result as before"""
    import json
    import subprocess
    import sys
    p = subprocess.run([sys.executable, "-c", BEHAVIOR_CODE % (C.VERIF, C.VERIF + "/tools")], capture_output=True, text=True, timeout=600)
    line = [l for l in p.stdout.splitlines() if l.startswith("JSON")]
    if not line:
        return [("behavior-probe-harness", "subprocess failed: " + p.stderr[-300:])]
    seen, out = set(), []
    for k, d in json.loads(line[0][4:]):
        if k not in seen:
            seen.add(k)
            out.append((k, d))
    return out


def c20_run(ctx):
    r = C.rng(ctx.seed, "c20")
    problems, samples = [], []
    cat = catalogue(r, ctx.tier)
    n = 0
    user_behavior = {"k": 1}
    # module-level mutable state of the package (caches, memo tables, registries): fingerprint BEFORE anything runs, checked after the
    # whole catalogue has run (below)
    m0 = module_state()
    for setting in ({"all": "warn"}, {"all": "raise"}, {"divide": "ignore", "invalid": "raise", "over": "warn", "under": "ignore"}):
        old = numpy.seterr(**setting)
        warnings.simplefilter("error", RuntimeWarning)
        try:
            for name, t in cat:
                before = gsnap()
                run_thunk(t)
                n += 1
                after = gsnap()
                if after != before:
                    which = [lbl for lbl, a_, b_ in zip(("numpy.geterr", "warnings.filters", "printoptions", "len(ak.behavior)", "ak.behavior keys", "vector._awkward_registered"), before, after) if a_ != b_]
                    problems.append((f"global-state:{name.split(':')[0]}:{name.split(':')[-1]}", f"call {name} under seterr{setting} changed {which}"))
                    break
        finally:
            warnings.filters.pop(0) if warnings.filters and warnings.filters[0][2] is RuntimeWarning and warnings.filters[0][0] == "error" else None
            numpy.seterr(**old)
    m1 = module_state()
    changed_state = [f"{k}: {m0[k]} -> {m1[k]}" for k in sorted(set(m0) & set(m1)) if m0[k] != m1[k]]
    # history independence: the catalogue run forwards and backwards in two FRESH interpreters gives the same result for every call
    hist = history_probe(ctx.seed, ctx.tier)
    problems += hist
    # a module-level container that grows is only a VIOLATION together with an observable effect (a call whose result depends on what ran
    # before): a pure memo table leaves results alone and is not process-wide state in the sense of the property; it is reported as a note
    if changed_state and hist:
        problems.append(("module-state:" + changed_state[0].split(":")[0], "module-level containers changed while the catalogue ran: " + "; ".join(changed_state)[:300]))
    elif changed_state and hasattr(ctx, "notes"):
        ctx.notes.append("module-level containers changed while the catalogue ran (no call result depends on it): " + "; ".join(changed_state)[:300])
    # a caller-owned behavior mapping handed to vector.Array must not be mutated
    b0 = dict(user_behavior)
    try:
        vector.Array(ak.Array([{"x": 1.0, "y": 2.0}], behavior=user_behavior))
    except Exception:  # noqa: BLE001
        pass
    if user_behavior != b0:
        problems.append(("global-state:caller-behavior", "vector.Array mutated the behavior mapping of its input array"))
    problems += behavior_isolation_probe()
    # thread determinism
    seq = [run_thunk(t) for _, t in cat]
    nthreads = 16
    results = [None] * nthreads

    def worker(i):
        results[i] = [run_thunk(t) for _, t in cat]
    ths = [threading.Thread(target=worker, args=(i,)) for i in range(nthreads)]
    for t_ in ths:
        t_.start()
    for t_ in ths:
        t_.join()
    for i, res in enumerate(results):
        if res != seq:
            j = [a_ != b_ for a_, b_ in zip(res, seq)].index(True)
            problems.append(("threads", f"thread {i}: call {cat[j][0]} gives {str(res[j])[:80]} but sequentially {str(seq[j])[:80]}"))
            break
    # threads running the SAME operations with DIFFERENT scalar / object arguments (a value leaking from one thread into another
    # shows up only then), under a very short switch interval, several rounds; each thread's results must equal its own sequential ones
    import sys as _sys
    def thread_ops(i):
        k = 1.5 + 0.25 * i
        ang = 0.1 + 0.07 * i
        o2, o3, o4 = vector.obj(x=1.0 + i, y=-0.5 * i), vector.obj(x=1.0 + i, y=-0.5 * i, z=0.25 * i), vector.obj(x=1.0 + i, y=-0.5 * i, z=0.25 * i, t=20.0 + i)
        rows = {2: [[1.0, 2.0], [3.0, -1.0], [0.5, 0.25]], 3: [[1.0, 2.0, 3.0], [3.0, -1.0, 0.5], [0.5, 0.25, -2.0]],
                4: [[1.0, 2.0, 3.0, 10.0], [3.0, -1.0, 0.5, 12.0], [0.5, 0.25, -2.0, 9.0]]}
        ops = []
        for d, o in ((2, o2), (3, o3), (4, o4)):
            sig = C.CARTSIG[d]
            for tag, mk in (("np", C.np_array), ("ak", C.ak_array), ("akj", lambda fl, sg, rw: ak.unflatten(C.ak_array(fl, sg, rw), [2, 0, 1]))):
                a = mk("g", sig, rows[d])
                ops += [(f"{tag}{d}:scale", lambda a=a: a.scale(k)), (f"{tag}{d}:rotateZ", lambda a=a: a.rotateZ(ang)), (f"{tag}{d}:add-object", lambda a=a, o=o: a + o),
                        (f"{tag}{d}:mul", lambda a=a: a * k)]
                if d == 4:
                    ops += [(f"{tag}4:boostX", lambda a=a: a.boostX(beta=0.05 * (i + 1))), (f"{tag}4:boost-object", lambda a=a, o=o: a.boost_p4(o))]
                if d == 2:
                    ops.append((f"{tag}2:to_Vector3D", lambda a=a: a.to_Vector3D(z=0.5 + i)))
            ops.append((f"obj{d}:scale", lambda o=o: o.scale(k)))
        return ops
    nt2, rounds = 8, (12 if ctx.tier == "quick" else 60)
    expected = [[run_thunk(t) for _, t in thread_ops(i)] for i in range(nt2)]
    names_ = [nm for nm, _ in thread_ops(0)]
    mism = []
    old_si = _sys.getswitchinterval()
    _sys.setswitchinterval(1e-5)
    try:
        def worker2(i):
            ops = thread_ops(i)
            for _ in range(rounds):
                for j, (_, t) in enumerate(ops):
                    if run_thunk(t) != expected[i][j]:
                        mism.append((i, j))
        ths2 = [threading.Thread(target=worker2, args=(i,)) for i in range(nt2)]
        for t_ in ths2:
            t_.start()
        for t_ in ths2:
            t_.join()
    finally:
        _sys.setswitchinterval(old_si)
    if mism:
        i, j = mism[0]
        problems.append((f"threads-distinct-arguments:{names_[j]}", f"{len(mism)} results of {nt2} threads x {rounds} rounds differ from the thread's own sequential result; "
                         f"first: thread {i}, call {names_[j]} (threads run the same operations with different scalar / object arguments)"))
    samples = [{"call": cat[i][0], "result": str(seq[i])[:120]} for i in (0, len(cat) // 2, len(cat) - 1)]
    sp, nd = c20_bracket_structure()
    problems += sp
    return problems, {"calls_with_global_snapshot": n, "catalogue": len(cat), "threads": nthreads, "dispatch_brackets_checked": nd}, samples


# ------------------------------------------------------------------------------------------------ structural ties (source <-> model)
def awkward_exclusion_tuples():
    """the literal tuples of field names excluded from pass-through in the five vector-returning branches of
    VectorAwkward._wrap_result (source order), extracted from the CURRENT source by AST"""
    import ast
    import inspect
    import vector.backends.awkward as VA
    src = inspect.getsource(VA.VectorAwkward._wrap_result)
    import textwrap
    tree = ast.parse(textwrap.dedent(src))
    out = []
    for node in ast.walk(tree):
        if isinstance(node, ast.Compare) and len(node.ops) == 1 and isinstance(node.ops[0], ast.NotIn) and isinstance(node.comparators[0], ast.Tuple):
            elts = node.comparators[0].elts
            if elts and all(isinstance(e, ast.Constant) and isinstance(e.value, str) for e in elts):
                out.append((node.lineno, [e.value for e in elts]))
    return [t for _, t in sorted(out)]


def lean_exclusion_lists():
    import re
    text = open(C.VERIF + "/lean/VectorModel/Glue/Awkward.lean").read()
    out = {}
    for name in ("exclAz", "exclAzLon", "exclAll"):
        m = re.search(r"def %s : List String :=\s*\[(.*?)\]" % name, text, flags=re.S)
        out[name] = re.findall(r'"([^"]+)"', m.group(1)) if m else None
    return out


def c18_transcription():
    """the Lean model's literal exclusion lists are the source's literal tuples (branch order: az, azNone, azLon, azLonNone, azLonTmp)"""
    src = awkward_exclusion_tuples()
    lean = lean_exclusion_lists()
    want = [lean["exclAz"], lean["exclAll"], lean["exclAzLon"], lean["exclAll"], lean["exclAll"]]
    problems = []
    if len(src) != 5:
        problems.append(("awkward-wrap-structure", f"_wrap_result has {len(src)} exclusion tuples, the model transcribes 5 branches"))
    else:
        for i, (a, b) in enumerate(zip(src, want)):
            if a != b:
                problems.append((f"awkward-exclusion-tuple:{i}", f"branch {i} of VectorAwkward._wrap_result excludes {a}; the Lean model (Glue/Awkward.lean) has {b}"))
    return problems


def c20_bracket_structure():
    """every `dispatch()` of the compute layer wraps its work in `with numpy.errstate(all="ignore")`, and nothing in src/vector touches
    process-wide state outside register_awkward / register_numba (AST scan of the CURRENT source)"""
    import ast
    import glob
    import os
    import vector
    root = os.path.dirname(vector.__file__)
    problems, n = [], 0
    for f in sorted(glob.glob(os.path.join(root, "_compute", "*", "*.py"))):
        if f.endswith("__init__.py"):
            continue
        tree = ast.parse(open(f).read())
        fns = [x for x in tree.body if isinstance(x, ast.FunctionDef) and x.name == "dispatch"]
        if len(fns) != 1:
            problems.append(("dispatch-structure", f"{os.path.relpath(f, root)}: {len(fns)} dispatch functions"))
            continue
        n += 1
        body = [s for s in fns[0].body if not (isinstance(s, ast.Expr) and isinstance(s.value, ast.Constant))]
        withs = [s for s in body if isinstance(s, ast.With)]
        ok = len(withs) == 1 and ast.unparse(withs[0].items[0].context_expr) == "numpy.errstate(all='ignore')" and \
            all(isinstance(s, (ast.With, ast.Assign)) for s in body)
        # the compute call (`_wrap_dispatched_function(function)(...)`) must be inside the bracket
        inside = any(isinstance(c, ast.Attribute) and c.attr == "_wrap_dispatched_function" for w in withs for c in ast.walk(w))
        outside = any(isinstance(c, ast.Attribute) and c.attr == "_wrap_dispatched_function" for s in body if not isinstance(s, ast.With) for c in ast.walk(s))
        if not ok or not inside or outside:
            problems.append((f"errstate-bracket:{os.path.basename(os.path.dirname(f))}.{os.path.basename(f)[:-3]}",
                             f"{os.path.relpath(f, root)}: dispatch() does not wrap its compute call in `with numpy.errstate(all='ignore')`"))
    bad_calls = ("seterr", "seterrcall", "set_printoptions", "simplefilter", "filterwarnings", "resetwarnings", "setbufsize")
    for f in sorted(glob.glob(os.path.join(root, "**", "*.py"), recursive=True)):
        tree = ast.parse(open(f).read())
        for node in ast.walk(tree):
            if isinstance(node, ast.Call):
                name = node.func.attr if isinstance(node.func, ast.Attribute) else getattr(node.func, "id", "")
                if name in bad_calls:
                    problems.append((f"global-call:{name}", f"{os.path.relpath(f, root)}:{node.lineno}: call of {name}"))
    return problems, n
