"""C09 — boosts are Lorentz transformations with the documented relations"""
from harness._compute import search_with, sym_correspondence

PROPERTY = "C09"
LEAN_TARGETS = ['VectorModel.Props.C09']
THEOREM_FILES = ['VectorModel/Props/C09.lean']
NOT_COVERED = ['float64 rounding']
ALWAYS_SEARCH = True          # the law sweep on the real code is cheap: run it in every tier (exploration, not proof)
search = search_with("c09")
correspondence = sym_correspondence(['boost', 'boost_p4', 'boost_beta3', 'boostX', 'boostY', 'boostZ', 'boostCM_of', 'boostCM_of_p4', 'boostCM_of_beta3', 'to_beta3'], 'c09')
