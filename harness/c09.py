"""C09 — boosts are Lorentz transformations with the documented relations"""
from harness._compute import search_with, sym_correspondence

PROPERTY = "C09"
LEAN_TARGETS = ['VectorModel.Props.C09', 'VectorModel.Refine.LorentzSigned', 'VectorModel.Refine.LorentzSigned2', 'VectorModel.Props.MethodLorentz', 'VectorModel.Props.C09Comm']
THEOREM_FILES = ['VectorModel/Props/C09.lean', 'VectorModel/Refine/LorentzSigned.lean', 'VectorModel/Refine/LorentzSigned2.lean', 'VectorModel/Props/MethodLorentz.lean', 'VectorModel/Props/C09Comm.lean']
NOT_COVERED = ['float64 rounding']
ALWAYS_SEARCH = True          # the law sweep on the real code is cheap: run it in every tier (exploration, not proof)
search = search_with("c09")
correspondence = sym_correspondence(['boost', 'boost_p4', 'boost_beta3', 'boostX', 'boostY', 'boostZ', 'boostCM_of', 'boostCM_of_p4', 'boostCM_of_beta3', 'to_beta3'], 'c09')


_base_corr = correspondence


def correspondence(ctx):
    """+ keyword call = positional call in the documented order for every boost* method (object, NumPy, Awkward)"""
    from harness import backends, c05
    out = _base_corr(ctx)
    kbad, kst = backends.keyword_lattice(ctx)
    out["stats"].update(kst)
    seen = set()
    for a_, b_, k_ in kbad:
        if k_.split(":")[-1].startswith("boost") and k_ not in seen:
            seen.add(k_)
            out["disagreements"].append(f"signature: {a_} :: {b_}"[:300])
            out["failing_inputs"].append({"key": k_, "what": f"{a_}: {b_}"[:400], "code": c05.keyword_replay(ctx.seed, ctx.tier, k_)})
    # the same spellings inside numba-compiled code (subset of the C07 API sweep)
    from harness import c07
    ndis, nfails, nexpr = c07.api_subset(ctx, lambda e: ".boost" in e, "boost")
    out["disagreements"] += ndis[:6]
    out["failing_inputs"] += nfails[:3]
    out["stats"]["numba_expressions"] = nexpr
    out["ok"] = out["ok"] and not seen and not ndis
    return out
