"""C15 — in-place updates of object vectors match their functional equivalents"""
from harness import common as C

PROPERTY = "C15"
LEAN_TARGETS = ["VectorModel.Props.C15", "VectorModel.Props.MethodState"]
THEOREM_FILES = ["VectorModel/Props/C15.lean", "VectorModel/Props/MethodState.lean"]
NOT_COVERED = ["object identity itself (checked on the real objects by the harness: id() and type() before/after every step)",
               "the SymPy backend's own _replace_data (mirror of the object backend; not separately driven)"]


def correspondence(ctx):
    from harness import symobj
    r = C.rng(ctx.seed, "c15")
    n, maxlen = (300, 12) if ctx.tier == "quick" else (3000, 40)
    pairs = symobj.histories(r, n, maxlen)
    bad = symobj.run_histories(pairs)
    ident = [(q, a) for q, a in pairs if "IdentityOrClassChanged" in a]
    dis = [f"{q} : real={a[:120]} model={b[:120]}" for q, a, b in bad[:10]] + [f"{q}: {a[:80]}" for q, a in ident[:3]]
    fails = [{"key": "step:" + q.split()[2].rsplit("/", 1)[0] + ":" + q.split()[1].split(":", 1)[1].rsplit(":", 1)[0],
              "what": f"after `{q}` the object is {a[:150]}; the state machine gives {b[:150]}", "code": replay(q, b)} for q, a, b in bad[:3]]
    kinds = {}
    for q, a in pairs:
        k = q.split()[2].split("/")[0] + ("!" if a.startswith("!!") else "")
        kinds[k] = kinds.get(k, 0) + 1
    return {"ok": not bad and not ident, "disagreements": dis, "failing_inputs": fails,
            "stats": {"traces_validated_against_impl": len(pairs), "histories": n, "max_length": maxlen, "step_kinds": kinds},
            "samples": [{"step": q, "state_after": a[:200]} for q, a in pairs[:3]]}


def replay(q, expected):
    return ("import sys; sys.path.insert(0, %r); sys.path.insert(0, %r)\nfrom harness import symobj\n"
            "got = symobj.real_step(%r)\nassert got == %r, 'real object after the step: ' + got[:300]\n" % (C.VERIF, C.VERIF + "/tools", q, expected))
