#!/bin/sh
# Build the framework from files on disk only (offline). Run once after a fresh restore; cwd = /verif.
set -e
cd "$(dirname "$0")"
/venv/bin/python tools/translate.py
cd lean
lake build VectorModel.Gen.Exec.All VectorModel.Exec.Sym VectorModel.Exec.FloatInst VectorModel.Gen.Real.All
lake build $(ls VectorModel/Props/*.lean | sed 's/\.lean$//; s#/#.#g')
