#!/bin/sh
# Build the framework from files on disk only (offline). Run once after a fresh restore; cwd = /verif.
set -e
cd "$(dirname "$0")"
/venv/bin/python tools/translate.py
TARGETS=$(/venv/bin/python - <<'PY'
import json, importlib, sys
sys.path.insert(0, "."); sys.path.insert(0, "tools")
t = []
for c in json.load(open("MANIFEST.json"))["checks"]:
    try:
        H = importlib.import_module("harness." + c["property_id"].lower())
        t += list(H.LEAN_TARGETS) + list(getattr(H, "FINDINGS_TARGETS", []))
    except Exception as e:
        print("setup: no harness for", c["property_id"], e, file=sys.stderr)
print(" ".join(dict.fromkeys(t)))
PY
)
cd lean
lake build VectorModel.Gen.Exec.All VectorModel.Exec.Sym VectorModel.Exec.FloatInst VectorModel.Glue.Methods VectorModel.Gen.Real.All
# theorem files of the claimed checks (a failure here is reported by the check itself, not by setup)
lake build $TARGETS || echo "setup: some theorem targets did not build; the corresponding checks will report it"
