#!/bin/sh
# Run checks against a seeded change WITHOUT touching /repo or /verif's build: scratch copy of /verif + scratch worktree of /repo.
# usage: tools/trial.sh <patch.diff> <Cxx> [<Cyy> ...]
set -u
PATCH="$(realpath "$1")"; shift
T=/var/tmp/vtrial-$(basename $(dirname $PATCH))
mkdir -p $T
rsync -a --delete --exclude .git --exclude replays --exclude evidence /verif/ $T/verif/
git -C /repo worktree remove --force $T/repo 2>/dev/null
git -C /repo worktree add -q --detach $T/repo HEAD || exit 2
cp /repo/src/vector/_version.py $T/repo/src/vector/_version.py 2>/dev/null
git -C $T/repo apply "$PATCH" || { echo "patch does not apply"; exit 2; }
cd $T/verif
mkdir -p evidence replays
RC=0
for P in "$@"; do
  echo "=== $P against $(basename $(dirname $PATCH))"
  VERIF_REPO=$T/repo PYTHONPATH=$T/repo/src ./check $P 2>&1 | grep -v "^BROKEN" | tail -6
done
git -C /repo worktree remove --force $T/repo
rm -rf $T
