#!/usr/bin/env python3
"""Prepare a scratch worktree for a seeding sub-agent and print the prompt it is given.

usage: tools/seedprompt.py <Cxx> <name> "<area hint>"
The agent sees only the property text and its own worktree (nothing from /verif)."""
import json, os, subprocess, sys

V = os.path.dirname(os.path.dirname(os.path.abspath(__file__)))
pid, name, hint = sys.argv[1], sys.argv[2], sys.argv[3]
prop = next(json.loads(l) for l in open(os.path.join(V, "properties.jsonl")) if json.loads(l)["id"] == pid)
wt = f"/tmp/seed/{name}"
os.makedirs("/tmp/seed", exist_ok=True)
subprocess.run(["git", "-C", "/repo", "worktree", "remove", "--force", wt], capture_output=True)
subprocess.run(["git", "-C", "/repo", "worktree", "add", "-q", "--detach", wt, "HEAD"], check=True)
subprocess.run(["cp", "/repo/src/vector/_version.py", wt + "/src/vector/_version.py"], check=True)
print(f"""You are helping to evaluate a verification effort for the Python library scikit-hep/vector (2D/3D/Lorentz vectors over object, NumPy, Awkward, Numba and SymPy backends). Your job: plant ONE realistic, subtle defect in the library that breaks a stated semantic property while the library still imports and its existing test suite still passes.

Work ONLY inside the git worktree {wt} (a full checkout of the library at the commit under study; the source is under {wt}/src/vector, tests under {wt}/tests). Do NOT read, list or modify anything under /verif or /repo, and do not commit anything. Run Python as `cd {wt} && PYTHONPATH={wt}/src /venv/bin/python ...` so that your modified copy is the one imported (check with `python -c "import vector; print(vector.__file__)"`).

The property (this text is all you get about it):

  {pid} - {prop['title']}
  {prop['statement']}

What I want:
1. A small change (typically 1-5 lines, one or two sites) to files under {wt}/src/vector that makes the property FALSE for some inputs, yet looks like a plausible slip or a well-meant refactoring a maintainer could make (copy-paste slip, wrong helper, off-by-one in a table, swapped argument, missing case, wrong default, stale cache, two sites that each look fine alone ...). Not a gross breakage.
2. It must need something SPECIFIC to manifest - a particular coordinate-system combination, backend pairing, flavor, unusual but legal input, a multi-step sequence of operations, or two cooperating sites - and must NOT be exposed at once by ordinary use. Area to aim at for this one: {hint}
3. The existing test suite must not notice: every test that passed before must still pass. Run it with
     cd {wt} && PYTHONPATH={wt}/src /venv/bin/python -m pytest -q -p no:cacheprovider --timeout=900 -n 6 tests 2>&1 | tail -15
   On the UNCHANGED tree exactly 20 tests fail (15 in tests/compute/sympy/lorentz/*, 5 in tests/test_notebooks.py) and 795 pass; with your change the set of failing tests must be the same 20 and 795 must pass. (Run the suite once BEFORE editing, saving the failing-test list, if you want to diff.)
4. A demonstration {wt}/demo.py: a small standalone program using only the public API of `vector` (plus numpy/awkward/numba/sympy as needed) that checks the property on the triggering input with asserts; it must exit 0 on the unchanged library and exit non-zero (AssertionError) with your change. Verify BOTH: run it with your change, then `git -C {wt} diff -- src > {wt}/p.diff; git -C {wt} apply -R {wt}/p.diff`, run it again, then restore your change with `git -C {wt} apply {wt}/p.diff`. NEVER use `git stash`: the stash is shared by all worktrees of the repository and other people work in sibling worktrees.
5. {wt}/meta.json with the keys: "property" ("{pid}"), "summary" (what was changed, where), "needs" (exactly what is required for the defect to manifest, and what ordinary uses are unaffected), "files" (list of changed files, relative), "tests_result" (the last line of pytest's output with your change).
6. Leave your change APPLIED (uncommitted) in the worktree, with demo.py and meta.json next to it, and finish with a short report: the diff, what the demo prints with and without the change, and the pytest summary line.

Rules: only edit library source under src/vector (not tests, not docs, not configuration); the defect must be a genuine behavioural violation of the property text above (not merely an exception on import, a performance change, or a change to a docstring); keep it deterministic. If your first idea is caught by the test suite, try another one. Do not spend time on anything else.""")
