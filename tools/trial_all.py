#!/usr/bin/env python3
"""Run every confirmed seeded change (seeded/<id>/patch.diff) against the checks recorded as catching it (tools/trial.sh, scratch
copies; /repo untouched), several at a time, and write seeded/SUMMARY.json: for each seed which checks reported a VIOLATION (with a
replay / no-failing-input-found).  usage: tools/trial_all.py [-j N] [ids...]   (VERIF_SEED is passed through)"""
import concurrent.futures as cf
import json, os, re, subprocess, sys
V = os.path.dirname(os.path.dirname(os.path.abspath(__file__)))


def checks_for(sid, meta):
    ran = meta.get("ran", {})
    txt = " ".join(str(ran.get(k, "")) for k in ("outcome_after", "outcome", "checks_run"))
    cs = re.findall(r"\bC\d\d\b", txt)
    prop = sid.split("-")[0]
    out = [prop] + [c for c in dict.fromkeys(cs) if c != prop]
    return out[:3]


def run(sid):
    d = os.path.join(V, "seeded", sid)
    meta = json.load(open(os.path.join(d, "meta.json")))
    checks = checks_for(sid, meta)
    p = subprocess.run([os.path.join(V, "tools", "trial.sh"), os.path.join(d, "patch.diff")] + checks, capture_output=True, text=True, timeout=7200)
    res, cur = {}, None
    for line in p.stdout.splitlines():
        m = re.match(r"=== (C\d+) against", line)
        if m:
            cur = m.group(1)
            res[cur] = "no violation reported"
        if cur and line.startswith("VIOLATION"):
            kind = "VIOLATION (no-failing-input-found)" if "no-failing-input-found" in line else "VIOLATION with replay"
            if res[cur] != "VIOLATION with replay":
                res[cur] = kind
    return sid, checks, res


if __name__ == "__main__":
    args = sys.argv[1:]
    j = 4
    if args[:1] == ["-j"]:
        j = int(args[1]); args = args[2:]
    ids = sorted(x for x in os.listdir(os.path.join(V, "seeded")) if os.path.isdir(os.path.join(V, "seeded", x)) and (not args or x in args))
    summary = {}
    with cf.ThreadPoolExecutor(j) as ex:
        for sid, checks, res in ex.map(run, ids):
            summary[sid] = {"checks": checks, "result": res, "seed": os.environ.get("VERIF_SEED", "0")}
            print(sid, res, flush=True)
    if not args:
        json.dump(summary, open(os.path.join(V, "seeded", "SUMMARY.json"), "w"), indent=1, sort_keys=True)
