#!/usr/bin/env python3
"""Run every confirmed seeded change (seeded/<id>/patch.diff) against the checks expected to catch it (tools/trial.sh, scratch copies)
and record the outcome in seeded/<id>/meta.json under `ran` (what was run, which checks reported a VIOLATION)."""
import json, os, re, subprocess, sys
V = os.path.dirname(os.path.dirname(os.path.abspath(__file__)))
PLAN = {"C01": ["C01", "C12"], "C03": ["C03", "C18"], "C04": ["C04", "C14"], "C05": ["C05"], "C06": ["C06"], "C09": ["C09", "C01"], "C10": ["C10", "C02"],
        "C11": ["C11", "C01"], "C13": ["C13"], "C14": ["C14", "C04"], "C15": ["C15"], "C17": ["C17"], "C19": ["C19"], "C20": ["C20"],
        "C02": ["C02", "C01"], "C07": ["C07"], "C08": ["C08"], "C12": ["C12"], "C16": ["C16"], "C18": ["C18", "C03"]}
only = sys.argv[1:]
for sid in sorted(os.listdir(os.path.join(V, "seeded"))):
    if only and sid not in only:
        continue
    d = os.path.join(V, "seeded", sid)
    checks = PLAN.get(sid.split("-")[0], [sid.split("-")[0]])
    p = subprocess.run([os.path.join(V, "tools", "trial.sh"), os.path.join(d, "patch.diff")] + checks, capture_output=True, text=True, timeout=7200)
    res = {}
    cur = None
    for line in p.stdout.splitlines():
        m = re.match(r"=== (C\d+) against", line)
        if m:
            cur = m.group(1)
            res[cur] = "no violation reported"
        if cur and line.startswith("VIOLATION"):
            res[cur] = "VIOLATION" + (" (no-failing-input-found)" if "no-failing-input-found" in line else " with replay") if res[cur] != "VIOLATION with replay" else res[cur]
    meta = json.load(open(os.path.join(d, "meta.json")))
    meta["ran"] = {"confirmed_by": "tools/confirm_seed.sh (demo exits non-zero with the change and 0 without; 795 stable tests still pass with it)",
                   "checks_run": "tools/trial.sh seeded/%s/patch.diff %s (quick tier, scratch copy of /verif + scratch worktree of /repo)" % (sid, " ".join(checks)),
                   "outcome": res}
    json.dump(meta, open(os.path.join(d, "meta.json"), "w"), indent=1)
    print(sid, res, flush=True)
