#!/venv/bin/python
"""Translator: /repo's compute layer (live dispatch_maps) -> Lean 4 model.

Run under /venv/bin/python (imports `vector` from /repo/src).

Reads every `vector._compute.{planar,spatial,lorentz}.*` module of the current
working tree, walks the live `dispatch_map`s (so hand-written functions and the
closures produced by `make_conversion`/`make_function` loops are treated
alike), translates each reachable function from its AST into a small IR and
prints it ONCE as Lean text over prelude tokens; the identical text is written
under two headers (Gen/Real: S = ℝ; Gen/Exec: S = any `Scalar`).

Only a strict subset of Python is accepted (straight-line Assign/Return over
arithmetic, comparisons, `lib.*` primitives and calls of other compute
functions).  Anything else raises `Unsupported(file:line)` — never a guess.

Outputs (written only when changed):
  lean/VectorModel/Gen/Real/<unit>.lean, Gen/Exec/<unit>.lean   one per SCC of the module call graph
  lean/VectorModel/Gen/Real/All.lean, Gen/Exec/All.lean          ModuleId-indexed `Compute.eval`
  lean/VectorModel/Gen/Tables.lean                                dispatch tables as data
  gen/index.json                                                  machine-readable index for the other tools
"""
from __future__ import annotations

import ast
import hashlib
import importlib
import inspect
import json
import os
import pkgutil
import sys
import textwrap
import types
from decimal import Decimal

VERIF = os.path.dirname(os.path.dirname(os.path.abspath(__file__)))
LEAN = os.path.join(VERIF, "lean", "VectorModel")
GEN = os.path.join(LEAN, "Gen")

import vector  # noqa: E402
import vector._methods as M  # noqa: E402

COORD = {
    M.AzimuthalXY: ("az", "xy"),
    M.AzimuthalRhoPhi: ("az", "rhophi"),
    M.LongitudinalZ: ("lon", "z"),
    M.LongitudinalTheta: ("lon", "theta"),
    M.LongitudinalEta: ("lon", "eta"),
    M.TemporalT: ("tmp", "t"),
    M.TemporalTau: ("tmp", "tau"),
}
ORDERS = ["xzx", "xyx", "yxy", "yzy", "zyz", "zxz", "xzy", "xyz", "yxz", "yzx", "zyx", "zxy"]
NCOMP = {"xy": 2, "rhophi": 2, "z": 1, "theta": 1, "eta": 1, "t": 1, "tau": 1}
CNAMES = {"xy": ("x", "y"), "rhophi": ("rho", "phi"), "z": ("z",), "theta": ("theta",),
          "eta": ("eta",), "t": ("t",), "tau": ("tau",)}
GROUPS = ("planar", "spatial", "lorentz")

LEAN_KEYWORDS = {
    "at", "from", "end", "in", "fun", "open", "theorem", "def", "let", "have", "show", "then", "else", "if",
    "do", "by", "with", "match", "where", "instance", "class", "structure", "import", "namespace", "section",
    "variable", "universe", "Type", "Prop", "Sort", "mut", "for", "return", "this", "local", "macro", "syntax",
    "S", "B", "using", "calc", "exists", "forall", "obtain", "set", "example", "axiom", "abbrev", "deriving",
    "extends", "infix", "notation", "prefix", "postfix", "private", "protected", "partial", "unsafe", "mutual",
    "attribute", "export", "hiding", "renaming", "nomatch", "nofun", "try", "catch", "finally", "unless",
}

LIB_UNARY = {"sqrt": "pSqrt", "sin": "pSin", "cos": "pCos", "tan": "pTan", "exp": "pExp", "log": "pLog",
             "sinh": "pSinh", "arcsinh": "pArcsinh", "arctan": "pArctan", "arccos": "pArccos",
             "absolute": "pAbs", "sign": "pSign"}
LIB_BINARY = {"arctan2": "pArctan2", "copysign": "pCopysign", "maximum": "pMax", "minimum": "pMin"}
CMP = {ast.Eq: "eq", ast.NotEq: "ne", ast.Lt: "lt", ast.Gt: "gt", ast.LtE: "le", ast.GtE: "ge"}
CMP_TOK = {"eq": "pEq", "ne": "pNe", "lt": "pLt", "gt": "pGt", "le": "pLe", "ge": "pGe"}
ARITH = {ast.Add: "add", ast.Sub: "sub", ast.Mult: "mul", ast.Div: "div", ast.Mod: "mod"}


class Unsupported(Exception):
    pass


def modid(modname: str) -> str:
    return modname.replace("vector._compute.", "").replace(".", "_")


class Translator:
    def __init__(self):
        self.fn_name = {}   # id(function) -> lean name
        self.fn_obj = {}    # lean name -> function
        self.fn_mod = {}    # lean name -> module id
        self.todo = []
        self.ir = {}        # lean name -> dict(params, body, ret, rtype, src)
        self.errors = []
        self.tables = {}    # module id -> dict
        self.missing = []   # (module id, key) absent from a dispatch_map
        self.warnings = []

    # ---------------------------------------------------------------- names
    def register(self, fn, hint=None):
        if id(fn) in self.fn_name:
            return self.fn_name[id(fn)]
        mid = modid(fn.__module__)
        if "<locals>" in fn.__qualname__ or fn.__name__ == "<lambda>":
            if hint is None:
                raise Unsupported(f"closure {fn.__qualname__} reached without a dispatch key")
            name = f"{mid}.k_{hint}"
        else:
            name = f"{mid}.{fn.__name__}"
        if name in self.fn_obj:
            raise Unsupported(f"name clash {name}")
        self.fn_name[id(fn)] = name
        self.fn_obj[name] = fn
        self.fn_mod[name] = mid
        self.todo.append(name)
        return name

    # ---------------------------------------------------------------- one function
    def translate(self, name):
        fn = self.fn_obj[name]
        try:
            src = textwrap.dedent(inspect.getsource(fn))
            file = inspect.getsourcefile(fn)
            line0 = fn.__code__.co_firstlineno
        except (OSError, TypeError) as e:
            raise Unsupported(f"{name}: no source ({e})") from e
        tree = ast.parse(src)
        node = tree.body[0]
        where = f"{os.path.relpath(file, os.environ.get('VERIF_REPO', '/repo'))}:{line0}"
        if isinstance(node, ast.Assign) and isinstance(node.value, ast.Lambda):
            raise Unsupported(f"{where}: lambda")
        if not isinstance(node, ast.FunctionDef):
            raise Unsupported(f"{where}: not a def")
        a = node.args
        if a.vararg or a.kwarg or a.kwonlyargs or a.defaults or a.posonlyargs:
            raise Unsupported(f"{where}: unsupported parameter kinds")
        if node.decorator_list:
            raise Unsupported(f"{where}: decorated")
        params = [x.arg for x in a.args]
        if not params or params[0] != "lib":
            raise Unsupported(f"{where}: first parameter is not lib")
        locals_ = set(params)
        for st in ast.walk(node):
            if isinstance(st, (ast.Assign, ast.AugAssign, ast.AnnAssign, ast.NamedExpr, ast.For, ast.With)):
                tg = st.targets if isinstance(st, ast.Assign) else [getattr(st, "target", None)]
                for t in tg:
                    if t is not None:
                        for n in ast.walk(t):
                            if isinstance(n, ast.Name):
                                locals_.add(n.id)
        closure = {}
        if fn.__closure__:
            closure = dict(zip(fn.__code__.co_freevars, (c.cell_contents for c in fn.__closure__)))
        types_ = {p: "S" for p in params[1:]}

        def err(e, msg):
            return Unsupported(f"{where}+{getattr(e, 'lineno', 0) - 1}: {msg}")

        def resolve(nm, e):
            if nm in locals_:
                return ("local", nm)
            if nm in closure:
                return ("obj", closure[nm])
            if nm in fn.__globals__:
                return ("obj", fn.__globals__[nm])
            raise err(e, f"unresolved name {nm}")

        def const(v, e):
            if isinstance(v, bool) or not isinstance(v, (int, float)):
                raise err(e, f"constant {v!r}")
            return ("const", v)

        def as_s(x):
            """coerce a B-typed expression used arithmetically"""
            return ("b2s", x[0]) if x[1] == "B" else x[0]

        def ex(e):
            """-> (ir, type) with type in S, B, or ('T', n)"""
            if isinstance(e, ast.Name):
                k, v = resolve(e.id, e)
                if k == "local":
                    if e.id not in types_:
                        raise err(e, f"local {e.id} used before assignment")
                    return ("var", e.id), types_[e.id]
                if isinstance(v, (int, float)) and not isinstance(v, bool):
                    return const(v, e), "S"
                raise err(e, f"name {e.id} -> {type(v).__name__}")
            if isinstance(e, ast.Constant):
                return const(e.value, e), "S"
            if isinstance(e, ast.UnaryOp) and isinstance(e.op, ast.USub):
                a_, t = ex(e.operand)
                if t != "S":
                    raise err(e, "negation of non-scalar")
                if a_[0] == "const":
                    return ("const", -a_[1]), "S"
                return ("neg", a_), "S"
            if isinstance(e, ast.UnaryOp) and isinstance(e.op, ast.UAdd):
                return ex(e.operand)
            if isinstance(e, ast.BinOp):
                if isinstance(e.op, ast.Pow):
                    b, tb = ex(e.left)
                    p, tp = ex(e.right)
                    if tb != "S" or p[0] != "const":
                        raise err(e, "power with non-literal exponent")
                    if isinstance(p[1], int) and p[1] >= 0:
                        return ("npow", b, p[1]), "S"
                    return ("rpow", b, p), "S"
                if type(e.op) in ARITH:
                    l, r = ex(e.left), ex(e.right)
                    for x in (l, r):
                        if x[1] not in ("S", "B"):
                            raise err(e, "arithmetic on tuple")
                    return (ARITH[type(e.op)], as_s(l), as_s(r)), "S"
                if isinstance(e.op, (ast.BitAnd, ast.BitOr)):
                    (l, tl), (r, tr) = ex(e.left), ex(e.right)
                    if tl != "B" or tr != "B":
                        raise err(e, "&/| on non-boolean")
                    return ("and" if isinstance(e.op, ast.BitAnd) else "or", l, r), "B"
                raise err(e, f"operator {type(e.op).__name__}")
            if isinstance(e, ast.Compare):
                if len(e.ops) != 1:
                    raise err(e, "chained comparison")
                l, r = ex(e.left), ex(e.comparators[0])
                for x in (l, r):
                    if x[1] not in ("S", "B"):
                        raise err(e, "comparison of tuple")
                op = CMP.get(type(e.ops[0]))
                if op is None:
                    raise err(e, f"comparison {type(e.ops[0]).__name__}")
                return (op, as_s(l), as_s(r)), "B"
            if isinstance(e, ast.Tuple):
                xs = [ex(x) for x in e.elts]
                if any(t != "S" for _, t in xs):
                    raise err(e, "tuple of non-scalars")
                return ("tuple",) + tuple(x for x, _ in xs), ("T", len(xs))
            if isinstance(e, ast.Attribute):
                if isinstance(e.value, ast.Name) and e.value.id == "lib" and "lib" in locals_:
                    if e.attr == "pi":
                        return ("libconst", "pi"), "S"
                    if e.attr == "inf":
                        return ("libconst", "inf"), "S"
                    raise err(e, f"lib.{e.attr} as a value")
                raise err(e, f"attribute {ast.unparse(e)}")
            if isinstance(e, ast.Call):
                f = e.func
                if isinstance(f, ast.Attribute) and isinstance(f.value, ast.Name) and f.value.id == "lib" \
                        and "lib" in locals_:
                    args = [ex(x) for x in e.args]
                    kws = {}
                    for k in e.keywords:
                        if k.arg is None:
                            raise err(e, "**kwargs")
                        kws[k.arg] = ex(k.value)
                    for x in list(args) + list(kws.values()):
                        if x[1] not in ("S", "B"):
                            raise err(e, "tuple passed to lib function")
                    sa = [as_s(x) for x in args]
                    if f.attr in LIB_UNARY and len(sa) == 1 and not kws:
                        return ("lib1", f.attr, sa[0]), "S"
                    if f.attr in LIB_BINARY and len(sa) == 2 and not kws:
                        return ("lib2", f.attr, sa[0], sa[1]), "S"
                    if f.attr == "nan_to_num" and len(sa) == 1 and set(kws) <= {"nan", "posinf", "neginf"}:
                        return ("nan_to_num", sa[0], tuple(sorted((k, as_s(v)) for k, v in kws.items()))), "S"
                    if f.attr == "isclose" and len(sa) == 5 and not kws:
                        return ("isclose",) + tuple(sa), "B"
                    raise err(e, f"lib.{f.attr} with {len(sa)} args / kwargs {sorted(kws)}")
                if isinstance(f, ast.Attribute) and isinstance(f.value, ast.Name):
                    k, v = resolve(f.value.id, e)
                    if k != "obj" or not isinstance(v, types.ModuleType):
                        raise err(e, f"call {ast.unparse(f)}")
                    target = getattr(v, f.attr, None)
                elif isinstance(f, ast.Name):
                    k, target = resolve(f.id, e)
                    if k != "obj":
                        raise err(e, f"call of local {f.id}")
                else:
                    raise err(e, f"call {ast.unparse(f)}")
                if not isinstance(target, types.FunctionType) or \
                        not target.__module__.startswith("vector._compute."):
                    raise err(e, f"call target {target!r} is not a compute function")
                if e.keywords or not e.args or not (isinstance(e.args[0], ast.Name) and e.args[0].id == "lib"):
                    raise err(e, "compute call must pass lib first, positionally")
                callee = self.register(target)
                args = [ex(x) for x in e.args[1:]]
                for x in args:
                    if x[1] not in ("S", "B"):
                        raise err(e, "tuple passed to compute function")
                return ("call", callee, tuple(as_s(x) for x in args)), self.rtype(callee)
            raise err(e, f"expression {type(e).__name__}")

        def settle(t):
            """resolve ('R', callee) to the callee's return type"""
            if isinstance(t, tuple) and t[0] == "R":
                return self.rtype(t[1])
            return t

        body = []
        ret = None
        stmts = list(node.body)
        for i, st in enumerate(stmts):
            if isinstance(st, ast.Expr) and isinstance(st.value, ast.Constant) and isinstance(st.value.value, str):
                continue
            if isinstance(st, ast.Assign):
                if len(st.targets) != 1:
                    raise err(st, "chained assignment")
                t = st.targets[0]
                v, vt = ex(st.value)
                vt = settle(vt)
                if isinstance(t, ast.Name):
                    if vt not in ("S", "B"):
                        raise err(st, "tuple bound to a single name")
                    body.append((("v", t.id), v))
                    types_[t.id] = vt
                elif isinstance(t, ast.Tuple) and all(isinstance(n, ast.Name) for n in t.elts):
                    if not (isinstance(vt, tuple) and vt[0] == "T" and vt[1] == len(t.elts)):
                        raise err(st, "tuple unpacking arity")
                    body.append((("t", tuple(n.id for n in t.elts)), v))
                    for n in t.elts:
                        types_[n.id] = "S"
                else:
                    raise err(st, "assignment target")
            elif isinstance(st, ast.Return):
                if st.value is None:
                    raise err(st, "bare return")
                ret, rt = ex(st.value)
                rt = settle(rt)
                if i != len(stmts) - 1:
                    raise err(st, "statements after return")
                break
            else:
                raise err(st, f"statement {type(st).__name__}")
        if ret is None:
            raise Unsupported(f"{where}: no return")
        if len(params) - 1 != fn.__code__.co_argcount - 1:
            raise Unsupported(f"{where}: arity")
        return {"params": params[1:], "body": body, "ret": ret, "rtype": rt, "where": where,
                "srchash": hashlib.sha256(src.encode()).hexdigest()[:16]}

    def rtype(self, name):
        if name not in self.ir:
            if name in self._inprogress:
                raise Unsupported(f"recursive call cycle through {name}")
            self._inprogress.add(name)
            try:
                self.ir[name] = self.translate(name)
            finally:
                self._inprogress.discard(name)
        return self.ir[name]["rtype"]

    # ---------------------------------------------------------------- whole tree
    def run(self):
        self._inprogress = set()
        for group in GROUPS:
            pkg = importlib.import_module("vector._compute." + group)
            for mi in sorted(pkgutil.iter_modules(pkg.__path__), key=lambda m: m.name):
                mod = importlib.import_module(f"vector._compute.{group}.{mi.name}")
                if not hasattr(mod, "dispatch_map"):
                    self.warnings.append(f"{mod.__name__}: no dispatch_map")
                    continue
                mid = modid(mod.__name__)
                entries = []
                shapes = set()
                for sig, val in mod.dispatch_map.items():
                    try:
                        fn, *ret = val
                        key = []
                        for s in sig:
                            if s in COORD:
                                key.append(COORD[s])
                            elif isinstance(s, str) and s in ORDERS:
                                key.append(("ord", s))
                            else:
                                raise Unsupported(f"{mid}: key element {s!r}")
                        rets = []
                        for r in ret:
                            if r is float:
                                rets.append("float")
                            elif r is bool:
                                rets.append("bool")
                            elif r is None:
                                rets.append("None")
                            elif r in COORD:
                                rets.append(COORD[r][1])
                            else:
                                raise Unsupported(f"{mid}: declared result {r!r}")
                        hint = "_".join(k[1] for k in key)
                        if not isinstance(fn, types.FunctionType):
                            raise Unsupported(f"{mid}[{hint}]: entry is not a function")
                        nm = self.register(fn, hint)
                        entries.append({"key": key, "fn": nm, "ret": rets})
                        shapes.add(tuple(k[0] for k in key))
                    except Unsupported as e:
                        self.errors.append(str(e))
                if len(shapes) != 1:
                    self.errors.append(f"{mid}: inconsistent key shapes {sorted(shapes)}")
                    continue
                shape = shapes.pop()
                self.tables[mid] = {"group": group, "name": mi.name, "shape": list(shape), "entries": entries}
        while self.todo:
            nm = self.todo.pop()
            if nm in self.ir:
                continue
            try:
                self.rtype(nm)
            except Unsupported as e:
                self.errors.append(str(e))
        # totality + arities
        import itertools
        dom = {"az": ["xy", "rhophi"], "lon": ["z", "theta", "eta"], "tmp": ["t", "tau"], "ord": ORDERS}
        for mid, tb in self.tables.items():
            have = {tuple(k[1] for k in e["key"]) for e in tb["entries"]}
            for combo in itertools.product(*[dom[s] for s in tb["shape"]]):
                if combo not in have:
                    self.missing.append((mid, list(combo)))
            ncoord = sum(NCOMP[k[1]] for k in tb["entries"][0]["key"] if k[0] != "ord")
            nsc = set()
            rts = set()
            for e in tb["entries"]:
                if e["fn"] in self.ir:
                    nsc.add(len(self.ir[e["fn"]]["params"]) - ncoord)
                    rts.add(json.dumps(self.ir[e["fn"]]["rtype"]))
            tb["ncoord"] = ncoord
            if len(nsc) != 1 or len(rts) != 1:
                self.errors.append(f"{mid}: inconsistent arity/result type across keys: {sorted(nsc)} {sorted(rts)}")
                continue
            tb["nscalar"] = nsc.pop()
            tb["rtype"] = json.loads(rts.pop())
        return self


# -------------------------------------------------------------------- printing
def lname(v):
    return v + "_" if v in LEAN_KEYWORDS else v


def sci(v: float) -> str:
    """float constant as a Lean scientific literal in S (exact decimal of repr)."""
    if v != v:
        return "pNaN"
    if v in (float("inf"), float("-inf")):
        return "pInf" if v > 0 else "(-pInf)"
    r = repr(abs(v))
    d = Decimal(r)
    s = format(d, "f") if "e" not in r and "E" not in r else r
    if "." not in s and "e" not in s.lower():
        s += ".0"
    lit = f"({s} : S)"
    return lit if v >= 0 and not str(v).startswith("-") else f"(-{lit})"


def cst(v):
    if isinstance(v, int):
        return f"({v} : S)" if v >= 0 else f"(-({-v} : S))"
    return sci(v)


def em(e):
    k = e[0]
    if k == "var":
        return lname(e[1])
    if k == "const":
        return cst(e[1])
    if k == "neg":
        return f"(-{em(e[1])})"
    if k in ("add", "sub", "mul", "div"):
        op = {"add": "+", "sub": "-", "mul": "*", "div": "/"}[k]
        return f"({em(e[1])} {op} {em(e[2])})"
    if k == "mod":
        return f"(pMod {em(e[1])} {em(e[2])})"
    if k == "npow":
        return f"({em(e[1])} ^ ({e[2]} : Nat))"
    if k == "rpow":
        return f"(pRpow {em(e[1])} {em(e[2])})"
    if k in CMP_TOK:
        return f"(pB2S {em(e[1])})" if False else f"({CMP_TOK[k]} {em(e[1])} {em(e[2])})"
    if k == "and":
        return f"(pAnd {em(e[1])} {em(e[2])})"
    if k == "or":
        return f"(pOr {em(e[1])} {em(e[2])})"
    if k == "b2s":
        return f"(pB2S {em(e[1])})"
    if k == "tuple":
        return "(" + ", ".join(em(x) for x in e[1:]) + ")"
    if k == "libconst":
        return "pPi" if e[1] == "pi" else "pLibInf"
    if k == "lib1":
        return f"({LIB_UNARY[e[1]]} {em(e[2])})"
    if k == "lib2":
        return f"({LIB_BINARY[e[1]]} {em(e[2])} {em(e[3])})"
    if k == "nan_to_num":
        d = dict(e[2])
        o = lambda n: f"(some {em(d[n])})" if n in d else "none"  # noqa: E731
        return f"(pNanToNum {em(e[1])} {o('nan')} {o('posinf')} {o('neginf')})"
    if k == "isclose":
        return "(pIsclose " + " ".join(em(x) for x in e[1:]) + ")"
    if k == "call":
        return "(" + e[1] + "".join(" " + em(a) for a in e[2]) + ")"
    raise AssertionError(k)


def symx(e):
    """IR of the expression as vector._lib.SympyLib evaluates it (probed at generation time, see probe_sympylib):
    nan_to_num(e, ...) -> e; maximum/minimum(a, b) -> a unless a is a literal constant, then b; copysign(a, b) -> a;
    isclose(a, b, ...) -> a == b."""
    if not isinstance(e, tuple) or not e:
        return e
    k = e[0]
    if k == "nan_to_num":
        return symx(e[1])
    if k == "lib2" and e[1] in ("maximum", "minimum"):
        return symx(e[3]) if e[2][0] == "const" else symx(e[2])
    if k == "lib2" and e[1] == "copysign":
        return symx(e[2])
    if k == "isclose":
        return ("eq", symx(e[1]), symx(e[2]))
    if k == "call":
        return ("call", e[1], tuple(symx(a) for a in e[2]))
    return tuple(symx(x) if isinstance(x, tuple) else x for x in e)


def has_special(e):
    """does the expression contain a primitive that SympyLib evaluates differently (other than nan_to_num)?"""
    if not isinstance(e, tuple) or not e:
        return False
    if (e[0] == "lib2" and e[1] in ("maximum", "minimum", "copysign")) or e[0] == "isclose" or (e[0] == "lib1" and e[1] == "sign"):
        return True
    return any(has_special(x) for x in e[1:] if isinstance(x, tuple)) or \
        (e[0] == "nan_to_num" and any(has_special(v) for _, v in e[2]) and False)


def probe_sympylib():
    """check that the live SympyLib still behaves as `symx` assumes; -> list of problems"""
    import sympy
    from vector._lib import SympyLib
    L = SympyLib()
    a, b = sympy.symbols("a b", real=True)
    bad = []
    if L.nan_to_num(a, nan=0.0, posinf=1.0) is not a:
        bad.append("SympyLib.nan_to_num is not the identity")
    if L.maximum(a, b) is not a or L.maximum(0, b) is not b or L.minimum(a, b) is not a or L.minimum(0, b) is not b:
        bad.append("SympyLib.maximum/minimum no longer return the first symbolic argument")
    if L.copysign(a, b) is not a:
        bad.append("SympyLib.copysign(a, b) is not a")
    if L.isclose(a, b, 1e-5, 1e-8, False) != sympy.Eq(a, b):
        bad.append("SympyLib.isclose is not Eq")
    for name, f in (("sqrt", sympy.sqrt), ("sin", sympy.sin), ("cos", sympy.cos), ("tan", sympy.tan), ("exp", sympy.exp), ("log", sympy.log),
                    ("sinh", sympy.sinh), ("arcsinh", sympy.asinh), ("arctan", sympy.atan), ("arccos", sympy.acos), ("absolute", sympy.Abs)):
        if getattr(L, name)(a) != f(a):
            bad.append(f"SympyLib.{name} is not sympy's function of that name")
    if L.arctan2(a, b) != sympy.atan2(a, b) or L.pi != sympy.pi:
        bad.append("SympyLib.arctan2/pi changed")
    # `sign` is applied to scale FACTORS, which may be Python numbers or exact SymPy numbers of known sign: it must be their sign
    for v_, want in ((-2, -1), (2.5, 1), (0, 0), (sympy.Integer(-3), -1), (sympy.Rational(-3, 2), -1), (sympy.Float(-1.75), -1), (sympy.Float(2.5), 1),
                     (-sympy.pi, -1), (sympy.Integer(0), 0), (sympy.Rational(1, 3), 1)):
        try:
            if L.sign(v_) != want:
                bad.append(f"SympyLib.sign({v_!r}) = {L.sign(v_)!r}, not the sign of the number")
                break
        except Exception as e:  # noqa: BLE001
            bad.append(f"SympyLib.sign({v_!r}) raises {type(e).__name__}")
            break
    return bad


def lty(t):
    if t == "S":
        return "S"
    if t == "B":
        return "B S"
    return " × ".join(["S"] * t[1])


def proj(v, i, n):
    """i-th component of an n-tuple expression v"""
    if n == 1:
        return v
    s = v + "".join(".2" for _ in range(i))
    return s + (".1" if i < n - 1 else "")


def emit_fn(name, f, tr=lambda e: e):
    ps = " ".join(f"({lname(p)} : S)" for p in f["params"])
    lines = [f"/-- {f['where']} -/", f"def {name} {ps} : {lty(f['rtype'])} :="]
    tmpc = 0
    for tgt, val in f["body"]:
        val = tr(val)
        if tgt[0] == "v":
            lines.append(f"  let {lname(tgt[1])} := {em(val)}")
        else:
            tmpc += 1
            tv = f"tup{tmpc}_"
            lines.append(f"  let {tv} := {em(val)}")
            n = len(tgt[1])
            for i, x in enumerate(tgt[1]):
                lines.append(f"  let {lname(x)} := {proj(tv, i, n)}")
    lines.append("  " + em(tr(f["ret"])))
    return "\n".join(lines)


# -------------------------------------------------------------------- regularity predicates (Gen/Dom)
def dom_conds(e, partial):
    """side-conditions, in evaluation order, under which no partial primitive application inside `e` is singular:
    a / b -> b != 0;  a % m -> m != 0;  a ** c (non-integer literal c) -> 0 < a;  sqrt a -> 0 <= a;  tan a -> cos a != 0;
    log a -> 0 < a;  arccos a -> -1 <= a <= 1;  f(args) -> f.Dom args (when f is not transitively total).
    nan_to_num(e, ...) contributes the conditions of e: the replacement values have no real meaning (DESIGN.md 3.4)."""
    if not isinstance(e, tuple) or not e:
        return []
    k = e[0]
    if k in ("var", "const", "libconst"):
        return []
    if k == "npow":
        return dom_conds(e[1], partial)
    if k == "rpow":
        return dom_conds(e[1], partial) + [f"0 < {em(e[1])}"]
    if k in ("div", "mod"):
        out = dom_conds(e[1], partial) + dom_conds(e[2], partial)
        if not (e[2][0] == "const" and e[2][1] != 0):
            out.append(f"{em(e[2])} ≠ 0")
        return out
    if k == "lib1":
        out = dom_conds(e[2], partial)
        a = em(e[2])
        if e[1] == "sqrt":
            out.append(f"0 ≤ {a}")
        elif e[1] == "tan":
            out.append(f"pCos {a} ≠ 0")
        elif e[1] == "log":
            out.append(f"0 < {a}")
        elif e[1] == "arccos":
            out += [f"-1 ≤ {a}", f"{a} ≤ 1"]
        return out
    if k == "lib2":
        return dom_conds(e[2], partial) + dom_conds(e[3], partial)
    if k == "nan_to_num":
        return dom_conds(e[1], partial)
    if k == "call":
        out = []
        for a in e[2]:
            out += dom_conds(a, partial)
        if e[1] in partial:
            out.append("(" + e[1] + ".Dom" + "".join(" " + em(a) for a in e[2]) + ")")
        return out
    out = []
    for x in e[1:]:
        if isinstance(x, tuple):
            out += dom_conds(x, partial)
    return out


def own_partial(e):
    """does the expression itself apply a partial primitive?"""
    return bool(dom_conds(e, set()))


def emit_dom(name, f, partial):
    ps = " ".join(f"({lname(p)} : S)" for p in f["params"])
    lines = [f"/-- regularity of `{name}` ({f['where']}): no partial primitive is applied at a singular point -/",
             f"def {name}.Dom {ps} : Prop :="]
    if name not in partial:
        lines.append("  True")
        return "\n".join(lines), 0
    seen_ = set(f["params"])
    rebinds = False
    for tgt, _ in f["body"]:
        for x in ([tgt[1]] if tgt[0] == "v" else list(tgt[1])):
            rebinds = rebinds or x in seen_
            seen_.add(x)
    if rebinds:
        # a name is assigned twice: keep each statement's conditions in the scope they are evaluated in
        n_ = 0
        tmpc = 0
        for tgt, val in f["body"]:
            cs = dom_conds(val, partial)
            n_ += len(cs)
            for c in cs:
                lines.append(f"  ({c}) ∧")
            if tgt[0] == "v":
                lines.append(f"  let {lname(tgt[1])} := {em(val)}")
            else:
                tmpc += 1
                tv = f"tup{tmpc}_"
                lines.append(f"  let {tv} := {em(val)}")
                for i, x in enumerate(tgt[1]):
                    lines.append(f"  let {lname(x)} := {proj(tv, i, len(tgt[1]))}")
        cs = dom_conds(f["ret"], partial)
        lines.append("  " + (" ∧ ".join(f"({c})" for c in cs) if cs else "True"))
        return "\n".join(lines), n_ + len(cs)
    conds = []
    tmpc = 0
    for tgt, val in f["body"]:
        conds += dom_conds(val, partial)
        if tgt[0] == "v":
            lines.append(f"  let {lname(tgt[1])} := {em(val)}")
        else:
            tmpc += 1
            tv = f"tup{tmpc}_"
            lines.append(f"  let {tv} := {em(val)}")
            n = len(tgt[1])
            for i, x in enumerate(tgt[1]):
                lines.append(f"  let {lname(x)} := {proj(tv, i, n)}")
        # conditions of this statement hold with the names bound so far: emit them lazily at the end (names are never rebound
        # with a different meaning before use only if single-assignment; checked below)
    conds += dom_conds(f["ret"], partial)
    conds = list(dict.fromkeys(conds))
    lines.append("  " + " ∧ ".join(f"({c})" for c in conds))
    return "\n".join(lines), len(conds)


def emit_evaldom(mid, tb, partial):
    shape = tb["shape"]
    nk = len(shape)
    na = tb["nscalar"] + tb["ncoord"]
    kargs = " ".join(f"(k{i} : {KTY[s]})" for i, s in enumerate(shape))
    aargs = " ".join(f"(a{i} : S)" for i in range(na))
    out = [f"/-- regularity of the variant of `{mid}` found under each key -/",
           f"def {mid}.evalDom {kargs} {aargs} : Prop :=",
           "  match " + ", ".join(f"k{i}" for i in range(nk)) + " with"]
    for e in tb["entries"]:
        pat = ", ".join("." + k[1] for k in e["key"])
        out.append(f"  | {pat} => {e['fn']}.Dom " + " ".join(f"a{i}" for i in range(na)))
    return "\n".join(out)


def calls_of(e, acc):
    if isinstance(e, tuple):
        if e and e[0] == "call":
            acc.add(e[1])
        for x in e:
            calls_of(x, acc)


KTY = {"az": "Az", "lon": "Lon", "tmp": "Tmp", "ord": "Ord"}


def emit_eval(mid, tb):
    """typed dispatcher over the whole key type + declared results + list-based wrapper"""
    shape = tb["shape"]
    nk = len(shape)
    na = tb["nscalar"] + tb["ncoord"]
    kargs = " ".join(f"(k{i} : {KTY[s]})" for i, s in enumerate(shape))
    aargs = " ".join(f"(a{i} : S)" for i in range(na))
    rt = tb["rtype"]
    out = []
    out.append(f"def {mid}.eval {kargs} {aargs} : {lty(rt)} :=")
    out.append("  match " + ", ".join(f"k{i}" for i in range(nk)) + " with")
    for e in tb["entries"]:
        pat = ", ".join("." + k[1] for k in e["key"])
        out.append(f"  | {pat} => {e['fn']} " + " ".join(f"a{i}" for i in range(na)))
    out.append("")
    out.append(f"def {mid}.ret {kargs} : Ret :=")
    out.append("  match " + ", ".join(f"k{i}" for i in range(nk)) + " with")
    for e in tb["entries"]:
        pat = ", ".join("." + k[1] for k in e["key"])
        out.append(f"  | {pat} => {ret_lean(e['ret'])}")
    out.append("")
    # list-based
    dec = "\n".join(f"      let k{i} ← q{i}.{s}?" for i, s in enumerate(shape))
    call = f"{mid}.eval " + " ".join(f"k{i}" for i in range(nk)) + " " + " ".join(f"a{i}" for i in range(na))
    if rt == "S":
        res = "Out.vals [r]"
    elif rt == "B":
        res = "Out.truth r"
    else:
        res = "Out.vals [" + ", ".join(proj("r", i, rt[1]) for i in range(rt[1])) + "]"
    out.append(f"def {mid}.evalL (k : List KA) (a : List S) : Option (Out S (B S) × Ret) :=")
    out.append("  match k, a with")
    out.append("  | [" + ", ".join(f"q{i}" for i in range(nk)) + "], [" + ", ".join(f"a{i}" for i in range(na)) + "] => do")
    out.append(dec)
    out.append(f"      let r := {call}")
    out.append(f"      some ({res}, {mid}.ret " + " ".join(f"k{i}" for i in range(nk)) + ")")
    out.append("  | _, _ => none")
    return "\n".join(out)


def ret_lean(rets):
    if rets == ["float"]:
        return "Ret.float"
    if rets == ["bool"]:
        return "Ret.bool"
    parts = []
    for r in rets:
        if r == "None":
            parts.append("RP.none")
        elif r in ("xy", "rhophi"):
            parts.append(f"RP.az .{r}")
        elif r in ("z", "theta", "eta"):
            parts.append(f"RP.lon .{r}")
        elif r in ("t", "tau"):
            parts.append(f"RP.tmp .{r}")
        else:
            raise Unsupported(f"declared result mixes kinds: {rets}")
    return "Ret.vec [" + ", ".join(parts) + "]"


def sccs(graph):
    """Tarjan; returns list of components in reverse topological order (callees first)."""
    index = {}
    low = {}
    stack = []
    on = set()
    out = []
    counter = [0]
    sys.setrecursionlimit(10000)

    def strong(v):
        index[v] = low[v] = counter[0]
        counter[0] += 1
        stack.append(v)
        on.add(v)
        for w in sorted(graph[v]):
            if w not in index:
                strong(w)
                low[v] = min(low[v], low[w])
            elif w in on:
                low[v] = min(low[v], index[w])
        if low[v] == index[v]:
            comp = []
            while True:
                w = stack.pop()
                on.discard(w)
                comp.append(w)
                if w == v:
                    break
            out.append(sorted(comp))
    for v in sorted(graph):
        if v not in index:
            strong(v)
    return out


def write_if_changed(path, text):
    os.makedirs(os.path.dirname(path), exist_ok=True)
    try:
        with open(path) as f:
            if f.read() == text:
                return False
    except FileNotFoundError:
        pass
    with open(path + ".tmp", "w") as f:
        f.write(text)
    os.replace(path + ".tmp", path)
    return True


HEAD_REAL = """import VectorModel.Prim.Real
import VectorModel.Prim.Keys
import VectorModel.Gen.Attrs
{imports}
set_option linter.unusedVariables false
set_option maxRecDepth 4096
namespace VR
open VK
noncomputable section
"""
FOOT_REAL = "\nend\nend VR\n"
HEAD_EXEC = """import VectorModel.Prim.Exec
import VectorModel.Prim.Keys
{imports}
set_option linter.unusedVariables false
set_option maxRecDepth 4096
namespace VE
open VK
variable {{S : Type}} [Scalar S]
section
"""
FOOT_EXEC = "\nend\nend VE\n"
HEAD_SYM = """import VectorModel.Prim.Real
import VectorModel.Prim.Keys
{imports}
/-! The compute functions as `vector._lib.SympyLib` evaluates them (nan_to_num = id, maximum/minimum = first symbolic
argument, copysign(a, b) = a, isclose = equality), and for every function on which the two libraries agree syntactically the
theorem `<f>_eq : VS.<f> = VR.<f>` (regenerated every run). -/
set_option linter.unusedVariables false
set_option linter.unusedSimpArgs false
set_option maxRecDepth 4096
namespace VS
open VK
open scoped VR
noncomputable section
"""
HEAD_DOM = """import VectorModel.Gen.Real.{unit}
{imports}
/-! Regularity predicates `<f>.Dom` (generated every run): the conjunction of the side-conditions of every partial primitive
application (`/`, `%`, non-integer power, `sqrt`, `tan`, `log`, `arccos`) in `<f>` and, through `<callee>.Dom`, in its callees.
Under `<f>.Dom` no IEEE exceptional value arises in exact arithmetic and Lean's totalised `x / 0 = 0`, `√(-1) = 0`, `log 0 = 0`
are never consulted.  Functions that are transitively free of partial primitives have `Dom := True`. -/
set_option linter.unusedVariables false
set_option maxRecDepth 4096
namespace VR
open VK
noncomputable section
"""
BODY_BEGIN = "-- BODY-BEGIN (identical in Gen/Real and Gen/Exec)\n"
BODY_END = "-- BODY-END\n"


def main():
    tr = Translator().run()
    os.makedirs(os.path.join(VERIF, "gen"), exist_ok=True)
    index = {
        "repo_head": os.popen("git -C %s rev-parse HEAD 2>/dev/null" % os.environ.get("VERIF_REPO", "/repo")).read().strip(),
        "errors": tr.errors, "warnings": tr.warnings,
        "missing_keys": tr.missing,
        "n_entries": sum(len(t["entries"]) for t in tr.tables.values()),
        "n_functions": len(tr.ir),
    }
    if tr.errors:
        index["ok"] = False
        write_if_changed(os.path.join(VERIF, "gen", "index.json"), json.dumps(index, indent=1, sort_keys=True))
        print(f"translate: {len(tr.errors)} unsupported/erroneous items", file=sys.stderr)
        for e in tr.errors[:20]:
            print("  " + e, file=sys.stderr)
        return 3
    # inf/nan sanity: math.inf / nan / lib.inf only inside nan_to_num replacement arguments
    def scan(e, inside, name):
        if not isinstance(e, tuple) or not e:
            return
        if e[0] == "const" and isinstance(e[1], float) and (e[1] != e[1] or abs(e[1]) == float("inf")) and not inside:
            tr.warnings.append(f"{name}: inf/nan constant outside a nan_to_num replacement argument")
        if e[0] == "libconst" and e[1] == "inf" and not inside:
            tr.warnings.append(f"{name}: lib.inf outside a nan_to_num replacement argument")
        if e[0] == "nan_to_num":
            scan(e[1], inside, name)
            for _, v in e[2]:
                scan(v, True, name)
            return
        for x in e[1:]:
            if isinstance(x, tuple):
                scan(x, inside, name)
    for nm, f in tr.ir.items():
        for _, v in f["body"]:
            scan(v, False, nm)
        scan(f["ret"], False, nm)

    # module-level call graph -> units
    fdeps = {}
    for nm, f in tr.ir.items():
        acc = set()
        for _, v in f["body"]:
            calls_of(v, acc)
        calls_of(f["ret"], acc)
        fdeps[nm] = acc
    # functions that (transitively) apply a partial primitive
    partial = {n for n, f in tr.ir.items() if own_partial(f["ret"]) or any(own_partial(v) for _, v in f["body"])}
    grew = True
    while grew:
        grew = False
        for n in tr.ir:
            if n not in partial and fdeps[n] & partial:
                partial.add(n)
                grew = True
    dom_nconds = {}
    mods = sorted(set(tr.fn_mod[n] for n in tr.ir))
    mgraph = {m: set() for m in mods}
    for nm, acc in fdeps.items():
        for c in acc:
            if tr.fn_mod[c] != tr.fn_mod[nm]:
                mgraph[tr.fn_mod[nm]].add(tr.fn_mod[c])
    comps = sccs(mgraph)
    unit_of = {}
    units = []
    for comp in comps:
        u = "__".join(comp)
        units.append((u, comp))
        for m in comp:
            unit_of[m] = u
    live = set()
    unit_info = {}
    # functions on which SympyLib and NumPy agree syntactically (transitively free of max/min/copysign/isclose/sign)
    dirty = {n for n, f in tr.ir.items() if has_special(f["ret"]) or any(has_special(v) for _, v in f["body"])}
    changed = True
    while changed:
        changed = False
        for n in tr.ir:
            if n not in dirty and fdeps[n] & dirty:
                dirty.add(n)
                changed = True
    clean = set(tr.ir) - dirty
    for u, comp in units:
        fns = [n for n in tr.ir if tr.fn_mod[n] in comp]
        # topological order of functions inside the unit
        order = []
        seen = set()

        def visit(n):
            if n in seen:
                return
            seen.add(n)
            for d in sorted(fdeps[n]):
                if tr.fn_mod[d] in comp:
                    visit(d)
            order.append(n)
        for n in sorted(fns):
            visit(n)
        deps = sorted({unit_of[tr.fn_mod[c]] for n in fns for c in fdeps[n]} - {u})
        body = [BODY_BEGIN]
        for n in order:
            body.append(emit_fn(n, tr.ir[n]))
            body.append("")
        for m in comp:
            if m in tr.tables and not any(mm == m for mm, _ in tr.missing):
                body.append(emit_eval(m, tr.tables[m]))
                body.append("")
        body.append(BODY_END)
        body = "\n".join(body)
        attrs = []
        for m in comp:
            names = [n for n in order if tr.fn_mod[n] == m]
            if m in tr.tables and not any(mm == m for mm, _ in tr.missing):
                names += [f"{m}.eval", f"{m}.ret"]
            attrs.append(f"attribute [d_{m}] " + " ".join(names))
        attrs = "\n".join(attrs) + "\n"
        for kind, head, foot in (("Real", HEAD_REAL, attrs + FOOT_REAL), ("Exec", HEAD_EXEC, FOOT_EXEC)):
            imports = "\n".join(f"import VectorModel.Gen.{kind}.{d}" for d in deps)
            write_if_changed(os.path.join(GEN, kind, u + ".lean"), head.format(imports=imports) + body + foot)
            live.add(os.path.join(GEN, kind, u + ".lean"))
        unit_info[u] = {"modules": comp, "deps": deps, "functions": order,
                        "bodyhash": hashlib.sha256(body.encode()).hexdigest()[:16]}
        # ---- regularity predicates
        dom = [HEAD_DOM.format(unit=u, imports="\n".join(f"import VectorModel.Gen.Dom.{d}" for d in deps))]
        for n in order:
            txt, nc = emit_dom(n, tr.ir[n], partial)
            dom_nconds[n] = nc
            dom.append(txt)
            dom.append("")
        for m in comp:
            if m in tr.tables and not any(mm == m for mm, _ in tr.missing):
                dom.append(emit_evaldom(m, tr.tables[m], partial))
                dom.append("")
        for m in comp:
            names = [n + ".Dom" for n in order if tr.fn_mod[n] == m]
            if m in tr.tables and not any(mm == m for mm, _ in tr.missing):
                names.append(f"{m}.evalDom")
            dom.append(f"attribute [dd_{m}] " + " ".join(names))
        dom.append("end\nend VR\n")
        write_if_changed(os.path.join(GEN, "Dom", u + ".lean"), "\n".join(dom))
        live.add(os.path.join(GEN, "Dom", u + ".lean"))
        # ---- third copy (C08): the same functions as vector._lib.SympyLib evaluates them, + congruence theorems
        sym = [HEAD_SYM.format(imports="\n".join([f"import VectorModel.Gen.Real.{u}"] + [f"import VectorModel.Gen.Sym.{d}" for d in deps]))]
        for n in order:
            sym.append(emit_fn(n, tr.ir[n], symx))
            sym.append("")
        for n in order:
            f = tr.ir[n]
            args = " ".join(lname(p_) for p_ in f["params"])
            binder = ("(" + " ".join(lname(p_) for p_ in f["params"]) + " : ℝ) ") if f["params"] else ""
            if n in clean:
                lem = " ".join([n, "VR." + n] + [c + "_eq" for c in sorted(fdeps[n])] + ["VR.P.nanToNum_eq"])
                sym.append(f"theorem {n}_eq {binder}: {n} {args} = VR.{n} {args} := by\n  simp only [{', '.join(lem.split())}]")
                sym.append("")
        for m in comp:
            if m in tr.tables and not any(mm == m for mm, _ in tr.missing):
                tb = tr.tables[m]
                sym.append(emit_eval(m, tb))
                sym.append("")
                if all(e["fn"] in clean for e in tb["entries"]):
                    nk = len(tb["shape"])
                    na = tb["nscalar"] + tb["ncoord"]
                    kb = " ".join(f"(k{i} : {KTY[s_]})" for i, s_ in enumerate(tb["shape"]))
                    ab = "(" + " ".join(f"a{i}" for i in range(na)) + " : ℝ)"
                    ks = " ".join(f"k{i}" for i in range(nk))
                    as_ = " ".join(f"a{i}" for i in range(na))
                    fns = sorted({e["fn"] + "_eq" for e in tb["entries"]})
                    cases = " <;> ".join(f"cases k{i}" for i in range(nk))
                    sym.append(f"/-- every variant of `{m}` is syntactically the same under SympyLib and NumPy -/")
                    sym.append(f"theorem {m}.eval_eq {kb} {ab} : {m}.eval {ks} {as_} = VR.{m}.eval {ks} {as_} := by\n"
                               f"  {cases} <;> simp only [{m}.eval, VR.{m}.eval, {', '.join(fns)}]")
                    sym.append("")
        sym.append("end\nend VS\n")
        write_if_changed(os.path.join(GEN, "Sym", u + ".lean"), "\n".join(sym))
        live.add(os.path.join(GEN, "Sym", u + ".lean"))
    # All.lean : ModuleId + Compute.eval
    mids = sorted(tr.tables)
    total = [m for m in mids if not any(mm == m for mm, _ in tr.missing)]
    allbody = [BODY_BEGIN]
    allbody.append("def Compute.eval (m : ModuleId) (k : List KA) (a : List S) : Option (Out S (B S) × Ret) :=")
    allbody.append("  match m with")
    for m in mids:
        allbody.append(f"  | .{m} => " + (f"{m}.evalL k a" if m in total else "none"))
    allbody.append(BODY_END)
    allbody = "\n".join(allbody)
    for kind, head, foot in (("Real", HEAD_REAL, FOOT_REAL), ("Exec", HEAD_EXEC, FOOT_EXEC)):
        imports = "import VectorModel.Gen.Tables\n" + "\n".join(f"import VectorModel.Gen.{kind}.{u}" for u, _ in units)
        write_if_changed(os.path.join(GEN, kind, "All.lean"), head.format(imports=imports) + allbody + foot)
        live.add(os.path.join(GEN, kind, "All.lean"))
    # Attrs.lean: one simp set per compute module (definitions of its functions, eval and ret)
    A = ["import Lean.Meta.Tactic.Simp.RegisterCommand",
         "/-! simp sets `d_<module>`: the generated definitions of each compute module (regenerated every run). -/"]
    for m in mods:
        A.append(f"/-- generated definitions of compute module {m} -/\nregister_simp_attr d_{m}")
        A.append(f"/-- generated regularity predicates of compute module {m} -/\nregister_simp_attr dd_{m}")
    write_if_changed(os.path.join(GEN, "Attrs.lean"), "\n".join(A) + "\n")
    live.add(os.path.join(GEN, "Attrs.lean"))
    # Tables.lean
    T = ["import VectorModel.Prim.Keys", "/-! Dispatch tables of /repo's compute layer as plain data (regenerated every run). -/",
         "set_option maxRecDepth 8192", "namespace VK", "",
         "inductive ModuleId", *[f"  | {m}" for m in mids], "  deriving DecidableEq, Repr, Inhabited", "",
         "def ModuleId.all : List ModuleId := [" + ", ".join("." + m for m in mids) + "]", "",
         "def ModuleId.str : ModuleId → String"]
    T += [f"  | .{m} => \"{m}\"" for m in mids]
    T += ["", "/-- key shape, number of scalar arguments, number of coordinate arguments -/",
          "structure ModInfo where", "  shape : List KS", "  nscalar : Nat", "  ncoord : Nat", "  deriving Repr", "",
          "def ModuleId.info : ModuleId → ModInfo"]
    for m in mids:
        tb = tr.tables[m]
        T.append(f"  | .{m} => ⟨[" + ", ".join(f'.{s}' for s in tb["shape"]) + f"], {tb['nscalar']}, {tb['ncoord']}⟩")
    T += ["", "/-- every key present in the module's dispatch_map, with the declared result -/"]
    for m in mids:
        tb = tr.tables[m]
        T.append(f"def table_{m} : List (List KA × Ret) := [")
        rows = []
        for e in tb["entries"]:
            ks = ", ".join(f".{k[0]} .{k[1]}" for k in e["key"])
            rows.append(f"  ([{ks}], {ret_lean(e['ret'])})")
        T.append(",\n".join(rows) + "]")
    T += ["", "def ModuleId.table : ModuleId → List (List KA × Ret)"]
    T += [f"  | .{m} => table_{m}" for m in mids]
    T += ["", "end VK", ""]
    write_if_changed(os.path.join(GEN, "Tables.lean"), "\n".join(T))
    live.add(os.path.join(GEN, "Tables.lean"))
    # remove stale generated files
    symall = "\n".join(f"import VectorModel.Gen.Sym.{u}" for u, _ in units) + "\n"
    write_if_changed(os.path.join(GEN, "Sym", "All.lean"), symall)
    live.add(os.path.join(GEN, "Sym", "All.lean"))
    write_if_changed(os.path.join(GEN, "Dom", "All.lean"), "\n".join(f"import VectorModel.Gen.Dom.{u}" for u, _ in units) + "\n")
    live.add(os.path.join(GEN, "Dom", "All.lean"))
    for kind in ("Real", "Exec", "Sym", "Dom"):
        d = os.path.join(GEN, kind)
        for fn in os.listdir(d):
            p = os.path.join(d, fn)
            if fn.endswith(".lean") and p not in live:
                os.remove(p)
    sp = probe_sympylib()
    if sp:
        index["errors"] = ["sympylib-probe: " + x for x in sp]
        index["ok"] = False
        write_if_changed(os.path.join(VERIF, "gen", "index.json"), json.dumps(index, indent=1, sort_keys=True))
        print("translate: SympyLib no longer behaves as the symbolic copy assumes:", sp, file=sys.stderr)
        return 3
    index.update({
        "sym_clean": sorted(clean), "sym_dirty": sorted(dirty),
        "partial": sorted(partial), "dom_conditions": sum(dom_nconds.values()),
        "ok": True,
        "units": unit_info,
        "tables": tr.tables,
        "functions": {n: {"params": f["params"], "rtype": f["rtype"], "where": f["where"], "module": tr.fn_mod[n],
                          "calls": sorted(fdeps[n]), "srchash": f["srchash"]} for n, f in sorted(tr.ir.items())},
        "warnings": tr.warnings,
    })
    write_if_changed(os.path.join(VERIF, "gen", "index.json"), json.dumps(index, indent=1, sort_keys=True))
    print(f"translate: {index['n_entries']} dispatch entries, {index['n_functions']} functions, {len(units)} units, "
          f"{len(tr.missing)} missing keys, {len(tr.warnings)} warnings")
    return 0


if __name__ == "__main__":
    sys.exit(main())
