#!/venv/bin/python
"""Run /repo's test suite (hooks OFF) and compare with /root/.vp/BASELINE.json's stable_pass list.

usage: tools/baseline.py [--repo DIR] [-n WORKERS]
exit 0 iff every stable-pass test passes.
"""
import argparse, json, os, subprocess, sys, tempfile, xml.etree.ElementTree as ET

ap = argparse.ArgumentParser()
ap.add_argument("--repo", default="/repo")
ap.add_argument("-n", type=int, default=0)
a = ap.parse_args()
base = json.load(open("/root/.vp/BASELINE.json"))
want = set(base["stable_pass"])
scratch = tempfile.mkdtemp(prefix="vbase-", dir=os.environ.get("VERIF_SCRATCH", "/var/tmp"))
xml = os.path.join(scratch, "junit.xml")
env = dict(os.environ)
env.pop("SCIKIT_HEP_VECTOR_VERIF", None)
env["PYTHONPATH"] = os.path.join(a.repo, "src")
cmd = ["/venv/bin/python", "-m", "pytest", "-q", "-p", "no:cacheprovider", "--timeout=900",
       "--continue-on-collection-errors", f"--junitxml={xml}"]
if a.n:
    cmd += ["-n", str(a.n)]
subprocess.run(cmd, cwd=a.repo, env=env, stdout=subprocess.DEVNULL, stderr=subprocess.DEVNULL)
passed, failed = set(), set()
for tc in ET.parse(xml).getroot().iter("testcase"):
    tid = (tc.get("classname") or "") + "::" + (tc.get("name") or "")
    if tc.find("failure") is not None or tc.find("error") is not None:
        failed.add(tid)
    elif tc.find("skipped") is None:
        passed.add(tid)
passed -= failed
import shutil; shutil.rmtree(scratch, ignore_errors=True)
missing = sorted(want - passed)
print(f"baseline: {len(passed)} passed, {len(failed)} failed, {len(missing)} of {len(want)} stable-pass tests missing")
for m in missing[:30]:
    print("  MISSING", m)
sys.exit(1 if missing else 0)
