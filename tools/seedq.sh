#!/bin/sh
# confirm a seeded change delivered in /tmp/seed/<name> and run the named checks against it (scratch copies); logs in /root/logs
# usage: tools/seedq.sh <name> <Cxx> [<Cyy> ...]
N="$1"; shift
mkdir -p /root/logs
/verif/tools/confirm_seed.sh /tmp/seed/$N $N > /root/logs/confirm-$N.log 2>&1 || { echo "$N NOT CONFIRMED" >> /root/logs/seedq.txt; exit 1; }
/verif/tools/trial.sh /verif/seeded/$N/patch.diff "$@" > /root/logs/trial-$N.log 2>&1
echo "$N: $(grep -c '^VIOLATION' /root/logs/trial-$N.log) violation lines; $(grep '^===\|^VIOLATION' /root/logs/trial-$N.log | tr '\n' ' ' | cut -c1-400)" >> /root/logs/seedq.txt
