#!/venv/bin/python
"""Mutation campaign on the backend glue and the method layer (where the tie to the code is a correspondence, so detection is only as
good as the input generators): single-site AST mutants of src/vector/{_methods.py, backends/*.py}, each applied in a scratch worktree,
run against the correspondence part of the checks (VERIF_HARNESS_ONLY=1: the compute layer is not mutated, so the Lean side is
unchanged) and - for survivors - against the repository's own test suite.  Output: one JSON line per mutant in the log.

usage: tools/mutate.py --n 60 --seed 1 [--files object.py,numpy.py,...] [--workers 12] [--log FILE]
This is a development aid (it measures the generators); it is not a registered check and proves nothing.
"""
from __future__ import annotations

import argparse
import ast
import concurrent.futures as cf
import json
import os
import random
import re
import shutil
import subprocess
import sys

VERIF = os.path.dirname(os.path.dirname(os.path.abspath(__file__)))
REPO = "/repo"
FILES = {"object.py": "src/vector/backends/object.py", "numpy.py": "src/vector/backends/numpy.py", "awkward.py": "src/vector/backends/awkward.py",
         "awkward_constructors.py": "src/vector/backends/awkward_constructors.py", "_methods.py": "src/vector/_methods.py",
         "sympy.py": "src/vector/backends/sympy.py", "_numba_object.py": "src/vector/backends/_numba_object.py"}
CHECKS = {"object.py": ["C04", "C05", "C06", "C11", "C12", "C14", "C15", "C16", "C19", "C20"],
          "numpy.py": ["C03", "C04", "C05", "C06", "C11", "C12", "C14", "C16", "C17", "C19", "C20"],
          "awkward.py": ["C03", "C04", "C05", "C11", "C12", "C14", "C16", "C17", "C18", "C20", "C07"],
          "awkward_constructors.py": ["C06", "C03", "C18", "C20", "C14"],
          "_methods.py": ["C04", "C05", "C14", "C15", "C03", "C12", "C09", "C10", "C01", "C18"],
          "sympy.py": ["C08"], "_numba_object.py": ["C07"]}
FAMILIES = [["2D", "3D", "4D"], ["XY", "RhoPhi"], ["Z", "Theta", "Eta"], ["T", "Tau"], ["x", "y"], ["rho", "phi"], ["z", "theta", "eta"], ["t", "tau"],
            ["px", "py"], ["pt", "phi"], ["pz", "theta", "eta"], ["E", "e", "energy", "M", "m", "mass"], ["Azimuthal", "Longitudinal", "Temporal"],
            ["Vector", "Momentum"], ["1", "2"], ["azimuthal", "longitudinal", "temporal"], ["GenericClass", "MomentumClass"], ["add", "subtract"],
            ["rho2", "mag2", "tau2"], ["rho", "mag", "tau"], ["any", "all"], ["min", "max"]]


def siblings(name):
    out = set()
    for fam in FAMILIES:
        for a in fam:
            for b in fam:
                if a != b:
                    # whole-name match, suffix / prefix token match (e.g. LongitudinalObjectTheta, ProjectionClass3D, v1)
                    if name == a:
                        out.add(b)
                    elif len(a) > 1 and name.endswith(a) and not name[: -len(a)][-1:].islower() if name[: -len(a)] else False:
                        out.add(name[: -len(a)] + b)
                    elif len(a) > 1 and name.startswith(a) and name[len(a):][:1].isupper():
                        out.add(b + name[len(a):])
                    elif a in ("1", "2") and re.fullmatch(r"[a-z_]+" + a, name):
                        out.add(name[:-1] + b)
    out.discard(name)
    return sorted(out)


def sites(path):
    """[(lineno, col, end_col, old, new, kind)] single-line textual replacements"""
    src = open(path).read()
    tree = ast.parse(src)
    lines = src.split("\n")
    skip = set()      # annotation / decorator / docstring / overload-stub spans
    for node in ast.walk(tree):
        if isinstance(node, (ast.FunctionDef, ast.AsyncFunctionDef)):
            if any("overload" in ast.unparse(d) for d in node.decorator_list):
                skip.update(range(node.lineno, node.end_lineno + 1))
            for a in node.args.args + node.args.kwonlyargs + node.args.posonlyargs:
                if a.annotation is not None:
                    skip.update((a.annotation.lineno, c) for c in range(0))
            if node.returns is not None:
                pass
        if isinstance(node, ast.If) and "TYPE_CHECKING" in ast.unparse(node.test):
            skip.update(range(node.lineno, node.end_lineno + 1))
    ann = set()
    for node in ast.walk(tree):
        for fld in ("annotation", "returns"):
            a = getattr(node, fld, None)
            if isinstance(a, ast.AST):
                for sub in ast.walk(a):
                    if hasattr(sub, "lineno"):
                        ann.add((sub.lineno, sub.col_offset))
    out = []

    def add(node, new, kind):
        if node.lineno != node.end_lineno or node.lineno in skip or (node.lineno, node.col_offset) in ann:
            return
        old = lines[node.lineno - 1][node.col_offset:node.end_col_offset]
        if old != new:
            out.append((node.lineno, node.col_offset, node.end_col_offset, old, new, kind))
    for node in ast.walk(tree):
        if isinstance(node, ast.Name):
            for s_ in siblings(node.id):
                add(node, s_, "name")
        elif isinstance(node, ast.Attribute):
            for s_ in siblings(node.attr):
                if node.lineno == node.end_lineno:
                    old = lines[node.lineno - 1][node.col_offset:node.end_col_offset]
                    if old.endswith("." + node.attr) and node.lineno not in skip and (node.lineno, node.col_offset) not in ann:
                        out.append((node.lineno, node.end_col_offset - len(node.attr), node.end_col_offset, node.attr, s_, "attr"))
        elif isinstance(node, ast.Constant) and isinstance(node.value, str) and len(node.value) < 12 and node.value.isidentifier():
            parent_doc = False
            for s_ in siblings(node.value):
                if not parent_doc:
                    q = lines[node.lineno - 1][node.col_offset] if node.lineno == node.end_lineno else '"'
                    add(node, q + s_ + q, "str")
        elif isinstance(node, ast.Constant) and isinstance(node.value, (int, float)) and not isinstance(node.value, bool):
            alt = ({0: "1", 1: "0", 2: "3", 3: "2", 4: "3"} if isinstance(node.value, int) else {0.0: "1.0", 1.0: "0.0", 0.5: "2.0"}).get(node.value)
            if alt:
                add(node, alt, "num")
        elif isinstance(node, ast.Compare) and len(node.ops) == 1 and node.lineno == node.end_lineno:
            op = node.ops[0]
            rep = {ast.Eq: ("==", "!="), ast.NotEq: ("!=", "=="), ast.Lt: ("<", "<="), ast.LtE: ("<=", "<"), ast.Gt: (">", ">="), ast.GtE: (">=", ">"),
                   ast.Is: (" is ", " is not "), ast.IsNot: (" is not ", " is "), ast.In: (" in ", " not in "), ast.NotIn: (" not in ", " in ")}.get(type(op))
            if rep:
                seg = lines[node.lineno - 1]
                lo, hi = node.left.end_col_offset, node.comparators[0].col_offset
                mid = seg[lo:hi]
                if rep[0].strip() in mid and node.lineno not in skip:
                    out.append((node.lineno, lo, hi, mid, mid.replace(rep[0].strip(), rep[1].strip(), 1), "cmp"))
        elif isinstance(node, ast.BoolOp) and node.lineno == node.end_lineno and len(node.values) == 2:
            seg = lines[node.lineno - 1]
            lo, hi = node.values[0].end_col_offset, node.values[1].col_offset
            mid = seg[lo:hi]
            a, b = (" and ", " or ") if isinstance(node.op, ast.And) else (" or ", " and ")
            if a in mid and node.lineno not in skip:
                out.append((node.lineno, lo, hi, mid, mid.replace(a, b, 1), "bool"))
        elif isinstance(node, ast.UnaryOp) and isinstance(node.op, ast.Not) and node.lineno == node.end_lineno:
            old = lines[node.lineno - 1][node.col_offset:node.end_col_offset]
            if old.startswith("not "):
                add(node, old[4:], "not")
        elif isinstance(node, ast.Call) and len(node.args) >= 2 and node.lineno == node.end_lineno and not node.keywords:
            a0, a1 = node.args[0], node.args[1]
            if a0.lineno == a1.lineno == node.lineno and not isinstance(a0, ast.Starred) and not isinstance(a1, ast.Starred):
                seg = lines[node.lineno - 1]
                t0, t1 = seg[a0.col_offset:a0.end_col_offset], seg[a1.col_offset:a1.end_col_offset]
                if t0 != t1 and node.lineno not in skip:
                    out.append((node.lineno, a0.col_offset, a1.end_col_offset, seg[a0.col_offset:a1.end_col_offset],
                                t1 + seg[a0.end_col_offset:a1.col_offset] + t0, "swap"))
    # not inside docstrings / comments; replacement identifiers must exist somewhere in the file
    idents = set(re.findall(r"[A-Za-z_][A-Za-z_0-9]*", src))
    good = []
    for (ln, c0, c1, old, new, kind) in out:
        line = lines[ln - 1]
        if line.lstrip().startswith("#") or '"""' in line:
            continue
        if kind in ("name", "attr") and new not in idents:
            continue
        good.append((ln, c0, c1, old, new, kind))
    return sorted(set(good))


def run_mutant(job):
    mid, fkey, site, workdir, verif_copy, run_suite = job
    ln, c0, c1, old, new, kind = site
    wt = os.path.join(workdir, f"wt-{mid}")
    subprocess.run(["git", "-C", REPO, "worktree", "remove", "--force", wt], capture_output=True)
    subprocess.run(["git", "-C", REPO, "worktree", "add", "-q", "--detach", wt, "HEAD"], check=True, capture_output=True)
    res = {"id": mid, "file": fkey, "line": ln, "kind": kind, "old": old, "new": new}
    try:
        shutil.copy(os.path.join(REPO, "src/vector/_version.py"), os.path.join(wt, "src/vector/_version.py"))
        p = os.path.join(wt, FILES[fkey])
        lines = open(p).read().split("\n")
        res["source"] = lines[ln - 1].strip()[:160]
        lines[ln - 1] = lines[ln - 1][:c0] + new + lines[ln - 1][c1:]
        open(p, "w").write("\n".join(lines))
        env = dict(os.environ, PYTHONPATH=os.path.join(wt, "src"), VERIF_REPO=wt, VERIF_HARNESS_ONLY="1", VERIF_SEED=str(mid % 7))
        imp = subprocess.run(["/venv/bin/python", "-c", "import vector, vector.backends.awkward, vector.backends.numpy, vector.backends.sympy"],
                             env=env, capture_output=True, text=True, timeout=300)
        if imp.returncode != 0:
            res["status"] = "import-fails"
            return res
        killed = []
        for chk in CHECKS[fkey]:
            try:
                q = subprocess.run(["./check", chk], cwd=verif_copy, env=env, capture_output=True, text=True, timeout=900)
                if q.returncode == 1 and "VIOLATION" in q.stdout:
                    killed.append(chk)
                    break                      # one detecting check is enough
                if q.returncode == 2:
                    res.setdefault("infra", []).append(chk)
            except subprocess.TimeoutExpired:
                res.setdefault("infra", []).append(chk + ":timeout")
        res["killed_by"] = killed
        res["status"] = "killed" if killed else "survived"
        if not killed and run_suite:
            t = subprocess.run(["/venv/bin/python", "-m", "pytest", "-q", "-x", "-p", "no:cacheprovider", "--timeout=600", "-n", "4", "tests",
                                "--deselect", "tests/test_notebooks.py", "--ignore=tests/compute/sympy"], cwd=wt, env=env, capture_output=True, text=True, timeout=1800)
            tail = (t.stdout.strip().splitlines() or [""])[-1]
            res["suite"] = tail[-100:]
            res["suite_kills"] = " failed" in tail or "error" in tail.lower()
    except Exception as e:  # noqa: BLE001
        res["status"] = "error"
        res["error"] = f"{type(e).__name__}: {str(e)[:200]}"
    finally:
        subprocess.run(["git", "-C", REPO, "worktree", "remove", "--force", wt], capture_output=True)
    return res


def main():
    ap = argparse.ArgumentParser()
    ap.add_argument("--n", type=int, default=40)
    ap.add_argument("--seed", type=int, default=1)
    ap.add_argument("--files", default="object.py,numpy.py,awkward.py,awkward_constructors.py,_methods.py")
    ap.add_argument("--workers", type=int, default=10)
    ap.add_argument("--log", default="/root/logs/mutants.jsonl")
    ap.add_argument("--no-suite", action="store_true")
    a = ap.parse_args()
    r = random.Random(a.seed)
    workdir = "/var/tmp/mut"
    os.makedirs(workdir, exist_ok=True)
    verif_copy = os.path.join(workdir, "verif")
    subprocess.run(["rsync", "-a", "--delete", "--exclude", ".git", "--exclude", "replays", VERIF + "/", verif_copy + "/"], check=True)
    os.makedirs(os.path.join(verif_copy, "replays"), exist_ok=True)
    jobs = []
    files = a.files.split(",")
    per = max(1, a.n // len(files))
    mid = a.seed * 1000
    for fkey in files:
        ss = sites(os.path.join(REPO, FILES[fkey]))
        # one mutant per source line at most, spread over kinds
        r.shuffle(ss)
        seen, pick = set(), []
        for s_ in ss:
            if s_[0] in seen:
                continue
            seen.add(s_[0])
            pick.append(s_)
            if len(pick) >= per:
                break
        for s_ in pick:
            mid += 1
            jobs.append((mid, fkey, s_, workdir, verif_copy, not a.no_suite))
    print(f"{len(jobs)} mutants", flush=True)
    with open(a.log, "a") as log, cf.ProcessPoolExecutor(a.workers) as ex:
        for res in ex.map(run_mutant, jobs):
            log.write(json.dumps(res) + "\n")
            log.flush()
            print(res.get("status"), res["file"], res["line"], res["kind"], repr(res["old"]), "->", repr(res["new"]), res.get("killed_by"), res.get("suite", ""), flush=True)
    shutil.rmtree(verif_copy, ignore_errors=True)


if __name__ == "__main__":
    sys.exit(main())
