#!/venv/bin/python
"""./check <Cxx> [--tier quick|thorough] [--replay FILE]

One run (DESIGN.md 3.8):
  1. regenerate the Lean model from /repo's working tree (tools/translate.py)
  2. validate the translator: Route A (generated Lean @ Sym) == Route B (real functions executed on tracer scalars)
  3. lake build the property's theorem files
  4. audit: #print axioms of every property theorem ⊆ {propext, Classical.choice, Quot.sound}; forbidden-token grep
  5. correspondence harness for the glue the property depends on
  6. green -> evidence, exit 0.  otherwise -> failing-input search on the REAL code, replay file,
     `VIOLATION property=<id> replay=<path>` (… `no-failing-input-found` when the search finds nothing), exit 1.
Infrastructure failures exit 2.
"""
from __future__ import annotations

import argparse
import fcntl
import glob
import hashlib
import importlib
import json
import os
import re
import shutil
import subprocess
import sys
import time
import traceback

VERIF = os.path.dirname(os.path.dirname(os.path.abspath(__file__)))
LEANDIR = os.path.join(VERIF, "lean")
sys.path.insert(0, VERIF)
sys.path.insert(0, os.path.join(VERIF, "tools"))
PY = "/venv/bin/python"
REPO = os.environ.get("VERIF_REPO", "/repo")   # trials of seeded changes run against a scratch copy; registered checks use /repo
ALLOWED_AXIOMS = {"propext", "Classical.choice", "Quot.sound"}
FORBIDDEN = re.compile(r"\bsorry\b|\badmit\b|^\s*axiom\s|native_decide|bv_decide|implemented_by|\bunsafe\s|maxHeartbeats\s+0\b")
TRUSTED_BASE = [
    "Lean 4.33 kernel (re-checked by leanchecker in the thorough tier) and Mathlib v4.33 as installed",
    "axioms: propext, Classical.choice, Quot.sound only (audited by #print axioms each run); no native_decide/bv_decide/sorry",
    "Prim/Real.lean: real-number meaning of the NumPy primitives on regular inputs (DESIGN.md 3.4); singular inputs have no real meaning",
    "tools/translate.py (AST -> Lean), reduced by the per-run exact differential against tools/tracer.py executing the real functions",
    "hand-written Spec/ and Glue/ Lean files as a faithful reading of the documentation / source, reduced by the correspondence harness",
    "harness/*.py and the Lean drivers' parser/printer",
    "CPython, NumPy, Awkward, Numba, SymPy themselves; floating-point rounding is not modelled",
]


class Infra(Exception):
    pass


def sh(cmd, timeout, cwd=None, env=None, inp=None):
    t0 = time.time()
    try:
        p = subprocess.run(cmd, cwd=cwd, env=env, input=inp, capture_output=True, text=True, timeout=timeout)
    except subprocess.TimeoutExpired as e:
        raise Infra(f"timeout after {timeout}s: {' '.join(cmd)[:200]}") from e
    return p.returncode, p.stdout, p.stderr, time.time() - t0


class Ctx:
    def __init__(self, prop, tier, seed):
        self.prop = prop
        self.tier = tier
        self.seed = seed
        self.t0 = time.time()
        self.notes = []
        self.index = None
        self.scratch = None
        self.stats = {}

    def log(self, msg):
        print(f"[{self.prop} {time.time() - self.t0:6.1f}s] {msg}", flush=True)

    def mkscratch(self):
        if self.scratch is None:
            base = os.environ.get("VERIF_SCRATCH", "/var/tmp")
            self.scratch = os.path.join(base, f"verif-{self.prop}-{os.getpid()}")
            os.makedirs(self.scratch, exist_ok=True)
        return self.scratch

    def cleanup(self):
        if self.scratch:
            shutil.rmtree(self.scratch, ignore_errors=True)


# --------------------------------------------------------------------------- steps
def file_hash(paths):
    h = hashlib.sha256()
    for p in sorted(paths):
        h.update(p.encode())
        with open(p, "rb") as f:
            h.update(f.read())
    return h.hexdigest()


def regen(ctx):
    rc, out, err, dt = sh([PY, os.path.join(VERIF, "tools", "translate.py")], 300)
    ctx.stats["translate_s"] = round(dt, 1)
    try:
        ctx.index = json.load(open(os.path.join(VERIF, "gen", "index.json")))
    except Exception as e:  # noqa: BLE001
        ctx.index = {"ok": False, "errors": [f"translator crashed: {err[-400:]}"]}
    if rc != 0 or not ctx.index.get("ok"):
        errs = ctx.index.get("errors") or [err[-400:]]
        return [f"model-not-derivable: {e}" for e in errs[:10]]
    bad = []
    for m, k in ctx.index.get("missing_keys", []):
        bad.append(f"dispatch-key-missing: {m} {','.join(k)}")
    for w in ctx.index.get("warnings", []):
        bad.append(f"translator-warning: {w}")
    return bad


def lake_build(ctx, targets, timeout=1500):
    rc, out, err, dt = sh(["lake", "build"] + targets, timeout, cwd=LEANDIR)
    ctx.stats.setdefault("lake_build_s", 0)
    ctx.stats["lake_build_s"] = round(ctx.stats["lake_build_s"] + dt, 1)
    return rc, out + err


def validate_translator(ctx):
    """Route A vs Route B over all dispatch entries; cached on the content hash of everything involved."""
    src = glob.glob(REPO + "/src/vector/_compute/*/*.py") + glob.glob(REPO + "/src/vector/_compute/*.py") + [
        REPO + "/src/vector/_methods.py", os.path.join(VERIF, "tools", "translate.py"), os.path.join(VERIF, "tools", "tracer.py"),
        os.path.join(LEANDIR, "VectorModel", "Exec", "Sym.lean"), os.path.join(LEANDIR, "VectorModel", "Driver", "RouteA.lean"),
        os.path.join(LEANDIR, "VectorModel", "Prim", "Exec.lean"), os.path.join(LEANDIR, "VectorModel", "Prim", "Keys.lean")]
    key = file_hash(src)
    cache = os.path.join(VERIF, "gen", "validated.json")
    try:
        c = json.load(open(cache))
        if c.get("key") == key and c.get("ok"):
            ctx.stats["translator_entries_validated"] = c["n"]
            ctx.stats["translator_validation"] = "cached (same source hash)"
            ctx.stats["translator_samples"] = c.get("samples", [])
            return []
    except Exception:  # noqa: BLE001
        pass
    rc, log = lake_build(ctx, ["VectorModel.Gen.Exec.All", "VectorModel.Exec.Sym"])
    if rc != 0:
        return ["exec-copy-does-not-build: " + summarize_lean_errors(log)[:300]]
    rc, a, err, dt = sh(["lake", "env", "lean", "--run", "VectorModel/Driver/RouteA.lean"], 600, cwd=LEANDIR)
    if rc != 0:
        raise Infra("RouteA driver failed: " + err[-300:])
    ctx.stats["routeA_s"] = round(dt, 1)
    import tracer
    importlib.reload(tracer)
    b = tracer.trace_all()
    A = {}
    for line in a.splitlines():
        parts = line.split("\t")
        if len(parts) == 3:
            A[parts[0]] = (parts[1], parts[2])
    bad = []
    for k in sorted(set(A) | set(b)):
        if A.get(k) != b.get(k):
            bad.append(f"translator-mismatch: {k}: lean={str(A.get(k))[:120]} python={str(b.get(k))[:120]}")
    ctx.stats["translator_entries_validated"] = len(b)
    ctx.stats["translator_validation"] = "run"
    samples = [f"{k}\t{v[0][:160]}\t{v[1]}" for k, v in list(sorted(b.items()))[:: max(1, len(b) // 4)][:4]]
    ctx.stats["translator_samples"] = samples
    if not bad:
        json.dump({"key": key, "ok": True, "n": len(b), "samples": samples}, open(cache, "w"))
    return bad


def summarize_lean_errors(log):
    errs = re.findall(r"error: (\S+\.lean):(\d+):(\d+): (.*)", log)
    return "; ".join(f"{f}:{l}: {m[:100]}" for f, l, _, m in errs[:8]) or log[-300:]


def theorems_in(path):
    """[(name, line)] of theorems declared in a Lean file (namespace-qualified with VR./VG. when inside one)"""
    out = []
    ns = []
    text = open(path).read()
    # blank out block comments (keeping line numbers) and line comments: "theorem" inside a doc comment is not a declaration
    text = re.sub(r"/-.*?-/", lambda m: "\n" * m.group(0).count("\n"), text, flags=re.S)
    text = re.sub(r"--.*", "", text)
    for i, line in enumerate(text.split("\n"), 1):
        m = re.match(r"\s*namespace\s+(\S+)", line)
        if m:
            ns.append(m.group(1))
        m = re.match(r"\s*end\s+(\S+)", line)
        if m and ns and ns[-1] == m.group(1):
            ns.pop()
        m = re.match(r"\s*(?:protected\s+)?theorem\s+([A-Za-z_][^\s$]*)", line)
        if m:
            out.append((".".join(ns + [m.group(1)]), i))
    return out


def failed_theorems(log, files):
    """map lake error locations to the enclosing theorem"""
    out = []
    for f, l, _, msg in re.findall(r"error: (\S+\.lean):(\d+):(\d+): (.*)", log):
        full = os.path.join(LEANDIR, f)
        name = None
        if os.path.exists(full):
            for nm, line in theorems_in(full):
                if line <= int(l):
                    name = nm
        out.append(f"{f}:{l} {name or '?'}: {msg[:120]}")
    return out


def strip_comments(text):
    text = re.sub(r"/-.*?-/", "", text, flags=re.S)
    return re.sub(r"--.*", "", text)


def audit(ctx, thm_files):
    """#print axioms for every theorem of the property's files + forbidden-token grep over all hand-written Lean"""
    problems = []
    names = []
    mods = []
    for f in thm_files:
        full = os.path.join(LEANDIR, f)
        names += [n for n, _ in theorems_in(full)]
        mods.append(f[:-5].replace("/", "."))
    # forbidden tokens in the property's theorem files and everything hand-written they (transitively) import
    seen, todo = set(), [os.path.join(LEANDIR, f) for f in thm_files]
    while todo:
        f = todo.pop()
        if f in seen or not os.path.exists(f):
            continue
        seen.add(f)
        text = open(f).read()
        for m in re.findall(r"^import (VectorModel\.\S+)", text, flags=re.M):
            todo.append(os.path.join(LEANDIR, m.replace(".", "/") + ".lean"))
        if "/Gen/" in f:
            continue
        for i, line in enumerate(strip_comments(text).splitlines(), 1):
            if FORBIDDEN.search(line):
                problems.append(f"forbidden-token: {os.path.relpath(f, LEANDIR)}:{i}: {line.strip()[:80]}")
    src = "\n".join(f"import {m}" for m in mods) + "\n" + "\n".join(f"#print axioms {n}" for n in names) + "\n"
    scratch = ctx.mkscratch()
    p = os.path.join(scratch, "Audit.lean")
    open(p, "w").write(src)
    rc, out, err, dt = sh(["lake", "env", "lean", p], 900, cwd=LEANDIR)
    ctx.stats["audit_s"] = round(dt, 1)
    if rc != 0:
        problems.append("audit-failed: " + (out + err)[-300:])
        return names, {}, problems
    axioms = {}
    for m in re.finditer(r"'(\S+)' depends on axioms: \[([^\]]*)\]", out.replace("\n", " ")):
        axioms[m.group(1)] = sorted(a.strip() for a in m.group(2).split(","))
    for m in re.finditer(r"'(\S+)' does not depend on any axioms", out):
        axioms[m.group(1)] = []
    for n in names:
        if n not in axioms:
            problems.append(f"audit-missing: {n}")
        elif not set(axioms[n]) <= ALLOWED_AXIOMS:
            problems.append(f"axiom-violation: {n} uses {axioms[n]}")
    return names, axioms, problems


def leanchecker(ctx, mods):
    rc, out, err, dt = sh(["lake", "env", "leanchecker"] + mods, 1500, cwd=LEANDIR)
    ctx.stats["leanchecker_s"] = round(dt, 1)
    if rc != 0:
        return [f"leanchecker: {(out + err)[-300:]}"]
    return []


# --------------------------------------------------------------------------- findings / replays
def load_known():
    try:
        return json.load(open(os.path.join(VERIF, "known_findings.json")))
    except FileNotFoundError:
        return {"findings": [], "fixed": []}


def run_code(code, timeout=300):
    """run a replay snippet against the real code; -> (violates: bool|None, output)"""
    rc, out, err, _ = sh([PY, "-c", code], timeout, cwd=REPO)
    if rc == 0:
        return False, out
    if "AssertionError" in err:
        return True, err[-600:]
    return None, err[-600:]


def write_replay(ctx, payload):
    os.makedirs(os.path.join(VERIF, "replays"), exist_ok=True)
    h = hashlib.sha256(json.dumps(payload, sort_keys=True, default=str).encode()).hexdigest()[:10]
    tag = "" if payload.get("code") else "unproved-"
    path = os.path.join("replays", f"{ctx.prop}-{tag}{h}.json")
    json.dump(payload, open(os.path.join(VERIF, path), "w"), indent=1, default=str)
    return path


def replay(prop, path):
    d = json.load(open(path if os.path.isabs(path) else os.path.join(VERIF, path)))
    if not d.get("code"):
        print(f"replay {path}: names broken obligations only: {d.get('broken')}")
        return 1
    v, out = run_code(d["code"])
    print(out)
    if v:
        print(f"VIOLATION property={prop} replay={path}")
        return 1
    print("replay: no violation reproduced" if v is False else "replay: could not run")
    return 0 if v is False else 2


# --------------------------------------------------------------------------- main
def main():
    ap = argparse.ArgumentParser()
    ap.add_argument("prop")
    ap.add_argument("--tier", default=os.environ.get("VERIF_TIER", "quick"), choices=["quick", "thorough"])
    ap.add_argument("--replay")
    a = ap.parse_args()
    prop = a.prop.upper()
    if a.replay:
        return replay(prop, a.replay)
    seed = int(os.environ.get("VERIF_SEED", "0") or 0)
    ctx = Ctx(prop, a.tier, seed)
    try:
        H = importlib.import_module(f"harness.{prop.lower()}")
    except ModuleNotFoundError as e:
        print(f"no harness for {prop}: {e}")
        return 2
    lock = open(os.path.join(VERIF, ".lock"), "w")
    try:
        broken = []          # strings naming what no longer checks
        ctx.log("regenerate model from /repo working tree")
        harness_only = bool(os.environ.get("VERIF_HARNESS_ONLY"))   # mutation campaigns on the backend glue only (tools/mutate.py): never in a registered check
        if harness_only:
            ctx.notes.append("VERIF_HARNESS_ONLY: model regeneration, Lean build and audit skipped (scratch mutation run)")
        fcntl.flock(lock, fcntl.LOCK_EX if not harness_only else fcntl.LOCK_SH)
        try:
            if harness_only:
                ctx.index = json.load(open(os.path.join(VERIF, "gen", "index.json")))
                raise_skip = True
            else:
                raise_skip = False
                broken += regen(ctx)
            model_ok = not any(b.startswith("model-not-derivable") for b in broken) and not raise_skip
            names, axioms = [], {}
            if model_ok and getattr(H, "NEEDS_TRANSLATOR", True):
                ctx.log("validate translator (Route A vs Route B)")
                broken += validate_translator(ctx)
            if model_ok:
                ctx.log("lake build " + " ".join(H.LEAN_TARGETS))
                rc, log = lake_build(ctx, H.LEAN_TARGETS)
                if rc != 0:
                    ft = failed_theorems(log, H.THEOREM_FILES)
                    broken += [f"lean-build-failed: {x}" for x in (ft or [summarize_lean_errors(log)])]
                else:
                    for opt in getattr(H, "FINDINGS_TARGETS", []):
                        rc2, _ = lake_build(ctx, [opt])
                        ctx.notes.append(f"optional witness file {opt}: " + ("builds (the recorded findings are still provable)" if rc2 == 0
                                         else "no longer builds (a recorded finding may have been repaired); not an obligation"))
                    ctx.log("axiom audit")
                    names, axioms, probs = audit(ctx, H.THEOREM_FILES)
                    broken += probs
                    if ctx.tier == "thorough" and not probs:
                        ctx.log("leanchecker")
                        broken += leanchecker(ctx, [f[:-5].replace("/", ".") for f in H.THEOREM_FILES])
        finally:
            fcntl.flock(lock, fcntl.LOCK_UN)
        ctx.names = names
        broken = list(dict.fromkeys(broken))
        ctx.log(f"correspondence ({ctx.tier})")
        corr = {"ok": True, "disagreements": [], "stats": {}, "samples": []}
        if hasattr(H, "correspondence"):
            try:
                corr = H.correspondence(ctx)
            except Infra:
                raise
            except Exception as e:  # noqa: BLE001
                # the harness drives the REAL code: an exception escaping from it means the code did something the harness (written
                # against the unchanged tree, where it runs clean) does not expect - reported as a broken correspondence, not as infrastructure
                tb = traceback.format_exc().strip().splitlines()
                corr = {"ok": False, "disagreements": [f"harness-exception: {type(e).__name__}: {str(e)[:200]} @ {tb[-3].strip()[:120] if len(tb) > 2 else ''}"],
                        "stats": {}, "samples": []}
            broken += [f"correspondence: {d}" for d in corr.get("disagreements", [])[:20]]
        # ---------------------------------------------------------------- verdict
        known = [f for f in load_known().get("findings", []) if f["property"] == prop]
        violations = []
        known_lines = []
        # direct failing inputs produced by the correspondence itself
        found = list(corr.get("failing_inputs", []))
        if broken or ctx.tier == "thorough" or getattr(H, "ALWAYS_SEARCH", False):
            ctx.log("failing-input search on the real code" + (f" ({len(broken)} broken items)" if broken else " (proactive)"))
            try:
                found += H.search(ctx, broken) if hasattr(H, "search") else []
            except Infra:
                raise
            except Exception as e:  # noqa: BLE001
                broken.append(f"search-exception: {type(e).__name__}: {str(e)[:200]}")
        known_keys = {f["key"] for f in known}
        seen = set()
        for fi in found:
            if fi["key"] in seen:
                continue
            seen.add(fi["key"])
            if fi["key"] in known_keys:
                continue
            if len(violations) >= 3:
                continue
            if not fi.get("code"):
                # no dedicated replay program: re-run the property's correspondence and look for the same failing key
                fi = dict(fi)
                fi["code"] = ("import sys; sys.path.insert(0, %r); sys.path.insert(0, %r)\nimport importlib\nH = importlib.import_module('harness.%s')\n"
                              "class X:\n    seed = %d; tier = %r; notes = []; stats = {}\n    def log(self, *a): pass\n"
                              "out = H.correspondence(X())\nhit = [f for f in out.get('failing_inputs', []) if f['key'] == %r]\n"
                              "assert not hit, hit[0]['what']\n" % (VERIF, os.path.join(VERIF, "tools"), prop.lower(), seed, ctx.tier, fi["key"]))
            path = write_replay(ctx, {"property": prop, "seed": seed, "tier": ctx.tier, "broken": broken[:20], **fi})
            violations.append(f"VIOLATION property={prop} replay={path}")
        for f in known:
            v, out = run_code(f["code"])
            if v:
                known_lines.append(f"KNOWN-FINDING: property={prop} {f['what']}")
            elif v is None:
                ctx.notes.append(f"known finding {f['key']} could not be replayed: {out[-200:]}")
        # broken items that are not explained by a known finding and for which no input was found
        unexplained = [b for b in broken if not any(k in b for k in known_keys)]
        if unexplained and not violations:
            path = write_replay(ctx, {"property": prop, "seed": seed, "tier": ctx.tier, "broken": unexplained[:50],
                                      "what": "no longer shown to hold; no failing input found", "code": None})
            violations.append(f"VIOLATION property={prop} replay={path} no-failing-input-found")
        for line in known_lines:
            print(line)
        for b in broken[:30]:
            print("BROKEN:", b)
        for v in violations:
            print(v)
        # ---------------------------------------------------------------- evidence
        wall = time.time() - ctx.t0
        cov = {
            "obligations": len(names),
            "discharged": len([n for n in names if n in axioms and set(axioms[n]) <= ALLOWED_AXIOMS]) if not any(
                b.startswith("lean-build-failed") for b in broken) else 0,
            "checker_cmd": "cd /verif/lean && lake build " + " ".join(H.LEAN_TARGETS) + " && #print axioms on every listed theorem"
                           + (" && lake env leanchecker <modules>" if ctx.tier == "thorough" else ""),
            "trusted_base": TRUSTED_BASE + list(getattr(H, "TRUSTED_EXTRA", [])),
            "theorems": names[:400],
            "axioms_used": sorted({a for v in axioms.values() for a in v}),
            "translator_entries_validated": ctx.stats.get("translator_entries_validated", 0),
            "translator_validation": ctx.stats.get("translator_validation", "not needed"),
            "traces_validated_against_impl": int(corr.get("stats", {}).get("traces_validated_against_impl", 0)),
            "disagreements_checked": len(corr.get("disagreements", [])),
            "correspondence": corr.get("stats", {}),
            "samples": (corr.get("samples", []) + ctx.stats.get("translator_samples", []) + names[:5])[:12] or ["(none)"],
            "failing_inputs_found": len(found),
            "known_findings_reproduced": known_lines,
            "broken": broken[:30],
            "timings": {k: v for k, v in ctx.stats.items() if k.endswith("_s")},
            "not_covered": getattr(H, "NOT_COVERED", []),
            "notes": ctx.notes,
            "explanation": getattr(H, "EXPLANATION", "obligations = Lean theorems of the property built and axiom-audited in this run; the model is tied to "
                                   "the code by the translator validation and/or the correspondence harness whose counts are listed here"),
        }
        if len(names) == 0:
            cov.pop("obligations"); cov.pop("discharged")
            cov["explanation"] = "no theorem inventory available in this run (build failed before audit)"
            cov["evaluations"] = max(1, cov["translator_entries_validated"])
            cov["distinct_nontrivial"] = max(2, cov["translator_entries_validated"])
        ev = {"property_id": prop, "tier": ctx.tier, "seed": seed, "level": getattr(H, "LEVEL", "proof"), "coverage": cov,
              "assumptions": TRUSTED_BASE[:3] + list(getattr(H, "ASSUMPTIONS", [])), "wall_s": round(wall, 1),
              "violations": len(violations)}
        os.makedirs(os.path.join(VERIF, "evidence"), exist_ok=True)
        json.dump(ev, open(os.path.join(VERIF, "evidence", f"{prop}.json"), "w"), indent=1, default=str)
        ctx.log(f"done: {len(names)} theorems, {len(broken)} broken items, {len(violations)} violations, "
                f"{len(known_lines)} known findings")
        return 1 if violations else 0
    except Infra as e:
        print(f"INFRASTRUCTURE: {e}")
        return 2
    except Exception:  # noqa: BLE001
        traceback.print_exc()
        print("INFRASTRUCTURE: unexpected exception in the check driver")
        return 2
    finally:
        ctx.cleanup()


if __name__ == "__main__":
    sys.exit(main())
