#!/bin/sh
# confirm a seeded change in scratch worktree /tmp/seed/<id>[-n]: demo fails with it, passes without it, suite still passes
# usage: tools/confirm_seed.sh <worktree dir> <seed name>
set -u
W="$1"; NAME="$2"
cd "$W" || exit 2
export PYTHONPATH="$W/src"
git diff -- src > patch.diff
[ -s patch.diff ] || { echo "empty patch"; exit 2; }
/venv/bin/python demo.py >/dev/null 2>&1; WITH=$?
git apply -R patch.diff || exit 2
/venv/bin/python demo.py >/dev/null 2>&1; WITHOUT=$?
git apply patch.diff || exit 2
echo "demo exit with change: $WITH ; without: $WITHOUT"
[ "$WITH" != 0 ] && [ "$WITHOUT" = 0 ] || { echo "DEMO NOT CONFIRMED"; exit 1; }
/venv/bin/python /verif/tools/baseline.py --repo "$W" -n 8 | tee suite.txt
grep -q " 0 of 795 stable-pass tests missing" suite.txt || { echo "SUITE NOT CONFIRMED"; exit 1; }
mkdir -p /verif/seeded/$NAME
cp patch.diff demo.py meta.json /verif/seeded/$NAME/
echo "confirmed -> /verif/seeded/$NAME"
