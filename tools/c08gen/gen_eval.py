import re,json,itertools,sys
exec(open('/tmp/c08/gen.py').read().split("# topological order of modules")[0])
H=json.load(open('/tmp/c08/hyp.json')); done=H['order']; HYP={k:[tuple(x) for x in v] for k,v in H['HYP'].items()}
CONS={'Az':['xy','rhophi'],'Lon':['z','theta','eta'],'Tmp':['t','tau']}
def parse_eval(m):
    txt=open(SYM+m+'.lean').read()
    mm=re.search(r'^def %s\.eval (.*\)) : (.*?) :=\n  match (.*?) with\n((?:  \| .*\n)+)'%m,txt,re.M)
    sig,rty,disc,arms=mm.groups()
    keys=re.findall(r'\((k\d+) : (\w+)\)',sig)
    args=re.findall(r'\((a\d+) : S\)',sig)
    A={}
    for line in arms.strip().split('\n'):
        pat,rhs=line.strip()[2:].split(' => ')
        ks=tuple(p.strip()[1:] for p in pat.split(','))
        toks=rhs.split()
        A[ks]=(toks[0],toks[1:])
    return keys,args,rty,A
out=[]
summary=[]
for m in done:
    keys,args,rty,A=parse_eval(m)
    combos=list(itertools.product(*[CONS[t] for _,t in keys]))
    assert set(combos)==set(A.keys()),m
    isprop = rty.strip().startswith('B')
    # collect hypotheses needed: map (branch)->list of props in terms of a_i
    need={}  # prop -> set of branches
    branch_h={}
    for ks in combos:
        f,fargs=A[ks]
        assert fargs==args,(m,ks,fargs)
        L=[]
        if f in dirty:
            mp=dict(zip(params(f),args))
            for hn,prop in HYP[f]:
                p=subst(prop,mp); L.append((hn,p)); need.setdefault(p,set()).add(ks)
        branch_h[ks]=L
    # classify
    binders=[]; hterm={}   # prop -> (term usable in branch)
    special=None
    if m in('lorentz_tau','lorentz_gamma'):
        special='hs'
        binders.append('(hs : 0 ≤ VR.lorentz_tau2.eval %s %s)'%(' '.join(k for k,_ in keys),' '.join(args)))
    elif m=='spatial_deltaangle':
        special='ang'
        c='VR.spatial_dot.eval k0 k1 k2 k3 a0 a1 a2 a3 a4 a5 / VR.spatial_mag.eval k0 k1 a0 a1 a2 / VR.spatial_mag.eval k2 k3 a3 a4 a5'
        binders+=['(hlo : -1 ≤ %s)'%c,'(hhi : %s ≤ 1)'%c]
    for p,brs in need.items():
        if special=='hs':
            hterm[p]='(c08_nonneg_of_copysign_sq hs)' if re.fullmatch(r'0 ≤ a\d+',p) else 'hs'
            continue
        if special=='ang':
            hterm[p]='hlo' if p.startswith('-1') else 'hhi'; continue
        mres=re.fullmatch(r'0 ≤ \(VR\.\S+ .*\)\.2\.2\.2',p)
        if mres:
            hterm[p]='(hres rfl rfl)'; continue
        mm=re.fullmatch(r'0 ≤ (a\d+)',p)
        assert mm,(m,p)
        ai=mm.group(1)
        if len(brs)==len(combos):
            hn='h'+ai; b='(%s : 0 ≤ %s)'%(hn,ai)
            if b not in binders: binders.append(b)
            hterm[p]=hn; continue
        found=False
        for j,(kn,kt) in enumerate(keys):
            if kt=='Tmp' and not found and brs<={ks for ks in combos if ks[j]=='tau'}:
                hn='hc'+ai[1:]; b='(%s : CanonTmp %s %s)'%(hn,kn,ai)
                if b not in binders: binders.append(b)
                hterm[p]=hn; found=True
        assert found,(m,p)
    if any('hres' in t for t in hterm.values()):
        binders.append('(hres : k2 = .tau → k5 = .tau → 0 ≤ (VR.%s.eval %s %s).2.2.2)'%(m,' '.join(k for k,_ in keys),' '.join(args)))
    binders.sort(key=lambda b:(0 if b.startswith('(ha') else 1 if b.startswith('(hc') else 2, int(re.search(r'a(\d+)\)',b).group(1)) if b.startswith(('(ha','(hc')) else 0))
    kb=' '.join('(%s : %s)'%kt for kt in keys)
    lhs='VS.%s.eval %s %s'%(m,' '.join(k for k,_ in keys),' '.join(args))
    rhs='VR.%s.eval %s %s'%(m,' '.join(k for k,_ in keys),' '.join(args))
    rel='↔' if isprop else '='
    s='theorem c08_%s %s (%s : ℝ)%s :\n    %s %s\n      %s := by\n'%(m,kb,' '.join(args),''.join('\n    '+b for b in binders),lhs,rel,rhs)
    s+='  '+' <;> '.join('cases %s'%k for k,_ in keys)+'\n'
    for ks in combos:
        f,_=A[ks]
        if f in dirty:
            t='%s %s'%(lname(f),' '.join(args))
            for hn,p in branch_h[ks]: t+=' '+hterm[p]
        else:
            t='VS.%s_eq %s'%(f,' '.join(args))
        if isprop: t='Iff.of_eq (%s)'%t
        s+='  · exact %s\n'%t
    out.append('/-- `%s`: all %d keys -/\n'%(m,len(combos))+s)
    summary.append((m,len(combos),binders))
open('/tmp/c08/gen_eval.lean','w').write('\n'.join(out))
for x in summary: print(x)
