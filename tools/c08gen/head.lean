/-
C08 — SymPy expressions agree with the numeric backends on the regular domain.

`Gen/Sym` (namespace `VS`) is the compute layer as `vector._lib.SympyLib` evaluates it: `nan_to_num(e, …) = e`,
`maximum/minimum(a, b)` = the symbolic argument, `copysign(a, b) = a`, `isclose(a, b, …) = (a = b)`; `Gen/Real` (namespace `VR`) is
the numeric meaning.  For the 1222 functions that (transitively) contain none of these primitives the translator itself proves
`VS.f_eq : VS.f = VR.f`.  This file treats the other 1211 ("dirty") functions:

* one lemma `c08_<module>_<function>` per dirty non-`isclose` function (1027 lemmas): `VS.f args = VR.f args` under the hypotheses that
  make every dropped clamp / sign transfer on its call tree inactive —
  `0 ≤ tau` for τ-typed operands (`copysign(τ², τ) = τ²`, `max(τ² + |p|², 0)` inactive),
  `0 ≤ t² − |p|²` (`0 ≤ VR.lorentz_tau2.…_t …`) where `tau` is computed from `t` (`copysign(√|s|, s)`),
  `0 ≤ gamma` for the boosts by gamma, `-1 ≤ c ≤ 1` for the clamp of `deltaangle`,
  "the numeric result τ is non-negative" for `add`/`subtract` of two τ-typed operands; nothing at all for `scale` (`sign` is kept);
* one theorem `c08_<module>` per dirty module over ALL keys of its dispatch table through `eval` (36 modules; hypotheses
  `Spec.CanonTmp` on the operands whose τ is read), `↔` for the predicates;
* `isclose` (184 functions, 3 modules) is a documented difference: the symbolic `isclose` is the symbolic `==` for all keys
  (`c08_*_isclose_iff_equal`), hence the numeric `==` on the regular domain; no agreement with numeric `isclose` is claimed
  (and a witness of the difference is given);
* the clamp hypothesis of `deltaangle` and the result hypothesis of `add` are derived for the Cartesian keys (Cauchy–Schwarz / triangle
  inequality), every hypothesis is shown satisfiable, and witnesses OUTSIDE the hypotheses show `VS.f ≠ VR.f` (negative τ, spacelike
  `(x,y,z,t)`, negative gamma): the hypotheses are needed — this is the symbolic backend's documented limitation, not a defect.

Reading: both copies model `nan_to_num` as the identity (`Prim/Real.lean`: finite values only), so the equalities say nothing about inputs
where the numeric backend replaces a NaN/∞ (division by a zero `t`, `tau`, `rho`, `sin θ`): there both sides contain the same
(meaningless) subterm, and the statements carry no information about such inputs.

The per-function part is produced by a script from `gen/index.json` (`sym_dirty`) and the call graph of `Gen/Sym`; every proof is a
one-level unfolding followed by rewriting with the callee lemmas.
-/
import VectorModel.Gen.Sym.All
import VectorModel.Spec.Basic
import Mathlib.Tactic.Ring
import Mathlib.Tactic.Linarith
import Mathlib.Tactic.Positivity
import Mathlib.Tactic.NormNum

set_option linter.unusedVariables false
set_option linter.unusedSimpArgs false
set_option maxRecDepth 4096

namespace VR
open VK Spec

/-! ### the dropped primitives are inactive on the regular domain -/

/-- `copysign(a, b) = a` when both are non-negative. -/
theorem c08_copysign_nonneg {a b : ℝ} (ha : 0 ≤ a) (hb : 0 ≤ b) : VR.P.copysign a b = a := by
  unfold VR.P.copysign; rw [if_pos hb, abs_of_nonneg ha]

/-- `copysign(τ², τ) = τ²` for `0 ≤ τ`. -/
theorem c08_copysign_sq {b : ℝ} (hb : 0 ≤ b) : VR.P.copysign (b ^ 2) b = b ^ 2 :=
  c08_copysign_nonneg (sq_nonneg b) hb

/-- if the numeric result of `copysign(a, b)` (`0 ≤ a`) is non-negative, the sign transfer was inactive. -/
theorem c08_copysign_of_result_nonneg {a b : ℝ} (ha : 0 ≤ a) (h : 0 ≤ VR.P.copysign a b) :
    VR.P.copysign a b = a := by
  unfold VR.P.copysign at h ⊢
  split_ifs at h ⊢ with hb
  · exact abs_of_nonneg ha
  · rw [abs_of_nonneg ha] at h ⊢; linarith

theorem c08_copysign_sqrt_abs {s : ℝ} (hs : 0 ≤ s) : VR.P.copysign (Real.sqrt |s|) s = Real.sqrt |s| :=
  c08_copysign_nonneg (Real.sqrt_nonneg _) hs

/-- the clamp `max(-1, min(1, c))` is inactive for `-1 ≤ c ≤ 1` -/
theorem c08_clamp {c : ℝ} (h1 : -1 ≤ c) (h2 : c ≤ 1) : max (-(1:ℝ)) (min (1:ℝ) c) = c := by
  rw [min_eq_right h2, max_eq_right h1]


/-- `copysign(τ², τ) ≥ 0` only for `τ ≥ 0` -/
theorem c08_nonneg_of_copysign_sq {b : ℝ} (h : 0 ≤ VR.P.copysign (b ^ 2) b) : 0 ≤ b := by
  by_contra hb
  unfold VR.P.copysign at h
  rw [if_neg hb, abs_of_nonneg (sq_nonneg b)] at h
  have hb' : b < 0 := not_le.mp hb
  nlinarith [mul_pos_of_neg_of_neg hb' hb']
