import re
SYM='/verif/lean/VectorModel/Gen/Sym/'
def defs(m):
    txt=open(SYM+m+'.lean').read()
    return [x for x in re.findall(r'^def ([\w\.]+) ',txt,re.M) if not x.endswith(('.ret','.evalL'))]
out=[]
for grp,keys,nargs in(('planar','(k0 k1 : Az)',4),('spatial','(k0 : Az) (k1 : Lon) (k2 : Az) (k3 : Lon)',6),('lorentz','(k0 : Az) (k1 : Lon) (k2 : Tmp) (k3 : Az) (k4 : Lon) (k5 : Tmp)',8)):
    ks=re.findall(r'k\d',keys)
    a=' '.join('a%d'%i for i in range(nargs))
    L=['VS.'+d for d in defs(grp+'_isclose')+defs(grp+'_equal')]
    if grp=='lorentz': L+=['VS.'+d for d in defs('spatial_isclose')+defs('spatial_equal')]
    out.append('''/-- the symbolic `isclose` is the symbolic `==`, whatever the tolerances (%s, all keys) -/
theorem c08_%s_isclose_iff_equal %s (rtol atol equal_nan %s : ℝ) :
    VS.%s_isclose.eval %s rtol atol equal_nan %s ↔ VS.%s_equal.eval %s %s := by
  %s <;>
  simp only [%s]
'''%(grp,grp,keys,a,grp,' '.join(ks),a,grp,' '.join(ks),a,' <;> '.join('cases '+k for k in ks),', '.join(L)))
open('gen_isclose.lean','w').write('\n'.join(out))
