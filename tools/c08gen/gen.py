import re,glob,os,json,collections,sys
SYM='/verif/lean/VectorModel/Gen/Sym/'; REAL='/verif/lean/VectorModel/Gen/Real/'
def parse(path):
    txt=open(path).read()
    out={}
    for m in re.finditer(r'^def ([\w\.]+) (.*?) :=\n(.*?)(?=\n\n|\n/--|\ntheorem|\ndef |\nend)', txt, re.S|re.M):
        out[m.group(1)]=(m.group(2),m.group(3))
    return out
idx=json.load(open('/verif/gen/index.json'))
dirty=set(idx['sym_dirty']); clean=set(idx['sym_clean'])
S={};R={};modfile={}
order=[]  # functions in file order
for p in sorted(glob.glob(SYM+'*.lean')):
    b=os.path.basename(p)
    if b=='All.lean': continue
    s=parse(p); S.update(s); R.update(parse(REAL+b))
    for k in s: modfile[k]=b[:-5]
def split_args(s):
    args=[];depth=0;cur='';i=0
    while i<len(s):
        ch=s[i]
        if ch=='(':
            depth+=1;cur+=ch
        elif ch==')':
            if depth==0: break
            depth-=1;cur+=ch
            if depth==0: args.append(cur);cur=''
        elif ch in ' \n' and depth==0:
            if cur: args.append(cur);cur=''
            if ch=='\n': break
        else: cur+=ch
        i+=1
    if cur: args.append(cur)
    return args
def params(f): return re.findall(r'\((\w+) : S\)',S[f][0])
FN=re.compile(r'\b((?:planar|spatial|lorentz)_\w+\.\w+)\b')
def callees(f):
    body=S[f][1]; out=[]
    for m in FN.finditer(body):
        c=m.group(1)
        if c in S and not c.endswith(('.eval','.ret','.evalL')):
            out.append((c,split_args(body[m.end():])))
    return out
def lname(f): return 'c08_'+f.replace('.','_')
def subst(prop,mp):
    return re.sub(r'\b(\w+)\b',lambda m: mp.get(m.group(1),m.group(1)),prop)

# ---------- hypotheses ----------
# HYP[f] = list of (hname, prop) over f's params
HYP={}
PROOF={}   # custom proof text for base functions
def mod(f): return f.split('.')[0]
def key(f): return f.split('.')[1]
base_own={}  # own hypotheses of base functions
for f in dirty:
    m=mod(f);k=key(f);ps=params(f)
    own=[]
    if m in('lorentz_tau2','lorentz_t2','lorentz_Mt2') and k.endswith('_tau'): own=[('htau','0 ≤ tau')]
    if m=='lorentz_unit' and k.endswith('_tau'): own=[('htau','0 ≤ tau')]
    if m=='lorentz_tau' and k.endswith('_t'):
        own=[('hs','0 ≤ VR.lorentz_tau2.%s %s'%(k,' '.join(ps)))]
    if m in('lorentz_boostX_gamma','lorentz_boostY_gamma','lorentz_boostZ_gamma'): own=[('hgamma','0 ≤ gamma')]
    if m=='spatial_deltaangle':
        k1,k2=re.match(r'((?:xy|rhophi)_(?:z|theta|eta))_((?:xy|rhophi)_(?:z|theta|eta))$',k).groups()
        c='VR.spatial_dot.%s %s / VR.spatial_mag.%s %s / VR.spatial_mag.%s %s'%(k,' '.join(ps),k1,' '.join(ps[:3]),k2,' '.join(ps[3:]))
        own=[('hlo','-1 ≤ '+c),('hhi',c+' ≤ 1')]
    base_own[f]=own
SPECIAL_RES={}  # add/subtract tau-tau: result hypothesis
def compute_hyps():
    changed=True
    for f in sorted(dirty): HYP[f]=list(base_own[f])
    while changed:
        changed=False
        for f in sorted(dirty):
            if 'isclose' in mod(f): continue
            ps=params(f)
            for c,args in callees(f):
                if c not in dirty: continue
                cps=params(c)
                if len(args)!=len(cps): raise Exception('arity %s %s %s'%(f,c,args))
                mp=dict(zip(cps,args))
                for hn,prop in HYP[c]:
                    used=[p for p in cps if re.search(r'\b%s\b'%p,prop)]
                    if any(mp[p] not in ps for p in used):
                        if mod(f) in('lorentz_add','lorentz_subtract') and mod(c)=='lorentz_tau':
                            SPECIAL_RES[f]=(c,args); continue
                        raise Exception('compound hyp arg %s %s %s'%(f,c,args))
                    np=subst(prop,mp)
                    if np not in [p for _,p in HYP[f]]:
                        # name
                        nm='h'+str(len(HYP[f]))
                        HYP[f].append((nm,np)); changed=True
compute_hyps()
for f,(c,args) in SPECIAL_RES.items():
    HYP[f].append(('hres','0 ≤ (VR.%s %s).2.2.2'%(f,' '.join(params(f)))))

def hyp_binders(f): return ' '.join('(%s : %s)'%(n,p) for n,p in HYP[f])
def stmt(f):
    ps=' '.join(params(f))
    hb=hyp_binders(f)
    return 'theorem %s (%s : ℝ) %s:\n    VS.%s %s = VR.%s %s'%(lname(f),ps,hb+' ' if hb else '',f,ps,f,ps)
def simpset(f,extra=()):
    L=['VS.'+f,'VR.'+f]
    seen=set()
    for c,_ in callees(f):
        if c in seen or c==f: continue
        seen.add(c)
        if c in dirty: L.append(lname(c))
        else: L.append('VS.%s_eq'%c)
    L+=[n for n,_ in HYP[f] if n!='hres']
    L+=list(extra)
    L.append('VR.P.nanToNum_eq')
    return ', '.join(L)
def proof(f):
    m=mod(f);k=key(f)
    if m=='lorentz_tau2':
        return '  simp only [VS.%s, VR.%s]; exact (c08_copysign_sq htau).symm'%(f,f)
    if m in('lorentz_t2','lorentz_Mt2'):
        return ('  simp only [%s]\n  refine (max_eq_left ?_).symm\n  simp only [VR.lorentz_tau2.%s, c08_copysign_sq htau, VR.spatial_mag2.%s]\n  positivity'
                %(simpset(f),k,k[:-4]))
    if m=='lorentz_tau':
        return '  simp only [%s]\n  exact (c08_copysign_sqrt_abs hs).symm'%simpset(f)
    if m.startswith('lorentz_boost') and m.endswith('_gamma'):
        return '  simp only [%s]'%simpset(f,['c08_copysign_nonneg (Real.sqrt_nonneg _) hgamma'])
    if m=='lorentz_unit':
        return '  simp only [%s]'%simpset(f,['c08_copysign_nonneg zero_le_one htau'])
    if m=='spatial_deltaangle':
        return '  simp only [%s]'%simpset(f,['c08_clamp hlo hhi'])
    if f in SPECIAL_RES:
        c,args=SPECIAL_RES[f]
        return ('  simp only [VR.%s] at hres\n  simp only [%s]\n  rw [%s_of_result _ _ _ _ hres]'%(f,simpset(f),lname(c)))
    return '  simp only [%s]'%simpset(f)

# topological order of modules
mods=sorted({mod(f) for f in dirty if 'isclose' not in mod(f)})
deps={m:set() for m in mods}
for f in dirty:
    if 'isclose' in mod(f): continue
    for c,_ in callees(f):
        if c in dirty and mod(c)!=mod(f): deps[mod(f)].add(mod(c))
done=[];
while len(done)<len(mods):
    for m in mods:
        if m not in done and deps[m]<=set(done): done.append(m)
# order of functions within module: file order, but callees first
def file_order(m):
    txt=open(SYM+m+'.lean').read()
    return [x for x in re.findall(r'^def ([\w\.]+) ',txt,re.M) if x in dirty]
out=[]
only=sys.argv[1:] 
for m in done:
    fs=file_order(m)
    # intra-module deps
    emitted=[];pending=list(fs)
    while pending:
        for f in list(pending):
            if all((c not in dirty) or mod(c)!=m or c in emitted or c==f for c,_ in callees(f)):
                emitted.append(f);pending.remove(f)
    out.append('\n/-! ### `%s` -/\n'%m)
    for f in emitted:
        out.append(stmt(f)+' := by\n'+proof(f)+'\n')
        if mod(f)=='lorentz_tau':
            ps=' '.join(params(f))
            out.append('theorem %s_of_result (%s : ℝ) (h : 0 ≤ VR.%s %s) :\n    VS.%s %s = VR.%s %s := by\n  simp only [VS.%s, VR.%s, VS.lorentz_tau2.%s_eq] at h ⊢\n  exact (c08_copysign_of_result_nonneg (Real.sqrt_nonneg _) h).symm\n'%(lname(f),ps,f,ps,f,ps,f,ps,f,f,key(f)))
json.dump({'HYP':HYP,'order':done},open('/tmp/c08/hyp.json','w'))
open('/tmp/c08/gen_fns.lean','w').write('\n'.join(out))
print(len(out),'items; modules',done)
