
/-! ## `isclose`: a DOCUMENTED difference

The symbolic backend evaluates `isclose(a, b, rtol, atol, equal_nan)` as the exact equality `a = b`; it cannot agree with the numeric
`|a - b| ≤ atol + rtol·|b|`.  What holds instead: symbolic `isclose` is symbolic `==` (theorems `c08_*_isclose_iff_equal` above, all keys), hence
the numeric `==` on the regular domain. -/

theorem c08_planar_isclose_iff_numeric_equal (k0 k1 : Az) (rtol atol equal_nan a0 a1 a2 a3 : ℝ) :
    VS.planar_isclose.eval k0 k1 rtol atol equal_nan a0 a1 a2 a3 ↔ VR.planar_equal.eval k0 k1 a0 a1 a2 a3 := by
  rw [c08_planar_isclose_iff_equal, VS.planar_equal.eval_eq]

theorem c08_spatial_isclose_iff_numeric_equal (k0 : Az) (k1 : Lon) (k2 : Az) (k3 : Lon) (rtol atol equal_nan a0 a1 a2 a3 a4 a5 : ℝ) :
    VS.spatial_isclose.eval k0 k1 k2 k3 rtol atol equal_nan a0 a1 a2 a3 a4 a5 ↔ VR.spatial_equal.eval k0 k1 k2 k3 a0 a1 a2 a3 a4 a5 := by
  rw [c08_spatial_isclose_iff_equal, VS.spatial_equal.eval_eq]

theorem c08_lorentz_isclose_iff_numeric_equal (k0 : Az) (k1 : Lon) (k2 : Tmp) (k3 : Az) (k4 : Lon) (k5 : Tmp)
    (rtol atol equal_nan a0 a1 a2 a3 a4 a5 a6 a7 : ℝ) (hc3 : CanonTmp k2 a3) (hc7 : CanonTmp k5 a7) :
    VS.lorentz_isclose.eval k0 k1 k2 k3 k4 k5 rtol atol equal_nan a0 a1 a2 a3 a4 a5 a6 a7 ↔
      VR.lorentz_equal.eval k0 k1 k2 k3 k4 k5 a0 a1 a2 a3 a4 a5 a6 a7 := by
  rw [c08_lorentz_isclose_iff_equal]; exact c08_lorentz_equal k0 k1 k2 k3 k4 k5 a0 a1 a2 a3 a4 a5 a6 a7 hc3 hc7

/-- the documented difference is real: with `atol = 1` the numeric backend calls `(0,0)` and `(1/2,0)` close, the symbolic one does not. -/
example : VR.planar_isclose.xy_xy 0 1 0 0 0 (1/2) 0 ∧ ¬ VS.planar_isclose.xy_xy 0 1 0 0 0 (1/2) 0 := by
  simp only [VR.planar_isclose.xy_xy, VS.planar_isclose.xy_xy, VR.P.isclose]
  norm_num

/-! ## the clamp hypothesis of `deltaangle` is derivable: Cauchy–Schwarz for the Cartesian key -/

private theorem c08_cos_bounds (x1 y1 z1 x2 y2 z2 : ℝ) (h1 : 0 < x1 ^ 2 + y1 ^ 2 + z1 ^ 2) (h2 : 0 < x2 ^ 2 + y2 ^ 2 + z2 ^ 2) :
    -1 ≤ (x1 * x2 + y1 * y2 + z1 * z2) / Real.sqrt (x1 ^ 2 + y1 ^ 2 + z1 ^ 2) / Real.sqrt (x2 ^ 2 + y2 ^ 2 + z2 ^ 2) ∧
    (x1 * x2 + y1 * y2 + z1 * z2) / Real.sqrt (x1 ^ 2 + y1 ^ 2 + z1 ^ 2) / Real.sqrt (x2 ^ 2 + y2 ^ 2 + z2 ^ 2) ≤ 1 := by
  have hA : 0 < Real.sqrt (x1 ^ 2 + y1 ^ 2 + z1 ^ 2) := Real.sqrt_pos.mpr h1
  have hB : 0 < Real.sqrt (x2 ^ 2 + y2 ^ 2 + z2 ^ 2) := Real.sqrt_pos.mpr h2
  have hAB : 0 < Real.sqrt (x1 ^ 2 + y1 ^ 2 + z1 ^ 2) * Real.sqrt (x2 ^ 2 + y2 ^ 2 + z2 ^ 2) := mul_pos hA hB
  have hcs : (x1 * x2 + y1 * y2 + z1 * z2) ^ 2 ≤ (x1 ^ 2 + y1 ^ 2 + z1 ^ 2) * (x2 ^ 2 + y2 ^ 2 + z2 ^ 2) := by
    nlinarith [sq_nonneg (x1 * y2 - x2 * y1), sq_nonneg (x1 * z2 - x2 * z1), sq_nonneg (y1 * z2 - y2 * z1)]
  have habs : |x1 * x2 + y1 * y2 + z1 * z2| ≤
      Real.sqrt (x1 ^ 2 + y1 ^ 2 + z1 ^ 2) * Real.sqrt (x2 ^ 2 + y2 ^ 2 + z2 ^ 2) := by
    rw [← Real.sqrt_mul h1.le]; exact Real.abs_le_sqrt hcs
  obtain ⟨hlo, hhi⟩ := abs_le.mp habs
  rw [div_div]
  constructor
  · rw [le_div_iff₀ hAB]; linarith
  · rw [div_le_one hAB]; exact hhi

/-- Cartesian `deltaangle`: for two non-zero vectors the symbolic and the numeric backend agree, with no further hypothesis. -/
theorem c08_spatial_deltaangle_cartesian (x1 y1 z1 x2 y2 z2 : ℝ)
    (h1 : 0 < x1 ^ 2 + y1 ^ 2 + z1 ^ 2) (h2 : 0 < x2 ^ 2 + y2 ^ 2 + z2 ^ 2) :
    VS.spatial_deltaangle.eval .xy .z .xy .z x1 y1 z1 x2 y2 z2 = VR.spatial_deltaangle.eval .xy .z .xy .z x1 y1 z1 x2 y2 z2 := by
  have h := c08_cos_bounds x1 y1 z1 x2 y2 z2 h1 h2
  refine c08_spatial_deltaangle .xy .z .xy .z x1 y1 z1 x2 y2 z2 ?_ ?_
  · simpa only [VR.spatial_dot.eval, VR.spatial_mag.eval, VR.spatial_dot.xy_z_xy_z, VR.spatial_mag.xy_z, VR.spatial_mag2.xy_z] using h.1
  · simpa only [VR.spatial_dot.eval, VR.spatial_mag.eval, VR.spatial_dot.xy_z_xy_z, VR.spatial_mag.xy_z, VR.spatial_mag2.xy_z] using h.2

/-! ## the "sum is not spacelike" hypothesis of `add` is derivable for two canonical τ-vectors (Cartesian key) -/

private theorem c08_t_xy_z_tau (x y z tau : ℝ) (h : 0 ≤ tau) :
    VR.lorentz_t.xy_z_tau x y z tau = Real.sqrt (tau ^ 2 + (x ^ 2 + y ^ 2 + z ^ 2)) := by
  simp only [VR.lorentz_t.xy_z_tau, VR.lorentz_t2.xy_z_tau, VR.lorentz_tau2.xy_z_tau, VR.spatial_mag2.xy_z, c08_copysign_sq h]
  rw [max_eq_left (by positivity)]

private theorem c08_triangle (x1 y1 z1 m1 x2 y2 z2 m2 : ℝ) :
    (x1 + x2) ^ 2 + (y1 + y2) ^ 2 + (z1 + z2) ^ 2 ≤
      (Real.sqrt (m1 ^ 2 + (x1 ^ 2 + y1 ^ 2 + z1 ^ 2)) + Real.sqrt (m2 ^ 2 + (x2 ^ 2 + y2 ^ 2 + z2 ^ 2))) ^ 2 := by
  have e1 : Real.sqrt (m1 ^ 2 + (x1 ^ 2 + y1 ^ 2 + z1 ^ 2)) ^ 2 = m1 ^ 2 + (x1 ^ 2 + y1 ^ 2 + z1 ^ 2) := Real.sq_sqrt (by positivity)
  have e2 : Real.sqrt (m2 ^ 2 + (x2 ^ 2 + y2 ^ 2 + z2 ^ 2)) ^ 2 = m2 ^ 2 + (x2 ^ 2 + y2 ^ 2 + z2 ^ 2) := Real.sq_sqrt (by positivity)
  have hcs : (x1 * x2 + y1 * y2 + z1 * z2) ^ 2 ≤
      (m1 ^ 2 + (x1 ^ 2 + y1 ^ 2 + z1 ^ 2)) * (m2 ^ 2 + (x2 ^ 2 + y2 ^ 2 + z2 ^ 2)) := by
    nlinarith [sq_nonneg (x1 * y2 - x2 * y1), sq_nonneg (x1 * z2 - x2 * z1), sq_nonneg (y1 * z2 - y2 * z1),
      sq_nonneg (m1 * m2), sq_nonneg (m1 * x2), sq_nonneg (m1 * y2), sq_nonneg (m1 * z2),
      sq_nonneg (m2 * x1), sq_nonneg (m2 * y1), sq_nonneg (m2 * z1)]
  have hdot : x1 * x2 + y1 * y2 + z1 * z2 ≤
      Real.sqrt (m1 ^ 2 + (x1 ^ 2 + y1 ^ 2 + z1 ^ 2)) * Real.sqrt (m2 ^ 2 + (x2 ^ 2 + y2 ^ 2 + z2 ^ 2)) := by
    rw [← Real.sqrt_mul (by positivity)]
    exact (le_abs_self _).trans (Real.abs_le_sqrt hcs)
  nlinarith [sq_nonneg m1, sq_nonneg m2]

/-- Cartesian `(x, y, z, τ) + (x, y, z, τ)`: agreement needs only the two canonical-τ hypotheses. -/
theorem c08_lorentz_add_cartesian_tau (x1 y1 z1 tau1 x2 y2 z2 tau2 : ℝ) (h1 : 0 ≤ tau1) (h2 : 0 ≤ tau2) :
    VS.lorentz_add.eval .xy .z .tau .xy .z .tau x1 y1 z1 tau1 x2 y2 z2 tau2 =
      VR.lorentz_add.eval .xy .z .tau .xy .z .tau x1 y1 z1 tau1 x2 y2 z2 tau2 := by
  refine c08_lorentz_add .xy .z .tau .xy .z .tau x1 y1 z1 tau1 x2 y2 z2 tau2 h1 h2 (fun _ _ => ?_)
  have hs : 0 ≤ VR.lorentz_tau2.xy_z_t (x1 + x2) (y1 + y2) (z1 + z2)
      (VR.lorentz_t.xy_z_tau x1 y1 z1 tau1 + VR.lorentz_t.xy_z_tau x2 y2 z2 tau2) := by
    rw [c08_t_xy_z_tau _ _ _ _ h1, c08_t_xy_z_tau _ _ _ _ h2]
    simp only [VR.lorentz_tau2.xy_z_t, VR.spatial_mag2.xy_z]
    linarith [c08_triangle x1 y1 z1 tau1 x2 y2 z2 tau2]
  simp only [VR.lorentz_add.eval, VR.lorentz_add.k_xy_z_tau_xy_z_tau, VR.spatial_add.xy_z_xy_z, VR.lorentz_tau.xy_z_t]
  rw [c08_copysign_sqrt_abs hs]; exact Real.sqrt_nonneg _

/-! ## the hypotheses are satisfiable -/

example : CanonTmp .tau 1 ∧ CanonTmp .t (-3) := ⟨by simp [CanonTmp], trivial⟩
/-- a timelike `(x,y,z,t)` vector satisfies the hypothesis of `c08_lorentz_tau` / `c08_lorentz_gamma` -/
example : 0 ≤ VR.lorentz_tau2.eval .xy .z .t 1 0 0 2 := by
  simp only [VR.lorentz_tau2.eval, VR.lorentz_tau2.xy_z_t, VR.spatial_mag2.xy_z]; norm_num
example : 0 ≤ VR.lorentz_tau2.eval .rhophi .eta .tau 1 0 0 2 := by
  simp only [VR.lorentz_tau2.eval, VR.lorentz_tau2.rhophi_eta_tau]; rw [c08_copysign_sq (by norm_num)]; norm_num
/-- the clamp hypothesis of `c08_spatial_deltaangle` at two orthogonal unit vectors -/
example : -1 ≤ VR.spatial_dot.eval .xy .z .xy .z 1 0 0 0 1 0 / VR.spatial_mag.eval .xy .z 1 0 0 / VR.spatial_mag.eval .xy .z 0 1 0 ∧
    VR.spatial_dot.eval .xy .z .xy .z 1 0 0 0 1 0 / VR.spatial_mag.eval .xy .z 1 0 0 / VR.spatial_mag.eval .xy .z 0 1 0 ≤ 1 := by
  simp only [VR.spatial_dot.eval, VR.spatial_dot.xy_z_xy_z]; norm_num
/-- the hypotheses of `c08_lorentz_add` (both operands τ-typed) at two particles at rest -/
example : CanonTmp .tau 1 ∧ CanonTmp .tau 2 ∧ 0 ≤ (VR.lorentz_add.eval .xy .z .tau .xy .z .tau 0 0 0 1 0 0 0 2).2.2.2 := by
  refine ⟨by simp [CanonTmp], by simp [CanonTmp], ?_⟩
  rw [← c08_lorentz_add_cartesian_tau 0 0 0 1 0 0 0 2 (by norm_num) (by norm_num)]
  simp only [VS.lorentz_add.eval, VS.lorentz_add.k_xy_z_tau_xy_z_tau, VS.lorentz_tau.xy_z_t]; exact Real.sqrt_nonneg _
/-- boosts by gamma: `0 ≤ gamma` -/
example : (0:ℝ) ≤ 2 ∧ CanonTmp .t 5 := ⟨by norm_num, trivial⟩

/-! ## the hypotheses are needed (the symbolic backend's documented limitation, not a defect) -/

/-- negative τ: the numeric `tau2` carries the sign of τ (`copysign(τ², τ) = -1`), the symbolic expression is `τ² = 1`. -/
example : VS.lorentz_tau2.xy_z_tau 0 0 0 (-1) ≠ VR.lorentz_tau2.xy_z_tau 0 0 0 (-1) := by
  simp only [VS.lorentz_tau2.xy_z_tau, VR.lorentz_tau2.xy_z_tau, VR.P.copysign]; norm_num

/-- negative τ: the numeric `t2` is clamped at 0, the symbolic one is `τ² + |p|² = 1`. -/
example : VS.lorentz_t2.xy_z_tau 0 0 0 (-1) ≠ VR.lorentz_t2.xy_z_tau 0 0 0 (-1) := by
  simp only [VS.lorentz_t2.xy_z_tau, VR.lorentz_t2.xy_z_tau, VS.lorentz_tau2.xy_z_tau, VR.lorentz_tau2.xy_z_tau,
    VS.spatial_mag2.xy_z, VR.spatial_mag2.xy_z, VR.P.copysign]; norm_num

/-- spacelike `(1,0,0,0)`: the numeric `tau` is `-√|t²-|p|²| = -1`, the symbolic one is `+1`. -/
example : VS.lorentz_tau.xy_z_t 1 0 0 0 ≠ VR.lorentz_tau.xy_z_t 1 0 0 0 := by
  simp only [VS.lorentz_tau.xy_z_t, VR.lorentz_tau.xy_z_t, VS.lorentz_tau2.xy_z_t, VR.lorentz_tau2.xy_z_t,
    VS.spatial_mag2.xy_z, VR.spatial_mag2.xy_z, VR.P.copysign]; norm_num

/-- negative gamma: the numeric boost flips the direction (`copysign(√(γ²-1), γ)`), the symbolic one does not. -/
example : (VS.lorentz_boostX_gamma.xy_z_t (-3) 0 0 0 1).1 ≠ (VR.lorentz_boostX_gamma.xy_z_t (-3) 0 0 0 1).1 := by
  simp only [VS.lorentz_boostX_gamma.xy_z_t, VR.lorentz_boostX_gamma.xy_z_t, VS.planar_x.xy, VR.planar_x.xy, VR.P.copysign]
  have h : 0 < Real.sqrt (|(-3:ℝ)| ^ 2 - 1) := Real.sqrt_pos.mpr (by norm_num)
  rw [if_neg (by norm_num), abs_of_pos h]
  intro he; linarith
