#!/usr/bin/env python3
"""Regenerate MANIFEST.json from the table below (kept in one place so it is always schema-valid)."""
import json, os
VERIF = os.path.dirname(os.path.dirname(os.path.abspath(__file__)))
CLAIMS = {
 "C12": dict(
  category="proof",
  text="Lean 4 theorems over the model regenerated from today's source: for ALL 4/36/144 coordinate-system key pairs and all reals, "
       "!= <-> not ==, == reflexive/symmetric, same-system == and isclose characterised coordinate-wise, isclose reflexive, implied "
       "by == and monotone in both tolerances. Operator/method/numpy-function routing on object, NumPy and Awkward backends is "
       "checked differentially against the Lean model evaluated at IEEE double.",
  note="Trusted: Lean kernel + Mathlib; Prim/Real.lean primitive semantics; translator (validated each run against an execution "
       "tracer on all 2404 entries); NaN is outside the real model; NumPy/Awkward element-wise semantics sampled, not proved.",
  technique="Lean 4 proof over translator-generated model + differential correspondence (Lean Float model vs real backends)",
  design="4/C12"),
}
PENDING = {}
props = [json.loads(l) for l in open(os.path.join(VERIF, "properties.jsonl"))]
checks = []
for p in props:
    i = p["id"]
    if i in CLAIMS:
        c = CLAIMS[i]
        checks.append({
            "property_id": i, "quick_cmd": f"./check {i} --tier quick", "thorough_cmd": f"./check {i} --tier thorough",
            "evidence_file": f"/verif/evidence/{i}.json", "replay_cmd_template": f"./check {i} --replay {{path}}",
            "engine": "lean4-model", "level_claimed": {"category": c["category"], "text": c["text"], "design_ref": c["design"]},
            "level_note": c["note"], "technique": c["technique"]})
na = [{"property_id": p["id"], "reason": PENDING.get(p["id"], "check not built yet in this revision (see DESIGN.md section 4 for the plan)")}
      for p in props if p["id"] not in CLAIMS]
man = {
 "version": 1,
 "setup_cmd": "./setup.sh",
 "hooks": {"guard": "SCIKIT_HEP_VECTOR_VERIF", "enable": "none needed: every observation point is reachable by subclassing and public calls (no hook commits)",
           "baseline_off_cmd": "/venv/bin/python tools/baseline.py", "source_commits": [], "add_only": True},
 "engines": [{"name": "lean4-model", "path": "/verif/lean", "serves_properties": sorted(CLAIMS),
              "kind_free_text": "Lean 4 + Mathlib proofs over a model regenerated from /repo by tools/translate.py; Lean drivers run the executable copy for correspondence"}],
 "checks": checks,
 "not_applicable": na,
 "notes": "All checks: ./check <id> [--tier quick|thorough]; exit 0 ok, 1 VIOLATION, 2 infrastructure. See DESIGN.md.",
}
json.dump(man, open(os.path.join(VERIF, "MANIFEST.json"), "w"), indent=1)
print("claimed", sorted(CLAIMS), "not_applicable", len(na))
