#!/usr/bin/env python3
"""Regenerate MANIFEST.json from the table below (kept in one place so it is always schema-valid)."""
import json, os
VERIF = os.path.dirname(os.path.dirname(os.path.abspath(__file__)))
TB = ("Trusted: Lean kernel + Mathlib (axioms propext, Classical.choice, Quot.sound only, audited each run); Prim/Real.lean primitive "
      "semantics on regular inputs (singular inputs have no real meaning); translator (validated each run against an execution tracer on "
      "all 2404 dispatch entries); hand-written Spec/ as a reading of the documentation; ")
GL = ("Trusted: Lean kernel; the hand-written glue model (Glue/*.lean) as a reading of the source, reduced by the per-run correspondence "
      "(exact symbolic on the object backend; structural/numeric on NumPy and Awkward); CPython/NumPy/Awkward themselves. ")
CLAIMS = {
 "C01": dict(category="proof", design="4/C01",
  text="Refinement theorems in Lean 4 over the model regenerated from today's source: for every compute module and EVERY coordinate-system key "
       "(2/6/12 unary, 4/36/144 binary, x12 Euler orders) the value computed by the variant found under that key denotes Spec.op of the operands' "
       "denotations, for all reals in the representable domain (Canon). Cross-system equal/not_equal are covered structurally (C12 theorems). "
       "Method-level pass-through rules by the glue model + exact symbolic correspondence. REGULARITY: for every module and key the generated predicate evalDom "
       "(no division by zero, sqrt/log/arccos/tan inside their domains) is proved on the same hypotheses (Dom/*.lean) and paired with the refinement statement in "
       "Props/Regular.lean (82 theorems regular_<module>), so no statement relies on Lean's totalised x/0 = 0. Known findings: to_beta3 and Et for t<0, Mt2 clamp for spacelike tau storage. EXPRESSIONS (Props/MethodExpr.lean): for every finite expression built from the public methods (add, subtract, scale, neg, rotateZ/X/Y, cross, unit, the to_<system> conversions, axis boosts, boost_p4, boost_beta3, dimension changes; scalar accessors, dot and the angular methods) the modelled evaluation succeeds and denotes the storage-free specification on Cartesian components, by induction over the expression, under a genericity predicate on the DENOTATIONS of the subexpressions only; corollary: environments holding the same geometric vectors in any coordinate systems, flavors and backends give the same value (c01e_indep*).",
  note=TB + "float64 rounding and singular strata (zero vector, on-axis theta/eta, t=0) are not modelled; every run also sweeps the laws on the real code at 50 digits (exploration).",
  technique="Lean 4 refinement proofs over translator-generated model; translation validation; mp law sweep as failing-input search"),
 "C02": dict(category="proof", design="4/C02",
  text="The same refinement theorems read at the Cartesian key, plus the Euler/axis/quaternion rotation identities (Props/C10) and boost identities (Props/C09): "
       "each operation equals its documented definition over the reals, for all operands in the domain of the definition, and on that domain the code is REGULAR "
       "(generated Dom predicates, dom_<module> for all 82 modules and all keys, combined as regular_<module> in Props/Regular.lean). The float64 clause is NOT proved "
       "(no formal float semantics); it is sampled by the C03 value lattice and the 50-digit law sweep.",
  note=TB + "the float64 half of the property is exploration only.",
  technique="Lean 4 proofs (Spec refinement) over translator-generated model; mp reference model as failing-input search"),
 "C03": dict(category="proof", design="4/C03",
  text="Naturality theorems about the glue model: for every map f on scalars and compute layers related by f (NumPy's element-wise contract, PROVED for the generated "
       "executable layer at column types for all 82 modules), wrapVec/wrapResult/dispatch/getAcc/scaleN/binary/toDim/toSystem/setC/step commute with f; hence element i of an "
       "array result is the object result on element i, scalars and single objects broadcast as constant columns, errors coincide, shape preserved by construction. "
       "Tie to the code: value lattice at float64 (NumPy, Awkward flat/jagged/option, records; mixed pairings) compared element-wise with the object backend, 1e-12 relative, NaN pattern exact.",
  note=GL + "NumPy/Awkward element semantics of ufuncs are trusted; tolerance 1e-12 relative.",
  technique="Lean 4 naturality proofs about a hand-written executable model + differential value lattice across backends"),
 "C11": dict(category="proof", design="4/C11",
  text="112 Lean theorems: commutativity/associativity of add, subtract inverts add, scale distributes and composes, negation = scale -1, dot symmetric/bilinear (Euclidean 2D/3D, Minkowski 4D), "
       "v.v = rho2/mag2/tau2, cross antisymmetric/bilinear/orthogonal, Lagrange identity, scalar triple product cyclic and alternating, BAC-CAB, Jacobi identity, Cauchy-Schwarz (Props/C11Triple.lean, 10 theorems), unit has norm one and is parallel - for ALL coordinate-system combinations at once, as corollaries of "
       "the refinement theorems over the regenerated model. abs/**/@ routing: glue model + symbolic correspondence (C05). METHOD LEVEL (Props/MethodBin.lean, 68 theorems): the public calls add/subtract/dot/cross/scale/unit and the operators, as modelled by the glue on top of the regenerated real layer, denote the sum/difference/products of the operands' denotations for every well-formed operand in every storage pairing, with result dimension, flavor, backend; dimension guards for all operands. "
       "FUNCTION FORMS (Props/UfuncDenote.lean): numpy.add / subtract / matmul / multiply / true_divide / negative / absolute / square denote the same sums, products, multiples and norms in every storage pairing and backend (routing theorems of C05 composed with the method-level theorems).",
  note=TB + "tau-stored vectors scaled by a negative factor are outside the representable domain (partial theorems say so).",
  technique="Lean 4 proofs (corollaries of Spec refinement) over translator-generated model; mp law sweep"),
 "C16": dict(category="other", design="4/C16",
  text="A pure functional model cannot express aliasing: the Lean theorems (operations are functions of their operands; only `step` has a state output; frame lemmas for step) are "
       "nearly trivial and said to be so. The substance is observational: every operand (object coordinates/class, NumPy raw bytes/dtype/shape/flags, Awkward to_buffers/form/fields) is snapshotted "
       "bit-for-bit before and after each call of the catalogue on every backend pairing, including calls that raise, reductions and operators. For NumPy vector arrays the HEAP model of C19 makes aliasing expressible: c19h_frame (non-writing operations leave every buffer and every other variable unchanged), c19h_frame_write (a write touches only the addressed rows/field of its target's buffer), c19h_copy_detached, for every history; tied to the real arrays by the heap histories (state compared after every step).",
  note="Trusted: the snapshot functions and the call catalogue of harness/arrays.py; CPython/NumPy/Awkward.",
  technique="trivial Lean frame theorems + exhaustive before/after snapshot observation of operands"),
 "C17": dict(category="proof", design="4/C17",
  text="Model of _reduce_sum / _reduce_count_nonzero (column sums of the x,y,z,t accessors; rho2!=0|z!=0|t2!=0) over the regenerated real model; by induction over the list, for every stored "
       "system: denote(sum vs) = fold of add over the denotations, sum [] = 0, sum of concatenation = sum of sums (axis-wise), permutation invariance, count_nonzero = number of elements whose "
       "denotation is non-zero, flavor kept. Tie: NumPy 1-D/2-D all axes/keepdims and Awkward jagged (empty lists) reductions compared with exact fsum of the elements' Cartesian components. AXIS MODEL (Glue/Reduce.lean, Props/C17Axis.lean, 79 theorems; Driver/Reduce.lean, harness/reduce.py): n-d arrays as shape + C-order data, axis normalisation as NumPy does it (None, negative, tuples, out of range, duplicates), keepdims, jagged lists with ak.sum's axis semantics; for every shape, axis set and keepdims: the result shape is the documented one (only the reduced axes disappear), each output element is the sum of exactly the inputs agreeing on the kept axes, reductions compose, count_nonzero is the sum of the indicator, and with Cartesian components the reduction over any axes is Props/C17's sum of each group (so the Cartesian-sum theorems hold for every axis). Tie: 5100 requests per quick run (13 call spellings, 16 shapes incl. length-one and size-0 axes, every axis spelling, all 20 systems) compared with the Lean driver.",
  note=TB + "floating-point summation order is not modelled (comparison tolerance 1e-12 relative).",
  technique="Lean 4 proofs by list induction over translator-generated accessors + numeric correspondence of reducers"),
 "C18": dict(category="proof", design="4/C18",
  text="Layout trees (lists, options, nesting) with map/zipWith: shape, missing positions and nesting are preserved by unary and binary operations (structural induction), selection commutes with map; "
       "field rule: unary results = result coordinates followed by the operand's non-coordinate fields in order, binary results have coordinates only; the REAL seven-branch exclusion lists are transcribed "
       "and proved equal to the documented rule on well-formed (generic-named) records, and - after the repair 17af0b2 - for EVERY field list in the three full branches, raw momentum spellings included (c18_real_carried_eq_carry, no well-formedness hypothesis). Tie: layouts flat/jagged/nested-3/"
       "option(list|record)/regular/empty with extra fields on the real Awkward backend. MODEL TIED BY A DRIVER (Driver/Layout.lean, harness/layout.py, Props/C18Layout.lean): the Lean layout model itself predicts, for random layouts (depth 0-3, empty lists, options at list and record level, regular lists, no-record arrays) x 58 methods x second operands (same layout, other missing positions, object, record, shallower / deeper array, array-valued scalars, keyword conversions), the record name, coordinate fields, carried extras and the list-and-missing structure of the result; compared line by line with the real Awkward backend (1500 requests quick, 15000 thorough). Outside the agreed domain (documented in DESIGN 9.14): unequal list lengths, length-one list broadcasting, regular-dimension broadcasting from the right, keyword arrays of dimension-raising conversions.",
  note=GL + "Awkward internals (ak.zip/ak.transform) trusted.",
  technique="Lean 4 structural-induction proofs about a hand-written model + differential structure/field comparison on real layouts"),
 "C19": dict(category="proof", design="4/C19",
  text="NumPy vector array = glue vector at a column type: integer index keeps type/system/flavor and returns exactly the element's coordinates; slices, masks, reshapes, views are reindexings that keep "
       "the type and commute with indexing; pickle/copy = identity reindexing; name index returns the stored column at every position (under the identity-accessor laws, proved for the generated layer); "
       "asArray of a single vector. Tie: shapes up to 3-D, 20 systems x 2 flavors, index expressions, name/synonym index, slice assignment, pickle/deepcopy/copy, asanyarray/asarray on the real backend. HEAP MODEL (Glue/Heap.lean, Props/C19Heap.lean, 71 theorems): buffers, views as index maps into a shared buffer, copies/deepcopies/pickles/advanced indexing as fresh buffers, name and slice assignment as writes through a reference; for EVERY history: a view/slice stays an alias (reads are the reindexing of the base's reads, writes through either are seen by the other), a copy stays detached, type/flavor/system are preserved, name index = stored column for every spelling, errors have no effect. Tie: random multi-variable histories on the real arrays vs the Lean driver, full state (records, every named column, numpy.shares_memory of every pair) compared after every operation.",
  note=GL + "NumPy view mechanics trusted.",
  technique="Lean 4 proofs about a hand-written array model + differential indexing harness"),
 "C20": dict(category="proof", design="4/C20",
  text="Global-state model (per-thread NumPy errstate, warnings filters, print options, Awkward/Numba registration flags): every operation is a bracket that restores the errstate whether the body "
       "returns or raises; by induction any sequence of operations on any threads leaves the state unchanged; register_* idempotent and touching only their flag; fine-grained interleavings: each "
       "thread's results equal its sequential results, adjacent steps of different threads commute. Tie: snapshots of numpy.geterr/warnings.filters/printoptions/ak.behavior/registration flag around "
       "every catalogued call (returning, raising, singular) under three prior settings; caller-owned behavior mapping; 16 threads vs sequential, bit-for-bit; fingerprint of every module-level mutable container of the package before/after the catalogue; the catalogue run forwards and backwards in two fresh interpreters must agree call by call (history independence).",
  note="Trusted: the model's assumption that operation bodies read only operands and thread-local errstate (checked observationally); CPython/NumPy thread-local implementation and real scheduling are not modelled.",
  technique="Lean 4 proofs by induction over call sequences and schedules + global-state snapshot / multi-thread observation"),

 "C04": dict(category="proof", design="4/C04",
  text="Theorems about the glue model for all scalar types and compute layers: projections keep the retained stored coordinates verbatim (prefix), embeddings keep all "
       "stored coordinates and add exactly the keyword's value in the keyword's coordinate type or zero, to_<own system> is the identity (under the identity-accessor "
       "laws, proved for the generated copy), the 40-entry to_* table with momentum spellings. Model tied to the code by exact symbolic correspondence on the whole "
       "conversion lattice (20 sources x 40 targets x keywords x 2 flavors), plus a dimension-change lattice on NumPy and Awkward arrays with float64 / int64 / float32 columns (retained coordinates and imputed keyword values exact). Round trips over the reals: accessor refinements (C01). METHOD LEVEL (Props/MethodConv.lean, 85 theorems): over the reals every one of the 40 to_<system>() calls keeps the denotation, every same-dimension round trip returns the stored coordinates under Canon, lower-dimensional operands get the keyword value or zero verbatim; deltaphi/deltaeta/deltaR/deltaangle and the angle predicates at call level.",
  note=GL, technique="Lean 4 proofs about a hand-written executable model + exact symbolic correspondence with the object backend"),
 "C05": dict(category="proof", design="4/C05",
  text="Theorems: handler = first operand of maximal backend priority; result backend/flavor rule of dispatch; dimension rule of _wrap_result per declared result shape; "
       "dimension guards of the nine same-dimension methods, cross, rotate_axis, boosts; operators = methods; TOTALITY of all 82 generated dispatch tables over their key "
       "types (decide +kernel). Correspondence: complete object-backend lattice (exact, symbolic) and a cross-backend type lattice (object/NumPy/Awkward array/record, both "
       "registration modes) against the model's prediction; `_wrap_result` of the object, NumPy, Awkward and SymPy backends called DIRECTLY on the whole finite lattice (28 declared result shapes x 20 stored systems x flavors: class, system and source of every coordinate vs the Lean rule wrapVec); operator/ufunc value lattice (abs ** numpy.power/sqrt/cbrt/square * / - + @ == != vs methods) on all backends; keyword = positional calls from the documented signatures. Five known findings in the Awkward backend are listed, everything else must match. "
       "UFUNC ROUTING MODEL (Glue/Ufunc.lean, Props/C05Ufunc.lean, ~50 theorems c05u_; Driver/Ufunc.lean, harness/ufunc.py): the four __array_ufunc__ / behavior tables transcribed branch by branch; proved: the object, NumPy and SymPy chains are ONE chain (c05u_tables_agree), Awkward's 420-key registry is complete and agrees wherever they accept, every accepted route IS the operator of Glue/Methods applied in the documented order (multiply(k, v) = multiply(v, k) = scale ...), the exact set of rejected shapes, out= honoured exactly for vector-valued routes, deferral to the higher-priority backend; every difference between the tables is a theorem with a witness (power with out=, power(v, 2) on spacelike vectors, array exponents, flavor lost in __cast__). Tie: ~9 900 requests per quick run (30 235 thorough): the model's route is evaluated on the real library and compared with numpy.<ufunc>(...), the Python operator and in-place forms, and the registry keys. DENOTATION (Props/UfuncDenote.lean, 27 theorems c05d_): composed with the method-level theorems over the reals - numpy.add / subtract / matmul / multiply (both operand orders) / true_divide / negative / absolute / square of well-formed operands in every storage pairing and backend denote the component-wise sum, difference, Euclidean or Minkowski product, scalar multiple, norm ..., independent of the backend tags.",
  note=GL + "known-finding classes mask further changes of the same class (see DESIGN.md).",
  technique="Lean 4 proofs (incl. decide over generated tables) + exhaustive/sampled correspondence of result types"),
 "C06": dict(category="proof", design="4/C06",
  text="Executable Lean model of the constructors' name resolution (vector.obj, the six object classes, vector.array, vector.zip/Array) and an independently written documented grammar Doc; "
       "theorems for EVERY subset of the 19 recognised names (all 2^19, factored through the azimuthal/longitudinal/temporal groups): obj = Doc, a class accepts exactly the documented sets of its "
       "dimension, accepted values are stored verbatim (each slot is filled by a supplied name of the right coordinate), array constructors interpret what they accept as a documented subset and carry "
       "the rest as extra fields, never a vector from an incomplete set. Tie: exhaustive correspondence with the real constructors over all subsets of up to 5 names (thorough; quick: sizes <= 3 + sample), "
       "distinct values revealing which name filled which slot; value kinds (bool/str/None rejected).",
  note=GL + "three constructor defects found this way were repaired (572f8c1, 0f97320, cc3adc8); remaining documented discrepancies of the array constructors are listed in DESIGN.md 9.4.",
  technique="Lean 4 proofs (factored decide over all name sets) about a hand-written executable model + exhaustive correspondence"),
 "C07": dict(category="proof", design="4/C07",
  text="Lean model numbaCall of what COMPILED code returns (typing-time decisions of _numba_object.py: group by minimum dimension, signature, table lookup in the same generated tables, result class) "
       "next to the interpreter model call; theorems: for every supported property/method, whenever the interpreter succeeds and flavors agree the compiled result is identical (module, key, argument order, "
       "class, coordinates), plus the exact characterisation of every difference (mixed flavor, boosts take self's class, mixed dimensions, unsupported names, keyword arguments, order-string case). API SWEEP: every attribute, method, operator and constructor form numba's typing context resolves is compiled and compared with the interpreter (about 475 expressions per quick run), plus Awkward arrays (also with raw momentum field names) iterated in compiled code. "
       "Tie: numba's typing context asked for ~650 result types per quick run (19 960 in the agent's validation, 0 mismatches) and parallel compile-and-run probes (values and classes vs the interpreter). OVER THE REALS (Props/MethodBackends.lean, c07m_): EvTables for the real layer, numbaCall = call for every supported family whenever the interpreter succeeds, so every method-level denotation theorem transfers to compiled code; the documented differences (mixed flavor, mixed dimensions) characterised over the reals. "
       "FIELD LOOKUP (Props/C14Fields.lean): numba's typing and lowering chains over Awkward record fields next to the interpreter's from_fields / from_momentum_fields chains; c14f_numba_agrees: for EVERY field list the compiled view reads the interpreter's values (errors become TypingError); the one difference is a dtype conflict on records carrying two spellings of a coordinate (c14f_numba_dtype_conflict: known finding).",
  note=GL + "the Numba compiler (LLVM code generation) is not modelled; three known findings (mixed flavor, boost flavor, order case).",
  technique="Lean 4 proofs relating two hand-written executable models + numba typing-context / compile-and-run correspondence"),
 "C08": dict(category="proof", design="4/C08",
  text="Third generated copy Gen/Sym of all 2433 compute functions as vector._lib.SympyLib evaluates them (probed each run: nan_to_num=id, maximum/minimum=first symbolic argument, copysign(a,b)=a, "
       "isclose=Eq). Kernel-checked: VS.f = VR.f unconditionally for the 1222 functions free of those primitives (generated with the model) and 42 all-keys eval theorems; for ALL 1211 remaining functions "
       "VS.f = VR.f under the regular-domain hypothesis that makes the dropped clamp/sign inactive (0 <= tau, not spacelike, 0 <= gamma, clamp range), with all-keys theorems for 36 modules; symbolic isclose = equal. "
       "Tie: translator + SympyLib probe; the SymPy backend's expressions .subs().evalf(40) vs the 50-digit object backend on the regular domain. METHOD LEVEL (Props/MethodBackends.lean, c08m_): the SymPy compute layer evS agrees with the real layer evR on 46 modules unconditionally and on 33 more under the regular-domain hypotheses; dispatch congruence; call evS = call evR for the planar/spatial accessors, rotations, scale, add/subtract/dot/cross, comparisons, deltas, conversions and (regular domain) the Lorentz accessors and boosts.",
  note=TB + "SymPy's own simplifier and constructors are trusted (sampled); both copies model nan_to_num as the identity (singular inputs excluded).",
  technique="Lean 4 proofs over two translator-generated copies (NumPy semantics vs SympyLib semantics) + evalf correspondence"),

 "C09": dict(category="proof", design="4/C09",
  text="64 Lean theorems on the generated boost functions for all reals with |beta|<1: Minkowski product preserved, inverse by the opposite boost, velocity addition along an axis, "
       "boost_p4 = boost_beta3 o to_beta3, boostX/Y/Z(beta) = boost_beta3 along the axis = boostX/Y/Z(gamma) for the matching gamma, boostCM_of_p4(v,v) = (0,0,0,tau), tau preserved; Props/C09Comm.lean (13 theorems): an axis boost leaves the transverse components untouched, commutes with the rotation about its axis, is orthochronous for |beta|<1 (t > |x_axis| implies boosted t > 0), beta = 0 is the identity; "
       "all coordinate systems via the C01 refinement of the boosts. boost()/boostCM_of() dispatch: glue model + symbolic correspondence. METHOD LEVEL (Props/MethodLorentz.lean, 86 theorems): 4D accessors, boostX/Y/Z (beta/gamma), boost_p4, boost_beta3, boost, boostCM_of*, to_beta3 and the causal predicates as PUBLIC CALLS (glue model on the regenerated real layer) in every storage: denotation, result type, Minkowski product preserved across any two storages, guards.",
  note=TB, technique="Lean 4 proofs (linear_combination certificates) over translator-generated model"),
 "C10": dict(category="proof", design="4/C10",
  text="87 Lean theorems on the generated rotation functions for all reals: axis rotations are the active right-handed matrices; all 12 Euler orders equal the documented product "
       "of three axis rotations (one uniform rule); preservation of dot and cross products, additivity, inverses; rotate_axis about e_i = rotateX/Y/Z and independent of the axis length; "
       "quaternion(cos a/2, n sin a/2) = rotate_axis(n,a); GROUP STRUCTURE of rotate_quaternion (Props/C10Quat.lean): two successive calls are one call with the Hamilton product for ALL quaternions, the norm is multiplicative, (1,0,0,0) is the identity, the conjugate of a unit quaternion undoes it (factor |q|^4 in general), the scalar triple product is preserved (proper rotation, det +1), the vector part is a fixed axis; every key via C01. rotate_nautical / case-insensitive order / 2D and 4D use: glue model + symbolic correspondence.",
  note=TB, technique="Lean 4 proofs (ring identities) over translator-generated model"),
 "C12": dict(category="proof", design="4/C12",
  text="Lean 4 theorems over the regenerated model: for ALL 4/36/144 coordinate-system key pairs and all reals, != <-> not ==, == reflexive/symmetric, same-system == and isclose "
       "characterised coordinate-wise, isclose reflexive, implied by == and monotone in both tolerances. Operator/method/numpy-function routing on object, NumPy and Awkward backends "
       "is checked differentially against the Lean model evaluated at IEEE double, and the coordinate-wise DEFINITION of isclose is checked on every same-system key with |a-b| on either side of atol + rtol*|b| (five tolerance pairs, three magnitudes, all backends). Known findings: numpy.isclose/allclose on object and Awkward vectors. METHOD LEVEL (Props/MethodOps.lean, 82 theorems): the same laws for the public calls/operators in every storage pairing; == implies equal denotations under Canon (converse false, witness); abs/**/sqrt/cbrt are functions of the norm; transform2D/3D/4D; like.",
  note=TB + "NaN is outside the real model; NumPy/Awkward element-wise semantics sampled, not proved.",
  technique="Lean 4 proof over translator-generated model + differential correspondence (Lean Float model vs real backends)"),
 "C13": dict(category="proof", design="4/C13",
  text="97 Lean theorems on the generated accessors and predicates: ranges of phi, deltaphi, theta, deltaangle; non-negativity; sign conventions of costheta/cottheta; t from tau >= 0; "
       "tau<0 iff spacelike; beta/gamma ranges; the three causal predicates pairwise disjoint and equal to the documented sign tests for every key and tolerance; "
       "is_parallel/antiparallel/perpendicular iff cos(angle) within tolerance, for all key pairs. The float64 ranges (phi, deltaphi, theta, costheta, deltaangle never NaN) are swept on exactly (anti)parallel and axis-aligned operands for every pair of coordinate systems (exploration, not proof). CLOSURE (Props/CanonClosed.lean, 66 theorems): for all 31 modules with a vector result and every key, the stored coordinates of the RESULT are in range (0 <= rho, -pi <= phi < pi, 0 <= theta <= pi, 0 <= tau under the natural hypotheses); modules whose declared result is always Cartesian are covered by decide-checked table lemmas; machine-checked witnesses for negative-factor scale on tau storage, to_beta3 with t<0, tau-tau subtraction.",
  note=TB + "singular strata (answers produced by nan_to_num replacement values) are exercised only on the real code by the law sweep.",
  technique="Lean 4 proofs over translator-generated model; mp law sweep incl. boundary strata as failing-input search"),
 "C14": dict(category="proof", design="4/C14",
  text="Theorems about the glue model: every momentum spelling resolves to the accessor of its geometric name (28 equations + completeness), calls and setters through a synonym "
       "equal those through the geometric name, to_* momentum conversions equal their geometric counterparts (C04), and flavor never changes a number (dispatch results agree after "
       "forgetting the momentum flag). Tie: symbolic correspondence for getters/conversions/setters on the object backend; NumPy and Awkward field access and item assignment through "
       "every synonym compared value for value; every derived alias (pt2, p, E2, mass2, transverse_mass2 ...) equals its geometric name on NumPy/Awkward arrays and in numba-compiled code; raw Awkward records carrying each momentum spelling as the field name read like the geometric spelling. "
       "FIELD-LOOKUP MODEL of Awkward records (Glue/Fields.lean, Props/C14Fields.lean, 33 main theorems c14f_; Driver/Fields.lean, harness/fields.py): the six from_fields / from_momentum_fields chains and numba's typing / lowering chains transcribed branch by branch; proved for all field lists with distinct names: order-independence, extras never matter, each of the ten synonyms is exact when no other spelling of the coordinate is present (and a witness that the side condition is needed), priorities in closed form, generic records ignore momentum spellings, and - the repair 17af0b2 - reading the wrapped result of _wrap_result gives the FRESH coordinates for every field list of self (c14f_wrap_fresh_az / _full). Tie: ~1 900 records per quick run through the driver vs the array view, the record view and the compiled view.",
  note=GL, technique="Lean 4 proofs about a hand-written executable model + exact symbolic / exhaustive synonym-table correspondence"),
 "C15": dict(category="proof", design="4/C15",
  text="The object vector as a state machine (assignment to any coordinate by any spelling, += -= *= /=): by induction over ALL finite histories class/flavor/dimension are invariant, "
       "a raising step leaves the state unchanged, in-place operators keep the coordinate system and equal replaceData of the functional result, assignments store the value verbatim, "
       "keep the other groups' stored coordinates and read back exactly (under the identity-accessor laws, proved for the generated copy). Tie: per-step exact symbolic correspondence "
       "on generated histories (valid and malformed), incl. id()/type() of the real object. VALUE HALF over the reals (Props/MethodState.lean, 60 theorems): what the vector DENOTES after each assignment, _replace_data = to_<own system> of the functional result, += -= *= /= denote the functional result in all 4/36/144 pairings, histories by induction under an explicit representability invariant.",
  note=GL, technique="Lean 4 proofs by induction over operation sequences + exact symbolic per-step correspondence"),
}
PENDING = {}
props = [json.loads(l) for l in open(os.path.join(VERIF, "properties.jsonl"))]
checks = []
for p in props:
    i = p["id"]
    if i in CLAIMS:
        c = CLAIMS[i]
        checks.append({
            "property_id": i, "quick_cmd": f"./check {i} --tier quick", "thorough_cmd": f"./check {i} --tier thorough",
            "evidence_file": f"/verif/evidence/{i}.json", "replay_cmd_template": f"./check {i} --replay {{path}}",
            "engine": "lean4-model", "level_claimed": {"category": c["category"], "text": c["text"], "design_ref": c["design"]},
            "level_note": c["note"], "technique": c["technique"]})
na = [{"property_id": p["id"], "reason": PENDING.get(p["id"], "check not built yet in this revision (see DESIGN.md section 4 for the plan)")}
      for p in props if p["id"] not in CLAIMS]
man = {
 "version": 1,
 "setup_cmd": "./setup.sh",
 "hooks": {"guard": "SCIKIT_HEP_VECTOR_VERIF", "enable": "none needed: every observation point is reachable by subclassing and public calls (no hook commits)",
           "baseline_off_cmd": "/venv/bin/python tools/baseline.py", "source_commits": [], "add_only": True},
 "engines": [{"name": "lean4-model", "path": "/verif/lean", "serves_properties": sorted(CLAIMS),
              "kind_free_text": "Lean 4 + Mathlib proofs over a model regenerated from /repo by tools/translate.py; Lean drivers run the executable copy for correspondence"}],
 "checks": checks,
 "not_applicable": na,
 "notes": "All checks: ./check <id> [--tier quick|thorough]; exit 0 ok, 1 VIOLATION, 2 infrastructure. See DESIGN.md.",
}
json.dump(man, open(os.path.join(VERIF, "MANIFEST.json"), "w"), indent=1)
print("claimed", sorted(CLAIMS), "not_applicable", len(na))
