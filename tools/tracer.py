"""Execution tracer (Route B of the translator validation, DESIGN.md 3.3).

Tracer scalars + a tracer `lib`: every arithmetic operator, comparison and
`lib.*` primitive builds an expression node; `__bool__` raises, so no
data-dependent control flow can hide.  `trace_all()` EXECUTES the real function
object found under every key of every live `dispatch_map` and prints the tree
in the canonical format that `VectorModel/Exec/Sym.lean` prints.

The same classes are used by the symbolic object-backend harness
(harness/symobj.py): a `VectorObject*D` subclass with `lib = TracerLib()` runs
the entire public API on tracer scalars.
"""
from __future__ import annotations

import importlib
import inspect
import pkgutil
import sys
from decimal import Decimal

sys.setrecursionlimit(20000)


class N:
    """expression node (hash-consed)"""
    _tab: dict = {}
    __slots__ = ("op", "args", "id", "_s")
    __array_priority__ = 1000

    def __new__(cls, op, *args):
        key = (op, tuple(a.id if isinstance(a, N) else ("c", type(a).__name__, repr(a)) for a in args))
        n = N._tab.get(key)
        if n is None:
            n = object.__new__(cls)
            n.op = op
            n.args = args
            n.id = len(N._tab)
            n._s = None
            N._tab[key] = n
        return n

    def __bool__(self):
        raise TypeError("data-dependent control flow on a traced value")

    def __hash__(self):
        return self.id

    def _b(op, swap=False):  # noqa: N805
        def f(self, o):
            try:
                o = lift(o)
            except TypeError:
                return NotImplemented
            return N(op, o, self) if swap else N(op, self, o)
        return f

    __add__ = _b("add")
    __radd__ = _b("add", True)
    __sub__ = _b("sub")
    __rsub__ = _b("sub", True)
    __mul__ = _b("mul")
    __rmul__ = _b("mul", True)
    __truediv__ = _b("div")
    __rtruediv__ = _b("div", True)
    __mod__ = _b("mod")
    __rmod__ = _b("mod", True)
    __pow__ = _b("pow")
    __rpow__ = _b("pow", True)
    __lt__ = _b("lt")
    __le__ = _b("le")
    __gt__ = _b("gt")
    __ge__ = _b("ge")
    __eq__ = _b("eq")
    __ne__ = _b("ne")
    __and__ = _b("and")
    __or__ = _b("or")
    __rand__ = _b("and", True)
    __ror__ = _b("or", True)

    def __neg__(self):
        return N("neg", self)

    def __pos__(self):
        return self

    def __abs__(self):
        return N("absolute", self)

    def __invert__(self):
        return N("not", self)

    def __repr__(self):
        return show(self)


def var(name):
    return N("var", name)


def lift(x):
    if isinstance(x, N):
        return x
    if isinstance(x, bool):
        return N("constb", x)
    if isinstance(x, (int, float)):
        return N("const", x)
    try:
        import numpy
        if isinstance(x, numpy.generic) and x.shape == ():
            return lift(x.item())
    except ImportError:
        pass
    raise TypeError(f"cannot lift {x!r}")


def fconst(v: float) -> str:
    if v != v:
        return "fnan"
    if v == float("inf"):
        return "finf"
    if v == float("-inf"):
        return "f-inf"
    sign = "-" if (v < 0 or (v == 0 and str(v).startswith("-"))) else ""
    d = Decimal(repr(abs(v)))
    _, digits, exp = d.as_tuple()
    m = int("".join(map(str, digits)))
    if m == 0:
        return f"f{sign}0e0"
    while m % 10 == 0:
        m //= 10
        exp += 1
    return f"f{sign}{m}e{exp}"


def show(n) -> str:
    if not isinstance(n, N):
        n = lift(n)
    if n._s is not None:
        return n._s
    if n.op == "var":
        s = n.args[0]
    elif n.op == "const":
        v = n.args[0]
        s = f"i{v}" if isinstance(v, int) else fconst(v)
    elif n.op == "constb":
        s = "bTrue" if n.args[0] else "bFalse"
    elif not n.args:
        s = n.op
    else:
        s = n.op + "(" + ",".join(show(a) for a in n.args) + ")"
    n._s = s
    return s


class TracerLib:
    pi = N("pi")
    inf = N("libinf")

    def __getattr__(self, name):
        if name.startswith("__"):
            raise AttributeError(name)

        def f(*args, **kw):
            a = [lift(x) for x in args]
            for k in sorted(kw):
                a.append(N("kw_" + k, lift(kw[k])))
            return N(name, *a)
        return f


def coord_names():
    from vector._methods import (AzimuthalRhoPhi, AzimuthalXY, LongitudinalEta, LongitudinalTheta,
                                 LongitudinalZ, TemporalT, TemporalTau)
    return {AzimuthalXY: ("xy", ("x", "y")), AzimuthalRhoPhi: ("rhophi", ("rho", "phi")),
            LongitudinalZ: ("z", ("z",)), LongitudinalTheta: ("theta", ("theta",)),
            LongitudinalEta: ("eta", ("eta",)), TemporalT: ("t", ("t",)), TemporalTau: ("tau", ("tau",))}


def trace_all():
    """-> dict 'mid:key' -> (components string | 'ERR ...', declared result string)"""
    import vector  # noqa: F401
    NAMES = coord_names()
    out = {}
    lib = TracerLib()
    for group in ("planar", "spatial", "lorentz"):
        pkg = importlib.import_module("vector._compute." + group)
        for mi in sorted(pkgutil.iter_modules(pkg.__path__), key=lambda m: m.name):
            mod = importlib.import_module(f"vector._compute.{group}.{mi.name}")
            if not hasattr(mod, "dispatch_map"):
                continue
            mid = f"{group}_{mi.name}"
            for sig, (fn, *ret) in mod.dispatch_map.items():
                cargs = []
                idx = 0
                keyparts = []
                for s in sig:
                    if isinstance(s, str):
                        keyparts.append(s)
                        continue
                    kname, names = NAMES[s]
                    keyparts.append(kname)
                    if kname in ("xy", "rhophi"):
                        idx += 1
                    for nm in names:
                        cargs.append(var(f"{nm}{idx}"))
                nparams = len(inspect.signature(fn).parameters) - 1
                sargs = [var(f"s{j}") for j in range(nparams - len(cargs))]
                try:
                    res = fn(lib, *sargs, *cargs)
                    rs = res if isinstance(res, tuple) else (res,)
                    txt = "|".join(show(r) for r in rs)
                except Exception as e:  # noqa: BLE001
                    txt = f"ERR {type(e).__name__}: {e}"
                rstr = ",".join("float" if r is float else "bool" if r is bool else "None" if r is None
                                else NAMES[r][0] if r in NAMES else repr(r) for r in ret)
                out[f"{mid}:{','.join(keyparts)}"] = (txt, rstr)
    return out


if __name__ == "__main__":
    for k, (txt, r) in trace_all().items():
        print(f"{k}\t{txt}\t{r}")
